/-
Cluster model for the protocol-level half of C01: a list of `Node`s (ids = positions), the global log
`L` of acknowledged local transactions `(site, version) ↦ change list as produced` (monotone
history, NEWEST FIRST), and — ghost state — for every node the list `R i` of changes it has merged
into its store so far.

Everything a node ever receives is either an original chunk cut from `L` (`Op.deliverOrigin`) or
something another node SERVED from its own state through `Node.serve` (`Op.sync`).  Changesets are
delivered ONE PER BATCH (`Node.deliver [it]`): a sync session hands the kept answers to
`process_multiple_changes` one at a time, in the order the op gives.  Loss, reordering and
duplication inside a session are the op's `keep` list (indices into the server's answer list, any
order, repeats allowed, missing indices = lost answers).

Executable, import-free apart from the other model files.
-/
import Corro.Model.Node

namespace Corro.ClusterSys
open Corro.Crdt Corro.Node
open Corro.Needs (computeAvailableNeeds)

/-- the global log, newest transaction first: `((site, version), change list as produced)` -/
abbrev Log := List ((Nat × Nat) × List Chg)

/-- the change list of `(site, version)` (`[]` if there is no such transaction) -/
def Log.get (L : Log) (a v : Nat) : List Chg :=
  ((L.find? (fun e => e.1.1 = a ∧ e.1.2 = v)).map (·.2)).getD []

def Log.has (L : Log) (a v : Nat) : Bool := L.any (fun e => e.1.1 = a ∧ e.1.2 = v)

/-- all changes of all acknowledged transactions -/
def Log.all (L : Log) : List Chg := L.flatMap (·.2)

/-- number of versions site `a` has produced -/
def Log.head (L : Log) (a : Nat) : Nat := (L.filter (fun e => e.1.1 = a)).length

structure Cluster where
  nodes : List Node
  log : Log := []
  /-- ghost: `recv[i]` = the changes node `i` has merged into its store so far (own writes included) -/
  recv : List (List Chg) := []
deriving Inhabited

def Cluster.init (k : Nat) : Cluster :=
  { nodes := (List.range k).map Node.fresh, log := [], recv := List.replicate k [] }

/-- the ghost received-list of node `i` -/
def Cluster.R (c : Cluster) (i : Nat) : List Chg := (c.recv[i]?).getD []

inductive Op where
  /-- a local transaction on node `i` -/
  | write (i : Nat) (stmts : List Stmt)
  /-- node `i` receives the chunk `[lo, hi]` of the ORIGINAL change list of `(site, ver)`, with the
  original `last_seq` -/
  | deliverOrigin (i site ver lo hi : Nat)
  /-- a sync session of client `i` with server `j`; `keep` selects (by index, in delivery order)
  which of the server's answers reach the client -/
  | sync (i j : Nat) (keep : List Nat)
  | kill (i : Nat)
  | restart (i : Nat)
deriving Repr, Inhabited

/-- the chunk `[lo, hi]` of the original transaction `(site, ver)`, as its origin would send it -/
def originItem (L : Log) (site ver lo hi : Nat) : Item :=
  let cs := L.get site ver
  .full site ver lo hi (maxSeq cs) (cs.filter (fun c => lo ≤ c.seq ∧ c.seq ≤ hi))

/-- what `n.deliver [it]` merges into the store (ghost bookkeeping; `mergedBy_spec` in
`Lemmas/ClusterDeliver.lean` proves `(n.deliver [it]).db = mergeAll n.db (mergedBy n it)`) -/
def mergedBy (n : Node) (it : Item) : List Chg :=
  match it with
  | .empty .. => []
  | .full site ver lo hi last cs =>
    if (n.booked site).containsAll ver ver (some (lo, hi)) then []
    else if lo == 0 && hi == last then cs
    else if hi < lo then []
    else
      let r := n.bufferChunk site ver lo hi last cs
      let p := (((n.booked site).insertDb [(ver, ver)]).insertPartial ver ⟨[r.2], last⟩).2
      if p.complete && n.alive then sortBySeq (r.1.buf.filter (fun c => c.site = site ∧ c.dbv = ver))
      else []

/-- one changeset through `process_multiple_changes`, with the ghost list -/
def deliverOne (s : Node × List Chg) (it : Item) : Node × List Chg :=
  (s.1.deliver [it], mergedBy s.1 it ++ s.2)

/-- what the re-scheduled applies of a restart merge, in order (ghost bookkeeping) -/
def restartMerged (n : Node) : List Chg :=
  let tasks : List (Nat × Nat) :=
    (n.knownActors.map (fun a => (a, n.fromConn a))).flatMap
      (fun e => (e.2.partials.filter (fun vp => vp.2.complete)).map (fun vp => (e.1, vp.1)))
  (tasks.foldl (fun (s : List Chg × List Chg) t =>
      (s.1 ++ sortBySeq (s.2.filter (fun c => c.site = t.1 ∧ c.dbv = t.2)),
        s.2.filter (fun c => !decide (c.site = t.1 ∧ c.dbv = t.2)))) ([], n.buf)).1

/-- everything server `nj` sends in a session with client `ni`: the client computes its needs from
the two advertised states, the server answers every need -/
def answers (ni nj : Node) : List Item :=
  (computeAvailableNeeds ni.syncState nj.syncState).flatMap
    (fun an => an.2.flatMap (fun need => nj.serve an.1 need))

def pick (l : List Item) (keep : List Nat) : List Item := keep.filterMap (fun k => l[k]?)

def Cluster.setNode (c : Cluster) (i : Nat) (s : Node × List Chg) : Cluster :=
  { c with nodes := c.nodes.set i s.1, recv := c.recv.set i s.2 }

def step (c : Cluster) : Op → Cluster
  | .write i stmts =>
    match c.nodes[i]? with
    | none => c
    | some n =>
      match n.localWrite stmts with
      | .ok (n', some (ver, chs)) =>
        { nodes := c.nodes.set i n', log := ((n.id, ver), chs) :: c.log,
          recv := c.recv.set i (chs ++ c.R i) }
      | _ => c
  | .deliverOrigin i site ver lo hi =>
    match c.nodes[i]? with
    | none => c
    | some n =>
      if c.log.has site ver && decide (lo ≤ hi) && decide (hi ≤ maxSeq (c.log.get site ver)) then
        c.setNode i (deliverOne (n, c.R i) (originItem c.log site ver lo hi))
      else c
  | .sync i j keep =>
    match c.nodes[i]?, c.nodes[j]? with
    | some ni, some nj =>
      if i = j then c
      else c.setNode i ((pick (answers ni nj) keep).foldl deliverOne (ni, c.R i))
    | _, _ => c
  | .kill i =>
    match c.nodes[i]? with
    | none => c
    | some n => c.setNode i (n.kill, c.R i)
  | .restart i =>
    match c.nodes[i]? with
    | none => c
    | some n => c.setNode i (n.restart, restartMerged n ++ c.R i)

def run (c : Cluster) (ops : List Op) : Cluster := ops.foldl step c

/-- no node has a sequence row of a version without a buffered row of that version -/
def nodeClean (n : Node) : Bool :=
  n.seqRows.all (fun r => n.buf.any (fun c => c.site = r.site ∧ c.dbv = r.ver))

def Cluster.clean (c : Cluster) : Bool := c.nodes.all nodeClean

end Corro.ClusterSys
