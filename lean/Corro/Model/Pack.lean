/-
Model of `pack_columns` / `unpack_columns` / `num_bytes_needed_i64` / `num_bytes_needed_i32`
(crates/klukai-types/src/pubsub.rs), the cr-sqlite packed primary key format:

  [num_columns:u8, … (type | intlen << 3):u8, intlen big-endian bytes (integer / length)?, payload? …]

Import-free: this file is linked into the driver.  It follows the code as it is at HEAD (after the
`fix:` commits): integers and lengths are read back with `get_uint` (no sign extension), an empty
input and `intlen > 8` are errors.

Representation choices
* bytes are `UInt8`, byte strings `List UInt8`;
* an `i64` is an `Int` (the theorems assume `-2^63 ≤ v < 2^63`); its two's complement bit pattern is
  `pat64 v = v mod 2^64`, the way back is `ofPat64`;
* an `f64` is its IEEE bit pattern `f64::to_bits` as a `Nat < 2^64` (NaN payloads included: nothing
  in the codec looks at the float);
* text is the byte string of the `str` (`unpack_columns` does not validate it: it hands out
  `ValueRef::Text(&[u8])`).
-/
namespace Corro.Pack

abbrev Bytes := List UInt8

/-- (core has no `DecidableEq (Except ε α)`; needed for the `decide`d examples) -/
instance {ε α : Type} [DecidableEq ε] [DecidableEq α] : DecidableEq (Except ε α)
  | .ok a, .ok b => if h : a = b then isTrue (h ▸ rfl) else isFalse (fun e => h (by injection e))
  | .error a, .error b => if h : a = b then isTrue (h ▸ rfl) else isFalse (fun e => h (by injection e))
  | .ok _, .error _ => isFalse (fun e => by cases e)
  | .error _, .ok _ => isFalse (fun e => by cases e)

/-- The low `k` bytes of `n`, most significant first: `BufMut::put_int(n, k)` / `put_uint` /
`put_f64` (k = 8). -/
def beBytes : Nat → Nat → Bytes
  | 0, _ => []
  | k + 1, n => beBytes k (n / 256) ++ [UInt8.ofNat (n % 256)]

/-- Big-endian value of a byte string: `Buf::get_uint(len)` (no sign extension). -/
def beNat (bs : Bytes) : Nat := bs.foldl (fun a b => a * 256 + b.toNat) 0

/-- `SqliteValue` as far as the packed format is concerned. -/
inductive Val where
  | null
  | int (v : Int)
  | real (bits : Nat)
  | text (bs : Bytes)
  | blob (bs : Bytes)
deriving DecidableEq, Repr, Inhabited

/-- two's complement bit pattern of an `i64` -/
def pat64 (v : Int) : Nat := (v % 18446744073709551616).toNat

/-- `u64 as i64` -/
def ofPat64 (n : Nat) : Int :=
  if n < 9223372036854775808 then (n : Int) else (n : Int) - 18446744073709551616

/-- `num_bytes_needed_i32` on the 32-bit pattern `m`: the mask tests
`val & 0xFF000000 != 0`, `val & 0x00FF0000 != 0`, `val & 0x0000FF00 != 0` are "byte 3/2/1 is not
zero"; the last test really is a multiplication in the source (`val * 0x000000FF != 0`, wrapping
here; it cannot overflow at that point because the upper three bytes are zero). -/
def numBytes32 (m : Nat) : Nat :=
  if m / 16777216 % 256 ≠ 0 then 4
  else if m / 65536 % 256 ≠ 0 then 3
  else if m / 256 % 256 ≠ 0 then 2
  else if (m * 255) % 4294967296 ≠ 0 then 1
  else 0

/-- `num_bytes_needed_i64` on the 64-bit pattern `n` (`val as i32` = low 32 bits). -/
def numBytes64 (n : Nat) : Nat :=
  if n / 72057594037927936 % 256 ≠ 0 then 8
  else if n / 281474976710656 % 256 ≠ 0 then 7
  else if n / 1099511627776 % 256 ≠ 0 then 6
  else if n / 4294967296 % 256 ≠ 0 then 5
  else numBytes32 (n % 4294967296)

/-- header + length field of a text/blob of `len` bytes: `len as i32`, minimal byte count,
`put_int(len as i64, k)`. -/
def packLen (ty : Nat) (len : Nat) : Bytes :=
  let l := len % 4294967296
  let k := numBytes32 l
  UInt8.ofNat (k * 8 + ty) :: beBytes k l

/-- one column; `ColumnType`: Integer = 1, Float = 2, Text = 3, Blob = 4, Null = 5;
type byte = `num_bytes << 3 | type`. -/
def packVal : Val → Bytes
  | .null => [5]
  | .int v =>
    let n := pat64 v
    let k := numBytes64 n
    UInt8.ofNat (k * 8 + 1) :: beBytes k n
  | .real b => 2 :: beBytes 8 b
  | .text bs => packLen 3 bs.length ++ bs
  | .blob bs => packLen 4 bs.length ++ bs

def packVals : List Val → Bytes
  | [] => []
  | v :: vs => packVal v ++ packVals vs

inductive PackErr where
  | abort
deriving DecidableEq, Repr

/-- `pack_columns`: more than 255 columns is `PackError::Abort`. -/
def pack (vs : List Val) : Except PackErr Bytes :=
  if vs.length ≤ 255 then .ok (UInt8.ofNat vs.length :: packVals vs) else .error .abort

inductive UnpackErr where
  | abort
  | misuse
deriving DecidableEq, Repr

/-- length-prefixed payload of a text/blob column: `intlen` big-endian length bytes, then that many
payload bytes; both checked against what remains. -/
def unpackPayload (il : Nat) (bs : Bytes) : Except UnpackErr (Bytes × Bytes) :=
  if bs.length < il then .error .abort else
  let len := beNat (bs.take il)
  let bs := bs.drop il
  if bs.length < len then .error .abort else
  .ok (bs.take len, bs.drop len)

/-- one iteration of the column loop of `unpack_columns`, in the order of the source:
no byte left → Abort; `intlen > 8` → Misuse (before the type is looked at); then per type. -/
def unpackOne : Bytes → Except UnpackErr (Val × Bytes)
  | [] => .error .abort
  | t :: bs =>
    let ty := t.toNat % 8
    let il := t.toNat / 8
    if il > 8 then .error .misuse
    else if ty = 4 then
      match unpackPayload il bs with
      | .error e => .error e
      | .ok (p, r) => .ok (.blob p, r)
    else if ty = 2 then
      if bs.length < 8 then .error .abort else .ok (.real (beNat (bs.take 8)), bs.drop 8)
    else if ty = 1 then
      if bs.length < il then .error .abort else .ok (.int (ofPat64 (beNat (bs.take il))), bs.drop il)
    else if ty = 5 then .ok (.null, bs)
    else if ty = 3 then
      match unpackPayload il bs with
      | .error e => .error e
      | .ok (p, r) => .ok (.text p, r)
    else .error .misuse

/-- `for _ in 0..num_columns` -/
def unpackCols : Nat → Bytes → Except UnpackErr (List Val)
  | 0, _ => .ok []
  | c + 1, bs =>
    match unpackOne bs with
    | .error e => .error e
    | .ok (v, r) =>
      match unpackCols c r with
      | .error e => .error e
      | .ok vs => .ok (v :: vs)

/-- `unpack_columns`: empty input → Abort; trailing bytes after the last column are ignored. -/
def unpack : Bytes → Except UnpackErr (List Val)
  | [] => .error .abort
  | n :: bs => unpackCols n.toNat bs

/-- bytes a decoded value occupies at least in the input: its type byte plus its payload. -/
def weight : Val → Nat
  | .null => 1
  | .int _ => 1
  | .real _ => 9
  | .text bs => 1 + bs.length
  | .blob bs => 1 + bs.length

def weights : List Val → Nat
  | [] => 0
  | v :: vs => weight v + weights vs

/-- Well-formed value of the property's quantifier: any `i64`, any `f64` bit pattern (NaNs
included), text and blob shorter than 2³¹ bytes (the length field is an `i32` in the extension). -/
def WFVal : Val → Prop
  | .null => True
  | .int v => -9223372036854775808 ≤ v ∧ v < 9223372036854775808
  | .real b => b < 18446744073709551616
  | .text bs => bs.length < 2147483648
  | .blob bs => bs.length < 2147483648

instance (v : Val) : Decidable (WFVal v) := by
  cases v <;> simp only [WFVal] <;> exact inferInstance

/-! ### UTF-8 well-formedness (what `str::from_utf8` accepts; Unicode Table 3-7)

Used by the drivers and by `Corro.Codec` (`SqliteValue::Text` and every `String` field are checked on
decode).  `pack_columns` takes `&str`, so only valid text can be packed. -/

def isCont (b : UInt8) : Bool := 0x80 ≤ b.toNat && b.toNat ≤ 0xBF

def validUtf8 : Bytes → Bool
  | [] => true
  | b0 :: rest =>
    let x := b0.toNat
    if x < 0x80 then validUtf8 rest
    else if 0xC2 ≤ x && x ≤ 0xDF then
      match rest with
      | b1 :: r => isCont b1 && validUtf8 r
      | _ => false
    else if 0xE0 ≤ x && x ≤ 0xEF then
      match rest with
      | b1 :: b2 :: r =>
        let y := b1.toNat
        (if x = 0xE0 then 0xA0 ≤ y && y ≤ 0xBF
         else if x = 0xED then 0x80 ≤ y && y ≤ 0x9F
         else isCont b1) && isCont b2 && validUtf8 r
      | _ => false
    else if 0xF0 ≤ x && x ≤ 0xF4 then
      match rest with
      | b1 :: b2 :: b3 :: r =>
        let y := b1.toNat
        (if x = 0xF0 then 0x90 ≤ y && y ≤ 0xBF
         else if x = 0xF4 then 0x80 ≤ y && y ≤ 0x8F
         else isCont b1) && isCont b2 && isCont b3 && validUtf8 r
      | _ => false
    else false

end Corro.Pack
