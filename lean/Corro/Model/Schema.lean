/-
Model of run-time schema application.  Import-free: this file is linked into the driver.

Code followed (as it is, in its decision order):
* `crates/klukai-types/src/schema.rs`: `Schema`/`Table`/`Column`/`Index`, `parse_sql_to_schema` +
  `prepare_table` (`parse`, `prepareTable`), `Schema::constrain` (`constrain`), `apply_schema`
  (`planSteps` = the decisions, `check`/`effect` = what the executed statements do to the database),
  `init_schema` (`initSchema`);
* `crates/klukai-agent/src/api/public/mod.rs`: `api_v1_db_schema` / `execute_schema` (`submit`);
* `crates/klukai-agent/src/agent/setup.rs`: `setup` re-reading the schema at start (`restart`).

Maps (`IndexMap<String, _>`) are association lists keyed by name: `insert` replaces in place or
appends (as `IndexMap::insert`), `lookup` finds the first entry.  An `IndexMap` has each key once;
wherever the code iterates over the entries of a map the model reads the value through `lookup`, so
a (never constructed) duplicate key cannot be observed.

`Column` is what `Column: PartialEq` compares: the written definition (`raw`: type, NOT NULL,
DEFAULT, GENERATED, inline PRIMARY KEY, REFERENCES) plus the derived `primary_key` flag.  The key of
a table (`Table.pk`, an `IndexSet`) is an ordered list.  `Table.raw` is kept only as far as it is
used (`tpk`, `pkExpr`: the table-level PRIMARY KEY constraint) — `apply_schema` never compares it.

The database is abstract: per table its definition as `sqlite_schema` holds it (columns in database
order, indexes), its rows (column ↦ value, in column order; generated columns are not stored), and
whether it is a CRR; plus the contents of `__corro_schema` (`persisted`).  SQLite's and cr-sqlite's
own refusals that can be reached are modelled as observed on the real code (`check`): cr-sqlite
refuses a table without a primary key or with a nullable key column, SQLite refuses a second index
of the same name anywhere in the database, `ALTER TABLE ADD COLUMN` refuses a STORED generated column
when the table holds rows.
`crsql_begin_alter`/`crsql_commit_alter` do not change what is modelled and are not actions.

`apply_schema` walks the intersecting tables in `HashSet` order; the model walks them in the order of
the new schema.  Accept/reject and the resulting state do not depend on that order; the error *kind*
does when two existing tables are wrong in different ways (the generator never does that).
-/
namespace Corro.Schema

abbrev Name := String
abbrev Val := String
abbrev AList (α : Type) := List (Name × α)

namespace AList
variable {α : Type}

def lookup (k : Name) : AList α → Option α
  | [] => none
  | (k', v) :: r => if k' = k then some v else lookup k r

def contains (k : Name) (l : AList α) : Bool := (lookup k l).isSome

def keys (l : AList α) : List Name := l.map (·.1)

/-- `IndexMap::insert`: replace the value in place, or append. -/
def insert (k : Name) (v : α) : AList α → AList α
  | [] => [(k, v)]
  | (k', v') :: r => if k' = k then (k, v) :: r else (k', v') :: insert k v r

def erase (k : Name) (l : AList α) : AList α := l.filter (fun e => decide (e.1 ≠ k))

def modify (k : Name) (f : α → α) : AList α → AList α
  | [] => []
  | (k', v) :: r => if k' = k then (k', f v) :: r else (k', v) :: modify k f r

end AList
open AList

/-! ### schema values -/

inductive Err
  | empty | parse | unsupported | indexWithoutTable
  | pkExpr | notNullNeedsDefault | foreignKey | uniqueIndex
  | dropTable | removeColumn | changeColumn | addPk | modifyPk
  | importedPkMismatch | importedColsMismatch | sqlite
deriving DecidableEq, Repr, Inhabited

/-- `GENERATED ALWAYS AS (src) VIRTUAL|STORED` -/
structure Gen where
  src : Name
  stored : Bool
deriving DecidableEq, Repr, Inhabited

structure Column where
  ty : String
  notNull : Bool
  dflt : Option String
  gen : Option Gen
  inlinePk : Bool
  fk : Bool
  /-- derived by `prepare_table`: the column is named by the table's key -/
  pk : Bool
deriving DecidableEq, Repr, Inhabited

structure Index where
  cols : List Name
  whr : Option Name
  unique : Bool
deriving DecidableEq, Repr, Inhabited

structure Table where
  pk : List Name
  cols : AList Column
  idx : AList Index
  tpk : Option (List Name)
  pkExpr : Bool
deriving DecidableEq, Repr, Inhabited

abbrev Schema := AList Table

/-! ### parsing a submission (`parse_sql`), merging, `constrain` -/

inductive Stmt
  | table (name : Name) (cols : AList Column) (tpk : Option (List Name)) (pkExpr : Bool)
  | index (name tbl : Name) (i : Index)
  | syntaxError
  | unsupported
deriving DecidableEq, Repr, Inhabited

/-- `prepare_table`: the key is the table-level constraint if there is one, else the columns with an
inline PRIMARY KEY in column order; every column gets its `primary_key` flag. -/
def prepareTable (cols : AList Column) (tpk : Option (List Name)) (pkExpr : Bool) : Table :=
  let pk := match tpk with
    | some l => l
    | none => (cols.filter (fun e => e.2.inlinePk)).map (·.1)
  { pk := pk, tpk := tpk, pkExpr := pkExpr, idx := [],
    cols := cols.foldl (fun acc e => insert e.1 { e.2 with pk := pk.contains e.1 } acc) [] }

def parseStep (s : Schema) : Stmt → Except Err Schema
  | .table n cols tpk ex => .ok (insert n (prepareTable cols tpk ex) s)
  | .index n tbl i =>
    match lookup tbl s with
    | some t => .ok (insert tbl { t with idx := insert n i t.idx } s)
    | none => .error .indexWithoutTable
  | .syntaxError => .error .parse
  | .unsupported => .error .unsupported

/-- `parse_sql_to_schema`: statement by statement, the first failing statement decides. -/
def parseFrom : Schema → List Stmt → Except Err Schema
  | s, [] => .ok s
  | s, st :: r => match parseStep s st with
    | .ok s' => parseFrom s' r
    | .error e => .error e

def parse (stmts : List Stmt) : Except Err Schema := parseFrom [] stmts

/-- `execute_schema`: clone of the current schema with every submitted table inserted on top. -/
def merge (mem part : Schema) : Schema := part.foldl (fun s e => insert e.1 e.2 s) mem

def constrainCols : AList Column → Option Err
  | [] => none
  | (_, c) :: r =>
    if !c.pk && c.notNull && c.dflt.isNone then some .notNullNeedsDefault
    else if c.fk then some .foreignKey
    else constrainCols r

def constrainTable (t : Table) : Option Err :=
  if t.pkExpr then some .pkExpr else
  match constrainCols t.cols with
  | some e => some e
  | none => if t.idx.any (fun e => e.2.unique) then some .uniqueIndex else none

/-- `Schema::constrain`: `none` = accepted. -/
def constrain : Schema → Option Err
  | [] => none
  | (_, t) :: r => match constrainTable t with
    | some e => some e
    | none => constrain r

/-! ### the decisions of `apply_schema` -/

inductive Action
  | createTable (name : Name) (t : Table)
  | addColumn (tbl col : Name) (c : Column)
  | createIndex (tbl idx : Name) (i : Index)
  | dropIndex (tbl idx : Name)
deriving DecidableEq, Repr, Inhabited

def Action.table : Action → Name
  | .createTable n _ => n
  | .addColumn t _ _ => t
  | .createIndex t _ _ => t
  | .dropIndex t _ => t

/-- the statements executed so far, and the error the code then returns (if any) -/
abbrev Steps := List Action × Option Err

def Steps.andThen (a b : Steps) : Steps :=
  match a.2 with
  | some e => (a.1, some e)
  | none => (a.1 ++ b.1, b.2)

/-- the loop over the new columns: key column → error, NOT NULL without default → error, else ALTER -/
def addColSteps (tbl : Name) : AList Column → Steps
  | [] => ([], none)
  | (n, c) :: r =>
    if c.pk then ([], some .addPk)
    else if c.notNull && c.dflt.isNone then ([], some .notNullNeedsDefault)
    else Steps.andThen ([.addColumn tbl n c], none) (addColSteps tbl r)

/-- the new definition of an index that exists in both schemas and differs -/
def changedIndex (old new : AList Index) (k : Name) : Option Index :=
  match lookup k new with
  | some i => if lookup k old = some i then none else some i
  | none => none

/-- new indexes are created, dropped ones dropped, changed ones dropped and created again -/
def indexActions (tbl : Name) (old new : AList Index) : List Action :=
  ((keys new).filter (fun k => !contains k old)).filterMap
      (fun k => (lookup k new).map (fun i => Action.createIndex tbl k i))
  ++ ((keys old).filter (fun k => !contains k new)).map (fun k => Action.dropIndex tbl k)
  ++ ((keys old).filterMap (fun k => (changedIndex old new k).map
        (fun i => [Action.dropIndex tbl k, Action.createIndex tbl k i]))).flatten

def newCols (t nt : Table) : AList Column := nt.cols.filter (fun e => !contains e.1 t.cols)

/-- an existing column whose definition (or key flag) differs in the new table -/
def colChanged (t nt : Table) (c : Name) : Bool :=
  match lookup c nt.cols with
  | some c' => decide (lookup c t.cols ≠ some c')
  | none => false

/-- one intersecting table: dropped column → error; changed column → error; key list changed
(ordered comparison) → error; new columns; index diff. -/
def tableSteps (name : Name) (t nt : Table) : Steps :=
  if (keys t.cols).any (fun c => !contains c nt.cols) then ([], some .removeColumn)
  else if (keys t.cols).any (colChanged t nt) then ([], some .changeColumn)
  else if t.pk ≠ nt.pk then ([], some .modifyPk)
  else Steps.andThen (addColSteps name (newCols t nt)) (indexActions name t.idx nt.idx, none)

def interSteps (old new : Schema) : List Name → Steps
  | [] => ([], none)
  | n :: r =>
    match lookup n old, lookup n new with
    | some t, some nt => Steps.andThen (tableSteps n t nt) (interSteps old new r)
    | _, _ => interSteps old new r

def newTableActions (old new : Schema) : List Action :=
  (new.filter (fun e => !contains e.1 old)).map (fun e => Action.createTable e.1 e.2)

/-- `apply_schema` as a list of statements to execute and the error met after them. -/
def planSteps (old new : Schema) : Steps :=
  if (keys old).any (fun k => !contains k new) then ([], some .dropTable)
  else Steps.andThen (newTableActions old new, none) (interSteps old new (keys new))

def plan (old new : Schema) : Except Err (List Action) :=
  match planSteps old new with
  | (a, none) => .ok a
  | (_, some e) => .error e

/-! ### the database -/

abbrev Row := AList Val

structure DbTable where
  tbl : Table
  rows : List Row
  crr : Bool
deriving DecidableEq, Repr, Inhabited

abbrev Tables := AList DbTable

structure Db where
  tables : Tables
  /-- `__corro_schema`: per table the definition copied from `sqlite_schema` -/
  persisted : Schema
deriving DecidableEq, Repr, Inhabited

/-- cr-sqlite: "Table has no primary key or primary key is nullable" -/
def crrOk (t : Table) : Bool :=
  !t.pk.isEmpty && t.pk.all (fun k => match lookup k t.cols with
    | some c => c.notNull
    | none => false)

/-- index names (and table names) share one namespace in a database file -/
def nameTaken (db : Tables) (i : Name) : Bool :=
  db.any (fun e => decide (e.1 = i) || contains i e.2.tbl.idx)

def indexColsOk (t : Table) (i : Index) : Bool :=
  i.cols.all (fun c => contains c t.cols) &&
  (match i.whr with
   | some w => contains w t.cols
   | none => true)

/-- `ALTER TABLE ADD COLUMN`: no second column of that name, no PRIMARY KEY; a STORED generated column
or a NOT NULL column without default only while the table is empty (SQLite tests these against the
rows); a generated column copies an existing ordinary column. -/
def addColumnOk (dt : DbTable) (col : Name) (c : Column) : Bool :=
  !contains col dt.tbl.cols && !c.inlinePk && (dt.rows.isEmpty || !(c.notNull && c.dflt.isNone)) &&
  (match c.gen with
   | some g => (dt.rows.isEmpty || !g.stored) && (match lookup g.src dt.tbl.cols with
      | some s => s.gen.isNone
      | none => false)
   | none => true)

/-- `IndexMap == IndexMap`: same size, every entry of one found equal in the other -/
def colsMapEq (a b : AList Column) : Bool :=
  a.length == b.length && (keys b).all (fun k => decide (lookup k a = lookup k b))

/-- `IndexSet == IndexSet` (the reconcile path compares the keys this way): same size, same members,
in any order -/
def pkSetEq (a b : List Name) : Bool := a.length == b.length && a.all (fun k => b.contains k)

/-- does the statement succeed on this database? (`none` = yes) -/
def check (db : Tables) : Action → Option Err
  | .createTable n t =>
    match lookup n db with
    | some dt =>     -- CREATE TABLE fails: reconcile with the existing table
      if !pkSetEq dt.tbl.pk t.pk then some .importedPkMismatch
      else if !colsMapEq dt.tbl.cols t.cols then some .importedColsMismatch
      else if !crrOk dt.tbl || dt.tbl.idx.any (fun e => e.2.unique) then some .sqlite   -- cr-sqlite: no unique index besides the key
      else none
    | none =>
      if nameTaken db n || !crrOk t ||
         !(t.idx.all (fun e => !nameTaken db e.1 && decide (e.1 ≠ n) && indexColsOk t e.2))
      then some .sqlite else none
  | .addColumn tbl col c =>
    match lookup tbl db with
    | none => some .sqlite
    | some dt => if addColumnOk dt col c then none else some .sqlite
  | .createIndex tbl idx i =>
    match lookup tbl db with
    | none => some .sqlite
    | some dt => if nameTaken db idx || !indexColsOk dt.tbl i then some .sqlite else none
  | .dropIndex tbl idx =>
    match lookup tbl db with
    | none => some .sqlite
    | some dt => if contains idx dt.tbl.idx then none else some .sqlite

def extendRow (col : Name) (c : Column) (r : Row) : Row :=
  if c.gen.isSome then r else r ++ [(col, c.dflt.getD "NULL")]

def tblEffect (dt : DbTable) : Action → DbTable
  | .createTable _ _ => { dt with crr := true }      -- reconciled: only `crsql_as_crr`
  | .addColumn _ col c =>
    { dt with tbl := { dt.tbl with cols := dt.tbl.cols ++ [(col, c)] }, rows := dt.rows.map (extendRow col c) }
  | .createIndex _ idx i => { dt with tbl := { dt.tbl with idx := insert idx i dt.tbl.idx } }
  | .dropIndex _ idx => { dt with tbl := { dt.tbl with idx := erase idx dt.tbl.idx } }

def effect (db : Tables) (a : Action) : Tables :=
  match a with
  | .createTable n t =>
    if contains n db then modify n (fun dt => tblEffect dt a) db
    else db ++ [(n, { tbl := t, rows := [], crr := true })]
  | _ => modify a.table (fun dt => tblEffect dt a) db

/-- `schema_to_merge`: a new table that already existed in the database is imported as it is there -/
def imported (db : Tables) : Action → List (Name × Table)
  | .createTable n _ => match lookup n db with
    | some dt => [(n, dt.tbl)]
    | none => []
  | _ => []

def execAll : Tables → List Action → Except Err (Tables × List (Name × Table))
  | db, [] => .ok (db, [])
  | db, a :: r =>
    match check db a with
    | some e => .error e
    | none =>
      match execAll (effect db a) r with
      | .error e => .error e
      | .ok (db', imp) => .ok (db', imported db a ++ imp)

/-- the end of `apply_schema`: the columns of a table that already existed are (stably) sorted into
the old columns in their old order followed by the new columns in submitted order — the order
`ALTER TABLE ADD COLUMN` gives the database. -/
def reorderCols (t nt : Table) : Table :=
  { nt with cols := ((keys t.cols).filterMap (fun k => (lookup k nt.cols).map (fun c => (k, c)))) ++ newCols t nt }

def reorderSchema (old new : Schema) : Schema :=
  new.map (fun e => match lookup e.1 old with
    | some t => (e.1, reorderCols t e.2)
    | none => e)

/-- `apply_schema(tx, schema, new_schema)`: the statements run in order inside the transaction; an
execution error ends it at once, a decision error after the statements before it. -/
def applySchema (db : Tables) (old new : Schema) : Except Err (Tables × Schema × List Action × List Name) :=
  let steps := planSteps old new
  match execAll db steps.1 with
  | .error e => .error e
  | .ok (db', imp) =>
    match steps.2 with
    | some e => .error e
    | none => .ok (db', reorderSchema old (merge new imp), steps.1, keys imp)

/-- the loop rewriting `__corro_schema` for every submitted table from `sqlite_schema` -/
def persistStep (tables : Tables) (p : Schema) (n : Name) : Schema :=
  match lookup n tables with
  | some dt => insert n dt.tbl p     -- DELETE … ; INSERT … SELECT … FROM sqlite_schema
  | none => erase n p

def rewritePersisted (tables : Tables) (names : List Name) (p : Schema) : Schema :=
  names.foldl (persistStep tables) p

/-! ### the node -/

structure State where
  db : Db
  /-- `agent.schema()` -/
  mem : Schema
deriving DecidableEq, Repr, Inhabited

def State.init : State := { db := { tables := [], persisted := [] }, mem := [] }

structure Applied where
  acts : List Action
  imported : List Name
deriving DecidableEq, Repr, Inhabited

abbrev Outcome := Except Err Applied

/-- `api_v1_db_schema` → `execute_schema`.  Every error path returns the old state: parse and
`constrain` errors happen before the transaction is opened; inside, the work is done on `tx` (here:
on a value computed from `st.db`) and dropped on error; `*schema_write = new_schema` comes after the
commit. -/
def submit (st : State) (stmts : List Stmt) : State × Outcome :=
  if stmts.isEmpty then (st, .error .empty) else
  match parse stmts with
  | .error e => (st, .error e)
  | .ok part =>
    let new := merge st.mem part
    match constrain new with
    | some e => (st, .error e)
    | none =>
      match applySchema st.db.tables st.mem new with
      | .error e => (st, .error e)                       -- transaction dropped: rollback
      | .ok (tables', new', acts, imp) =>
        let db' : Db := { tables := tables', persisted := rewritePersisted tables' (keys part) st.db.persisted }
        ({ db := db', mem := new' }, .ok { acts := acts, imported := imp })

/-- `init_schema`: the schema parsed back from `__corro_schema` -/
def initSchema (db : Db) : Schema := db.persisted

/-- a fresh `setup` on the same database file -/
def restart (st : State) : State := { st with mem := initSchema st.db }

/-- values of the `k`-th row of a table: every stored column gets `100 k + position` -/
def mkRow (k : Nat) (cols : AList Column) : Row :=
  (cols.zipIdx.filter (fun e => e.1.2.gen.isNone)).map (fun e => (e.1.1, toString (100 * k + e.2)))

def insertRowsAux (cols : AList Column) : Nat → List Row → List Row
  | 0, rows => rows
  | n + 1, rows => insertRowsAux cols n (rows ++ [mkRow (rows.length + 1) cols])

/-- plain `INSERT`s on the write connection -/
def insertRows (st : State) (t : Name) (n : Nat) : Option State :=
  match lookup t st.db.tables with
  | none => none
  | some _ =>
    let tables' := modify t (fun dt => { dt with rows := insertRowsAux dt.tbl.cols n dt.rows }) st.db.tables
    some { db := { tables := tables', persisted := st.db.persisted }, mem := st.mem }

/-- operations of the property's quantifier -/
inductive Op
  | submit (stmts : List Stmt)
  | rows (t : Name) (n : Nat)
  | restart
deriving DecidableEq, Repr, Inhabited

def step (st : State) : Op → State
  | .submit s => (submit st s).1
  | .rows t n => (insertRows st t n).getD st
  | .restart => restart st

def run (st : State) (ops : List Op) : State := ops.foldl step st

/-! ### outside the API (driver only): tables made by plain SQL on the database -/

def externStep (db : Tables) : Stmt → Option Tables
  | .table n cols tpk ex =>
    if contains n db || nameTaken db n || ex then none
    else some (db ++ [(n, { tbl := prepareTable cols tpk ex, rows := [], crr := false })])
  | .index n tbl i =>
    match lookup tbl db with
    | none => none
    | some dt =>
      if nameTaken db n || !indexColsOk dt.tbl i then none
      else some (modify tbl (fun dt => { dt with tbl := { dt.tbl with idx := insert n i dt.tbl.idx } }) db)
  | _ => none

def externAll : Tables → List Stmt → Option Tables
  | db, [] => some db
  | db, s :: r => match externStep db s with
    | some db' => externAll db' r
    | none => none

end Corro.Schema
