/-
Model of `corrosion backup` / `corrosion restore` (crates/klukai/src/main.rs, `Command::Backup` and
`Command::Restore`) at the level of the SQL statements they run against a cr-sqlite database file.
Import-free.

What a database file is, as far as these two commands can tell:

* `crsql_site_id (site_id BLOB NOT NULL, ordinal INTEGER PRIMARY KEY)` + unique index on `site_id`:
  the site table `ordinal ↦ site id`; ordinal 0 is "this node".
* every `<table>__crsql_clock` row `(key, col_name, col_version, db_version, site_id /*ordinal*/, seq)`:
  one clock row per live cell, its author given as an ORDINAL into the site table.
* the replicated tables themselves and `crsql_db_versions` (keyed by the site id blob): never
  touched by either command, carried along as opaque payload.
* node-local tables: `__corro_members`, `__corro_subs` (legacy, may not exist),
  `__corro_consul_services` / `__corro_consul_checks` (exist only where `consul sync` ran) as row
  counts (`none` = the table does not exist).
* the journal mode flag of the file header.

`crsql_changes` (what a node gossips and what `dump_db` prints) is the clock rows with the author
ordinal RESOLVED through the site table (`LEFT JOIN crsql_site_id`): `Db.changes`.
-/
namespace Corro.Backup

/-- a site (actor) id; the 16-byte blob is abstracted to a number -/
abbrev Site := Nat

structure ClockRow where
  tbl  : String
  key  : String
  col  : String
  colv : Nat
  dbv  : Nat
  seq  : Nat
  /-- author ORDINAL (`<table>__crsql_clock.site_id`) -/
  ord  : Nat
deriving Repr, DecidableEq, Inhabited

structure Db where
  /-- `crsql_site_id` rows `(ordinal, site_id)` in rowid order -/
  sites : List (Nat × Site) := []
  clock : List ClockRow := []
  /-- rows of the replicated tables, opaque: `(table, pk, payload)` -/
  data : List (String × String × String) := []
  /-- `crsql_db_versions (site_id, db_version)`, keyed by the blob: opaque -/
  dbVersions : List (Site × Nat) := []
  members : Nat := 0
  subs : Option Nat := none
  consulServices : Option Nat := none
  consulChecks : Option Nat := none
  wal : Bool := true
deriving Repr, DecidableEq, Inhabited

/-- `SELECT site_id FROM crsql_site_id WHERE ordinal = o` -/
def siteOf (sites : List (Nat × Site)) (o : Nat) : Option Site :=
  (sites.find? (fun p => p.1 == o)).map (·.2)

/-- `SELECT ordinal FROM crsql_site_id WHERE site_id = s` -/
def ordOf (sites : List (Nat × Site)) (s : Site) : Option Nat :=
  (sites.find? (fun p => p.2 == s)).map (·.1)

def Db.siteOf (db : Db) (o : Nat) : Option Site := Corro.Backup.siteOf db.sites o
def Db.ordOf (db : Db) (s : Site) : Option Nat := Corro.Backup.ordOf db.sites s

/-- one entry of `crsql_changes` as far as the clock tables determine it: the author is a SITE ID
(`none` = the ordinal is not in the site table, `crsql_changes` shows NULL) -/
structure Change where
  tbl  : String
  key  : String
  col  : String
  colv : Nat
  dbv  : Nat
  seq  : Nat
  site : Option Site
deriving Repr, DecidableEq, Inhabited

def resolve (sites : List (Nat × Site)) (r : ClockRow) : Change :=
  ⟨r.tbl, r.key, r.col, r.colv, r.dbv, r.seq, siteOf sites r.ord⟩

def Db.changes (db : Db) : List Change := db.clock.map (resolve db.sites)

/-- `UPDATE "<t>__crsql_clock" SET site_id = to WHERE site_id = frm` over every clock table -/
def rewriteOrd (frm to : Nat) (clock : List ClockRow) : List ClockRow :=
  clock.map fun r => if r.ord = frm then { r with ord := to } else r

def maxOrd : List (Nat × Site) → Nat
  | [] => 0
  | p :: ps => max p.1 (maxOrd ps)

/-- the rowid SQLite picks for `INSERT INTO crsql_site_id (site_id) VALUES (?)` (INTEGER PRIMARY
KEY without AUTOINCREMENT): 1 for an empty table, otherwise largest ordinal + 1 -/
def nextOrd (sites : List (Nat × Site)) : Nat :=
  if sites.isEmpty then 1 else maxOrd sites + 1

/-- `execute_batch("DROP TABLE __corro_consul_services; DROP TABLE __corro_consul_checks;")`:
the batch stops at the first error (which the command only warns about), so when the services
table does not exist the checks table is not dropped either. -/
def dropConsul (svc chk : Option Nat) : Option Nat × Option Nat :=
  match svc with
  | none => (none, chk)
  | some _ => (none, none)

/-- `corrosion backup <path>` applied to the `VACUUM INTO` copy (the copy itself is trusted to be
faithful).  `none` = the command fails (no ordinal-0 row: `query_row` on the `DELETE … RETURNING`
finds no row); the raw copy is then left behind at `<path>`. -/
def backup (db : Db) : Option Db :=
  match db.siteOf 0 with
  | none => none
  | some self =>
    -- DELETE FROM crsql_site_id WHERE ordinal = 0 RETURNING site_id
    let rest := db.sites.filter (fun p => p.1 != 0)
    -- INSERT INTO crsql_site_id (site_id) VALUES (?) RETURNING ordinal
    let n := nextOrd rest
    let consul := dropConsul db.consulServices db.consulChecks
    some { db with
      sites := rest ++ [(n, self)]
      -- UPDATE "<t>__crsql_clock" SET site_id = n WHERE site_id = 0
      clock := rewriteOrd 0 n db.clock
      -- DELETE FROM __corro_members; DELETE FROM __corro_subs (if it exists)
      members := 0
      subs := db.subs.map (fun _ => 0)
      consulServices := consul.1
      consulChecks := consul.2
      -- PRAGMA journal_mode = WAL; PRAGMA wal_checkpoint(TRUNCATE)
      wal := true }

/-- the in-place edit `restore --self-actor-id` / `--actor-id` makes to the SNAPSHOT file before it
is copied over the destination, for actor `a`:
```
DELETE FROM crsql_site_id WHERE site_id = a RETURNING ordinal        -- → k?
INSERT OR REPLACE INTO crsql_site_id (ordinal, site_id) VALUES (0, a)
if k = Some(k), k ≠ 0:  UPDATE "<t>__crsql_clock" SET site_id = 0 WHERE site_id = k
``` -/
def adopt (snap : Db) (a : Site) : Db :=
  let k := snap.ordOf a
  let rest := (snap.sites.filter (fun p => p.2 != a)).filter (fun p => p.1 != 0)
  let clock := match k with
    | none => snap.clock
    | some 0 => snap.clock
    | some k => rewriteOrd k 0 snap.clock
  { snap with sites := rest ++ [(0, a)], clock := clock }

/-- which actor id the restored database is to carry at ordinal 0 -/
inductive Keep where
  /-- neither flag: the snapshot is copied as it is -/
  | no
  /-- `--self-actor-id`: read ordinal 0 of the destination database -/
  | self
  /-- `--actor-id <uuid>` -/
  | actor (a : Site)
deriving Repr, DecidableEq, Inhabited

/-- the destination database file before the restore -/
inductive Dst where
  | absent
  /-- a zero-length file -/
  | empty
  | db (d : Db)
deriving Repr, DecidableEq, Inhabited

/-- a node as far as `restore` is concerned: its database file and the number of entries in its
subscriptions directory -/
structure Node where
  file : Dst := .absent
  subsDir : Nat := 0
deriving Repr, DecidableEq, Inhabited

inductive RestoreErr where
  /-- `--self-actor-id` but the destination has no readable ordinal-0 row (file absent, empty, or a
  database whose `crsql_site_id` has no row 0) -/
  | noSelf
deriving Repr, DecidableEq, Inhabited

structure Restored where
  /-- the destination node afterwards -/
  node : Node
  /-- the snapshot file afterwards (it is edited in place when an actor id is kept) -/
  snapshot : Db
deriving Repr, DecidableEq, Inhabited

/-- `corrosion restore <snapshot> [--self-actor-id | --actor-id a]` with nobody holding a
conflicting lock on the destination (lock time-outs are the business of `Corro.Locks`).
On `noSelf` the only side effect is that an absent destination file now exists and is empty
(`Connection::open` created it); the second component says what the node looks like then. -/
def restore (n : Node) (snap : Db) : Keep → Except (RestoreErr × Node) Restored
  | .no => .ok ⟨{ file := .db snap, subsDir := 0 }, snap⟩
  | .actor a =>
    let s := adopt snap a
    .ok ⟨{ file := .db s, subsDir := 0 }, s⟩
  | .self =>
    match n.file with
    | .absent => .error (.noSelf, { n with file := .empty })
    | .empty => .error (.noSelf, n)
    | .db d =>
      match d.siteOf 0 with
      | none => .error (.noSelf, n)
      | some a =>
        let s := adopt snap a
        .ok ⟨{ file := .db s, subsDir := 0 }, s⟩

end Corro.Backup
