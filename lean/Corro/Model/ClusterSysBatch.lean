/-
Cluster model with BATCHED delivery (lifts restriction R1 of `Props/C01Cluster.lean`).

Same state as `ClusterSys` (nodes, global log, ghost received-lists); the delivery steps hand SEVERAL
changesets of SEVERAL actors to ONE call of `process_multiple_changes` (`Node.deliver batch`, any
batch): de-duplication of the batch, the per-actor transactions with their `seen` maps, clear jobs
and applies after the whole batch — all as `Node.deliver` models them.

* `OpB.deliverOrigins i chunks`: node `i` receives in one batch the original chunks
  `(site, ver, lo, hi)` listed (several chunks of several transactions of several sites, any order,
  repeats allowed);
* `OpB.syncB i j batches`: a sync session of client `i` with server `j`; the server's answers are
  computed once (as in `ClusterSys.answers`); the client's agent then runs one
  `process_multiple_changes` per element of `batches`, each batch being any list of picks — an answer
  of the session by index (`Pick.ans k`; any sub-list, any order, repeats, across batches too) or an
  original chunk arriving by broadcast at the same time (`Pick.orig site ver lo hi`).

The ghost list of a batch (`mergedByBatch`) is what the batch merges into the store, in merge order:
complete changesets inside the transactions (per actor, in batch order), then the buffered rows of
the versions applied after the batch.

Executable, import-free apart from the other model files.
-/
import Corro.Model.ClusterSys

namespace Corro.ClusterSys
open Corro.Crdt Corro.Node

/-! ### what a batch merges (ghost bookkeeping) -/

/-- what one changeset merges into the store inside the transaction: a complete changeset that is
neither known nor seen earlier in the batch is applied right away -/
def stepMerged (booked0 : Booked) (st : TxSt) (it : Item) : List Chg :=
  if booked0.containsAll it.versions.1 it.versions.2 it.seqs then []
  else if alreadySeen st.seen it then []
  else
    match it with
    | .full _ _ lo hi last cs => if lo == 0 && hi == last then cs else []
    | .empty .. => []

/-- one changeset inside one actor's transaction, with the ghost list -/
def txStepG (booked0 : Booked) (acc : TxSt × List Chg) (it : Item) : TxSt × List Chg :=
  (processOne booked0 acc.1 it, acc.2 ++ stepMerged booked0 acc.1 it)

/-- one actor's transaction, with the ghost list -/
def txFoldG (n : Node) (site : Nat) (items : List Item) : TxSt × List Chg :=
  items.foldl (txStepG (n.booked site)) ({ node := n, seen := [], processed := [], clears := [] }, [])

/-- what one actor's transaction merges -/
def txMerged (n : Node) (site : Nat) (items : List Item) : List Chg := (txFoldG n site items).2

/-- the changesets of the de-duplicated batch that are not known yet -/
def unknownB (n : Node) (batch : List Item) : List Item :=
  (dedupeBatch batch).filter (fun it =>
    !((n.booked it.site).containsAll it.versions.1 it.versions.2 it.seqs))

/-- one actor of the batch: `processActor`, scheduled applies and clears accumulated, ghost list -/
def actorStepG (unknown : List Item)
    (acc : (Node × List (Nat × Nat) × List (Nat × Nat × Nat)) × List Chg) (s : Nat) :
    (Node × List (Nat × Nat) × List (Nat × Nat × Nat)) × List Chg :=
  let r := processActor acc.1.1 s (unknown.filter (·.site = s))
  ((r.1, acc.1.2.1 ++ r.2.1, acc.1.2.2 ++ r.2.2), acc.2 ++ txMerged acc.1.1 s (unknown.filter (·.site = s)))

/-- what `applyBuffered` merges -/
def appliedBy (n : Node) (a v : Nat) : List Chg :=
  match (n.booked a).partial? v with
  | none => []
  | some p => if p.complete then sortBySeq (n.buf.filter (fun c => c.site = a ∧ c.dbv = v)) else []

/-- one scheduled apply, with the ghost list -/
def applyStepG (s : Node × List Chg) (t : Nat × Nat) : Node × List Chg :=
  (s.1.applyBuffered t.1 t.2, s.2 ++ appliedBy s.1 t.1 t.2)

/-- what `n.deliver batch` merges into the store, in merge order (`mergedByBatch_spec` in
`Lemmas/ClusterBatchDb.lean`: `(n.deliver batch).db = mergeAll n.db (mergedByBatch n batch)`) -/
def mergedByBatch (n : Node) (batch : List Item) : List Chg :=
  let r := (sitesOf (unknownB n batch)).foldl (actorStepG (unknownB n batch)) ((n, [], []), [])
  let n2 := r.1.2.2.foldl (fun n c => n.clearMeta c.1 c.2.1 c.2.2) r.1.1
  if n2.alive then (r.1.2.1.foldl applyStepG (n2, r.2)).2 else r.2

/-- one batch through `process_multiple_changes`, with the ghost list -/
def deliverB (s : Node × List Chg) (batch : List Item) : Node × List Chg :=
  (s.1.deliver batch, mergedByBatch s.1 batch ++ s.2)

/-! ### the steps -/

/-- one element of a batch of a sync session -/
inductive Pick where
  /-- the `k`-th answer of the server -/
  | ans (k : Nat)
  /-- the chunk `[lo, hi]` of the original change list of `(site, ver)`, arriving by broadcast -/
  | orig (site ver lo hi : Nat)
deriving Repr, Inhabited, DecidableEq

inductive OpB where
  /-- a local transaction on node `i` -/
  | write (i : Nat) (stmts : List Stmt)
  /-- node `i` receives the listed original chunks `(site, ver, lo, hi)` in ONE batch -/
  | deliverOrigins (i : Nat) (chunks : List (Nat × Nat × Nat × Nat))
  /-- a sync session of client `i` with server `j`, the client processing `batches` one by one -/
  | syncB (i j : Nat) (batches : List (List Pick))
  | kill (i : Nat)
  | restart (i : Nat)
deriving Repr, Inhabited

/-- a chunk request is valid: the transaction is in the log and the range lies in `0..=last_seq` -/
def originValid (L : Log) (site ver lo hi : Nat) : Bool :=
  L.has site ver && decide (lo ≤ hi) && decide (hi ≤ maxSeq (L.get site ver))

/-- the valid original chunks among the listed ones, as changesets -/
def originBatch (L : Log) (chunks : List (Nat × Nat × Nat × Nat)) : List Item :=
  chunks.filterMap (fun q =>
    if originValid L q.1 q.2.1 q.2.2.1 q.2.2.2 then some (originItem L q.1 q.2.1 q.2.2.1 q.2.2.2) else none)

/-- one batch of a session: answers by index, valid original chunks -/
def pickBatch (L : Log) (ans : List Item) (ps : List Pick) : List Item :=
  ps.filterMap (fun p =>
    match p with
    | .ans k => ans[k]?
    | .orig site ver lo hi =>
      if originValid L site ver lo hi then some (originItem L site ver lo hi) else none)

def stepB (c : Cluster) : OpB → Cluster
  | .write i stmts => step c (.write i stmts)
  | .deliverOrigins i chunks =>
    match c.nodes[i]? with
    | none => c
    | some n => c.setNode i (deliverB (n, c.R i) (originBatch c.log chunks))
  | .syncB i j batches =>
    match c.nodes[i]?, c.nodes[j]? with
    | some ni, some nj =>
      if i = j then c
      else c.setNode i ((batches.map (pickBatch c.log (answers ni nj))).foldl deliverB (ni, c.R i))
    | _, _ => c
  | .kill i => step c (.kill i)
  | .restart i => step c (.restart i)

def runB (c : Cluster) (ops : List OpB) : Cluster := ops.foldl stepB c

end Corro.ClusterSys
