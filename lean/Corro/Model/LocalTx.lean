/-
Model of one node's local write path: `api_v1_transactions` → `make_broadcastable_changes`
(crates/klukai-agent/src/api/public/mod.rs) → `insert_local_changes` (klukai-types/src/change.rs) →
`broadcast_changes` (klukai-types/src/broadcast.rs).  Import-free apart from other model files.

A request is a list of statements.  A statement is either one of the write mini-language whose
outcome the cell-store model (`Corro.Crdt`) predicts (ok / constraint violation / no effect), or an
*injected* failing statement (bad SQL, wrong parameter count, unknown table, interrupted by the
request's timeout): why SQLite fails it is not modelled, only that the statement in that position
fails.  Statements run in order inside ONE immediate transaction, so the first failing statement
decides the error and everything in front of it is rolled back.

Decision order of the real code, followed here:
  * empty statement list → 400, nothing touched;
  * `f(&tx)?` — the statements, first error returns (the transaction is dropped = rolled back);
  * `insert_local_changes`: `crsql_peek_next_db_version()`, `MAX(seq)` of the live entries of
    `crsql_changes` for (own site, that version); none → `Ok(None)`: committed, no version, nothing
    announced; otherwise `snap.insert_db([v..=v])`;
  * commit, `commit_snapshot`, spawn `broadcast_changes(v, last_seq)`: live entries of (own site, v)
    by seq, cut by `ChunkedChanges::new(rows, 0, last_seq, MAX_CHANGES_BYTE_SIZE)`, each chunk sent as
    `Changeset::Full { version, changes, seqs, last_seq, ts }`.
The byte size of a change (`Change::estimated_byte_size`) and the size limit are parameters (`Cfg`).
-/
import Corro.Model.Crdt
import Corro.Model.Node
import Corro.Model.Chunker

namespace Corro.LocalTx
open Corro.Crdt Corro.Node

/-- why an injected statement fails (checked against the real response's error text) -/
inductive Inject where
  | syntax     -- `bad`: SQL that does not parse (fails in `prepare`)
  | params     -- `badparam`: placeholders without the right number of parameters
  | noTable    -- `missing`: statement on a table that does not exist
  | timeout    -- `slow`: statement interrupted by the request's `?timeout=`
deriving Repr, DecidableEq, Inhabited

inductive RStmt where
  | sql (s : Stmt)
  | fail (k : Inject)
deriving Repr, Inhabited

abbrev Request := List RStmt

/-- the statements in front of the first injected failure, and that failure (if any) -/
def split : Request → List Stmt × Option Inject
  | [] => ([], none)
  | .fail k :: _ => ([], some k)
  | .sql s :: r => ((split r).1.cons s, (split r).2)

inductive ErrKind where
  | empty                  -- 400 "at least 1 statement is required"
  | constraint             -- a statement the cell store rejects (INSERT of an existing row)
  | badOp                  -- statement outside the mini-language's schema (the drivers never send one)
  | injected (k : Inject)
deriving Repr, DecidableEq, Inhabited

/-- one `Changeset::Full` handed to `tx_bcast` -/
structure Msg where
  ver : Nat
  lo : Nat
  hi : Nat
  last : Nat
  changes : List Chg
deriving Repr, DecidableEq, Inhabited

inductive Response where
  | ack (ver : Nat) (chs : List Chg) (msgs : List Msg)   -- 200 with `version`
  | noop                                                  -- 200 without `version`
  | err (e : ErrKind)                                     -- 4xx / 5xx, no version
deriving Repr, DecidableEq, Inhabited

structure Cfg where
  size : Chg → Nat          -- `Change::estimated_byte_size`
  lim : Nat → Nat           -- `max_buf_size` during the k-th call of `ChunkedChanges::next`

def toCk (cfg : Cfg) (c : Chg) : Chunker.Chg := ⟨c.seq, cfg.size c⟩

/-- `broadcast_changes(agent, ver, last_seq, ts)` where `chs` are the live entries of
(own site, `ver`) by seq and `last_seq = MAX(seq)` as `insert_local_changes` computed it.  The
chunker only sees `(seq, size)`; a chunk's changes are looked up again by seq. -/
def announce (cfg : Cfg) (ver : Nat) (chs : List Chg) : List Msg :=
  (Chunker.chunks 0 (maxSeq chs) cfg.lim (chs.map (toCk cfg))).map fun ck =>
    { ver := ver, lo := ck.lo, hi := ck.hi, last := maxSeq chs,
      changes := ck.changes.filterMap (fun k => chs.find? (fun c => c.seq = k.seq)) }

structure LNode where
  node : Node
  outbox : List (Nat × List Msg) := []     -- announced versions with their messages, oldest first
deriving Inhabited

def LNode.fresh (i : Nat) : LNode := { node := Node.fresh i }

def ofWErr : WErr → ErrKind
  | .constraint => .constraint
  | .badOp => .badOp

/-- one request through `api_v1_transactions` -/
def submit (cfg : Cfg) (n : LNode) (req : Request) : LNode × Response :=
  if req.isEmpty then (n, .err .empty) else
  match (split req).2 with
  | some k =>
    -- the statements in front of the injected failure run first; one of them may fail earlier
    match applyStmts n.node.db (n.node.db.dbv + 1) 0 (split req).1 with
    | .error e => (n, .err (ofWErr e))
    | .ok _ => (n, .err (.injected k))
  | none =>
    match n.node.localWrite (split req).1 with
    | .error e => (n, .err (ofWErr e))
    | .ok (_, none) => (n, .noop)
    | .ok (nd, some (ver, chs)) =>
      let msgs := announce cfg ver chs
      ({ node := nd, outbox := n.outbox ++ [(ver, msgs)] }, .ack ver chs msgs)

/-- a sequence of requests, one after the other (the write path is serialised by the write
permit and the own `booked` write lock) -/
def run (cfg : Cfg) : LNode → List Request → LNode × List Response
  | n, [] => (n, [])
  | n, r :: rs =>
    ((run cfg (submit cfg n r).1 rs).1, (submit cfg n r).2 :: (run cfg (submit cfg n r).1 rs).2)

/-- a complete version of ANOTHER actor arrives (`process_multiple_changes`, complete changeset of an
unknown version): its changes are merged through `crsql_changes` and the origin's db-version row is
recorded.  Version numbers are per actor: this neither moves the node's own version counter
(`db.dbv` = `crsql_db_version()`), nor its own bookkeeping, nor its outbox.  (The remote actor's
bookkeeping is C01/C03's business and not observed here.) -/
def LNode.remote (n : LNode) (chs : List Chg) : LNode := { n with node := n.node.mergeChanges chs }

/-- a history: local requests and remote versions in any interleaving -/
inductive Event where
  | req (r : Request)
  | remote (chs : List Chg)
deriving Inhabited

def runE (cfg : Cfg) : LNode → List Event → LNode × List Response
  | n, [] => (n, [])
  | n, .req r :: es =>
    ((runE cfg (submit cfg n r).1 es).1, (submit cfg n r).2 :: (runE cfg (submit cfg n r).1 es).2)
  | n, .remote chs :: es => runE cfg (n.remote chs) es

def Response.version? : Response → Option Nat
  | .ack v _ _ => some v
  | _ => none

/-- the versions acknowledged by a list of responses, in order -/
def ackedVersions (rs : List Response) : List Nat := rs.filterMap Response.version?

/-- the node's own bookkeeping -/
def LNode.own (n : LNode) : Booked := n.node.booked n.node.id

end Corro.LocalTx
