/-
Model of the subscription matcher (crates/klukai-types/src/pubsub.rs: `Matcher::new` query rewrite,
`MatcherHandle::filter_matchable_change`, `Matcher::run` initial query, `Matcher::handle_candidates`)
and of the change lists that feed it (`match_changes`, updates.rs).  Import-free.

Database = tables (numbered) of rows; a row is the list of its column values, key columns first.
A query is a left-deep chain of INNER / LEFT joins over 1..n distinct tables with ON predicates, a
WHERE predicate and a projection of simple expressions.  The materialised result (`query` table of
the subscription database) is keyed by the primary keys of all source rows; the key columns of a
null-extended side are NULL and the unique index / temp-table lookups go through `coalesce(pk, "")`,
exactly as in the code.
-/
namespace Corro.Ivm

/-- SQLite values (REAL is excluded from the generated data). -/
inductive Val where
  | null
  | int (i : Int)
  | text (b : List Nat)
  | blob (b : List Nat)
deriving Repr, DecidableEq, Inhabited

abbrev Row := List Val
abbrev Key := List Val
/-- table number → rows -/
abbrev Db := Nat → List Row

def keyOf (nk : Nat) (r : Row) : Key := r.take nk

/-- one position of the FROM clause: table number and its number of key columns -/
structure Src where
  tbl : Nat
  nk : Nat
deriving Repr, DecidableEq, Inhabited

/-- a joined row under construction: one entry per FROM position, `none` = null-extended -/
abbrev Env := List (Option Row)

def envCol (e : Env) (p c : Nat) : Val :=
  match e.getD p none with
  | some r => r.getD c .null
  | none => .null

inductive Expr where
  | col (p c : Nat)
  | const (v : Val)
  | cat (a b : Expr)
  | add (a b : Expr)
deriving Repr, DecidableEq, Inhabited

/-- decimal digits of a natural number (ASCII codes), `fuel` ≥ number of digits -/
def natDigits : Nat → Nat → List Nat
  | 0, _ => []
  | f + 1, n => if n < 10 then [48 + n] else natDigits f (n / 10) ++ [48 + n % 10]

def intBytes (i : Int) : List Nat :=
  match i with
  | .ofNat n => natDigits 20 n
  | .negSucc n => 45 :: natDigits 20 (n + 1)

/-- `a || b` -/
def catVal : Val → Val → Val
  | .null, _ => .null
  | _, .null => .null
  | a, b =>
    let bytes : Val → List Nat := fun v => match v with
      | .int i => intBytes i | .text x => x | .blob x => x | .null => []
    .text (bytes a ++ bytes b)

/-- `a + b` on integers (other operand types are outside the modelled class: NULL) -/
def addVal : Val → Val → Val
  | .int a, .int b => .int (a + b)
  | _, _ => .null

def Expr.eval (e : Env) : Expr → Val
  | .col p c => envCol e p c
  | .const v => v
  | .cat a b => catVal (a.eval e) (b.eval e)
  | .add a b => addVal (a.eval e) (b.eval e)

def bytesLt : List Nat → List Nat → Bool
  | [], [] => false
  | [], _ :: _ => true
  | _ :: _, [] => false
  | a :: as, b :: bs => if a < b then true else if b < a then false else bytesLt as bs

/-- storage-class order of SQLite comparisons: INTEGER < TEXT < BLOB (NULL never gets here) -/
def Val.rank : Val → Nat
  | .null => 0 | .int _ => 1 | .text _ => 2 | .blob _ => 3

def Val.lt (a b : Val) : Bool :=
  if a.rank ≠ b.rank then a.rank < b.rank else
  match a, b with
  | .int x, .int y => x < y
  | .text x, .text y => bytesLt x y
  | .blob x, .blob y => bytesLt x y
  | _, _ => false

inductive CmpOp where | eq | ne | lt | le | gt | ge
deriving Repr, DecidableEq, Inhabited

/-- three-valued comparison: `none` = NULL -/
def cmpVal (op : CmpOp) (a b : Val) : Option Bool :=
  if a = .null ∨ b = .null then none else
  some (match op with
    | .eq => a = b
    | .ne => a ≠ b
    | .lt => a.lt b
    | .le => !(b.lt a)
    | .gt => b.lt a
    | .ge => !(a.lt b))

def and3 : Option Bool → Option Bool → Option Bool
  | some false, _ => some false
  | _, some false => some false
  | some true, some true => some true
  | _, _ => none

def or3 : Option Bool → Option Bool → Option Bool
  | some true, _ => some true
  | _, some true => some true
  | some false, some false => some false
  | _, _ => none

/-- `coalesce(v, "")` -/
def coal (v : Val) : Val := if v = .null then .text [] else v
def coalKey (k : Key) : Key := k.map coal

inductive Pred where
  | tt
  | cmp (op : CmpOp) (a b : Expr)
  | isNull (e : Expr)
  | notNull (e : Expr)
  | and (p q : Pred)
  | or (p q : Pred)
  /-- `(pk columns of position p) IN temp_<table>`; the temp table holds `coalesce(candidate, "")` -/
  | keyIn (p nk : Nat) (ks : List Key)
deriving Repr, Inhabited

def Pred.truth (e : Env) : Pred → Option Bool
  | .tt => some true
  | .cmp op a b => cmpVal op (a.eval e) (b.eval e)
  | .isNull x => some (x.eval e = .null)
  | .notNull x => some (x.eval e ≠ .null)
  | .and p q => and3 (p.truth e) (q.truth e)
  | .or p q => or3 (p.truth e) (q.truth e)
  | .keyIn p nk ks =>
    match e.getD p none with
    | some r => some (decide (keyOf nk r ∈ ks.map coalKey))
    | none => some false

def Pred.holds (p : Pred) (e : Env) : Bool := p.truth e == some true

inductive JoinKind where | inner | left
deriving Repr, DecidableEq, Inhabited

structure Join where
  kind : JoinKind
  src : Src
  on : Pred
deriving Repr, Inhabited

structure Query where
  base : Src
  joins : List Join
  where_ : Pred
  proj : List Expr
deriving Repr, Inhabited

def Query.srcs (q : Query) : List Src := q.base :: q.joins.map (·.src)

/-- nested-loop join of the accumulated rows with one more table -/
def joinStep (db : Db) (j : Join) (envs : List Env) : List Env :=
  envs.flatMap fun e =>
    let ms := (db j.src.tbl).filter (fun r => j.on.holds (e ++ [some r]))
    match j.kind with
    | .inner => ms.map (fun r => e ++ [some r])
    | .left => if ms.isEmpty then [e ++ [none]] else ms.map (fun r => e ++ [some r])

def joinAll (db : Db) : List Join → List Env → List Env
  | [], envs => envs
  | j :: js, envs => joinAll db js (joinStep db j envs)

def Query.envs (q : Query) (db : Db) : List Env :=
  joinAll db q.joins ((db q.base.tbl).map fun r => [some r])

/-- key columns of every source row, NULLs for a null-extended side -/
def envPks : List Src → Env → List Key
  | [], _ => []
  | s :: ss, [] => List.replicate s.nk .null :: envPks ss []
  | s :: ss, o :: os =>
    (match o with | some r => keyOf s.nk r | none => List.replicate s.nk .null) :: envPks ss os

/-- one row of a keyed result: the (raw) source keys and the projected cells -/
structure Out where
  pks : List Key
  cells : List Val
deriving Repr, DecidableEq, Inhabited

def Query.out (q : Query) (e : Env) : Out := ⟨envPks q.srcs e, q.proj.map (Expr.eval e)⟩

/-- the query with the source keys in front (what the rewritten statement of the code returns) -/
def evalKeyed (q : Query) (db : Db) : List Out :=
  ((q.envs db).filter q.where_.holds).map q.out

/-- the user's query -/
def eval (q : Query) (db : Db) : List (List Val) := (evalKeyed q db).map (·.cells)

/-! ### the materialised table, events -/

inductive Kind where | insert | update | delete
deriving Repr, DecidableEq, Inhabited

structure Event where
  kind : Kind
  rowid : Nat
  cells : List Val
  id : Nat
deriving Repr, DecidableEq, Inhabited

structure MRow where
  rowid : Nat
  pks : List Key
  cells : List Val
deriving Repr, DecidableEq, Inhabited

/-- `coalesce(pk, "")` over all key columns: the unique index of the `query` table -/
def ckey (pks : List Key) : List Key := pks.map coalKey

structure State where
  rows : List MRow := []
  /-- next AUTOINCREMENT rowid of `query` -/
  nextRowid : Nat := 1
  /-- `Matcher::last_rowid` -/
  lastRowid : Nat := 0
  /-- next AUTOINCREMENT id of `changes` -/
  nextId : Nat := 1
  /-- every `QueryEvent::Change` sent so far, oldest first -/
  events : List Event := []
deriving Repr, Inhabited

def MRow.out (m : MRow) : Out := ⟨m.pks, m.cells⟩

def insertInitial (st : State) (o : Out) : State :=
  { st with rows := st.rows ++ [⟨st.nextRowid, o.pks, o.cells⟩], nextRowid := st.nextRowid + 1,
            lastRowid := st.nextRowid }

/-- `Matcher::run`: the initial query fills `query`; `last_rowid` = largest rowid -/
def initial (q : Query) (db : Db) : State := (evalKeyed q db).foldl insertInitial {}

/-- turn the join at list index `i` into an INNER join -/
def innerAt : Nat → List Join → List Join
  | _, [] => []
  | 0, j :: js => { j with kind := .inner } :: js
  | i + 1, j :: js => j :: innerAt i js

/-- the rewritten statement for the table at FROM position `i`, restricted to the candidate keys -/
def stmtFor (q : Query) (i : Nat) (ks : List Key) : Query :=
  { q with
    joins := (match i with | 0 => q.joins | i' + 1 => innerAt i' q.joins)
    where_ := .and (.keyIn i ((q.srcs.getD i default).nk) ks) q.where_ }

/-- `WHERE (coalesce(pk_i..)) IN temp_<table>` on the `query` table -/
def inSlice (i : Nat) (ks : List Key) (m : MRow) : Bool :=
  decide (coalKey (m.pks.getD i []) ∈ ks.map coalKey)

def emit (st : State) (k : Kind) (rowid : Nat) (cells : List Val) : State :=
  { st with events := st.events ++ [⟨k, rowid, cells, st.nextId⟩], nextId := st.nextId + 1 }

/-- one row of `INSERT INTO query … ON CONFLICT(coalesced pks) DO UPDATE SET cells WHERE cells differ RETURNING` -/
def upsertOne (st : State) (o : Out) : State :=
  match st.rows.find? (fun m => ckey m.pks = ckey o.pks) with
  | some m =>
    if m.cells = o.cells then st
    else
      let st' := { st with rows := st.rows.map (fun x => if ckey x.pks = ckey o.pks then { x with cells := o.cells } else x) }
      emit st' (if m.rowid > st.lastRowid then .insert else .update) m.rowid o.cells
  | none =>
    let st' := { st with rows := st.rows ++ [⟨st.nextRowid, o.pks, o.cells⟩], nextRowid := st.nextRowid + 1 }
    emit st' (if st.nextRowid > st.lastRowid then .insert else .update) st.nextRowid o.cells

def deleteOne (st : State) (m : MRow) : State :=
  emit { st with rows := st.rows.filter (fun x => x.rowid ≠ m.rowid) } .delete m.rowid m.cells

/-- the per-table part of `handle_candidates`: temp table := keys, run the rewritten statement,
`INSERT … SELECT * FROM (state_results EXCEPT old rows)`, then
`DELETE … WHERE key IN (old rows EXCEPT state_results)`. -/
def pass (q : Query) (db : Db) (st : State) (i : Nat) (ks : List Key) : State :=
  let res := evalKeyed (stmtFor q i ks) db
  let old := st.rows.filter (inSlice i ks)
  let fresh := res.filter (fun o => !(old.any (fun m => m.out = o)))
  let st1 := fresh.foldl upsertOne st
  let old1 := st1.rows.filter (inSlice i ks)
  let gone := old1.filter (fun m => !(res.any (fun o => m.out = o)))
  let goneKeys := gone.map (fun m => ckey m.pks)
  (st1.rows.filter (fun m => decide (ckey m.pks ∈ goneKeys))).foldl deleteOne st1

def posOf (t : Nat) : List Src → Option Nat
  | [] => none
  | s :: ss => if s.tbl = t then some 0 else (posOf t ss).map (· + 1)

/-- `handle_candidates`: the tables in the order of the candidate map; `last_rowid` advances at the end -/
def step (q : Query) (db : Db) (st : State) (cands : List (Nat × List Key)) : State :=
  let st' := cands.foldl (fun s c =>
    match posOf c.1 q.srcs with
    | some i => pass q db s i c.2
    | none => s) st
  let newEvents := st'.events.drop st.events.length
  { st' with lastRowid := newEvents.foldl (fun m e => max m e.rowid) st.lastRowid }

/-! ### what the client does with the stream -/

/-- the client's copy: rowid ↦ cells (a map: an insert for a rowid it already holds replaces it) -/
abbrev View := List (Nat × List Val)

def applyEvent (v : View) (e : Event) : View :=
  match e.kind with
  | .insert => v.filter (fun x => x.1 ≠ e.rowid) ++ [(e.rowid, e.cells)]
  | .update => v.map (fun x => if x.1 = e.rowid then (e.rowid, e.cells) else x)
  | .delete => v.filter (fun x => x.1 ≠ e.rowid)

def replay (v : View) (es : List Event) : View := es.foldl applyEvent v

def State.view (st : State) : View := st.rows.map (fun m => (m.rowid, m.cells))

/-! ### change lists and the relevance filter -/

/-- one entry of `crsql_changes` as the matcher sees it; `cid = none` is the sentinel `-1` -/
structure Chg where
  tbl : Nat
  key : Key
  cid : Option Nat
deriving Repr, DecidableEq, Inhabited

/-- `filter_matchable_change` without the "already a candidate" test: the change belongs to a table
the query reads.  (Since the fix 9b7fd83 the column is not looked at: a row can enter or leave the
result through a change to a column the query never mentions.) -/
def relevant (q : Query) (c : Chg) : Bool := (posOf c.tbl q.srcs).isSome

def addCand (t : Nat) (k : Key) : List (Nat × List Key) → List (Nat × List Key)
  | [] => [(t, [k])]
  | (t', ks) :: rest =>
    if t' = t then (t', if k ∈ ks then ks else ks ++ [k]) :: rest else (t', ks) :: addCand t k rest

/-- `match_changes` for one subscription: the candidate map (tables and keys in order of first
relevant change) -/
def candidates (q : Query) (chs : List Chg) : List (Nat × List Key) :=
  chs.foldl (fun acc c => if relevant q c then addCand c.tbl c.key acc else acc) []

def candCount (cs : List (Nat × List Key)) : Nat := cs.foldl (fun n c => n + c.2.length) 0

/-- what a transaction does to one row, as cr-sqlite records it -/
inductive RowChange where
  /-- first insert of a key never seen before (causal length 1) -/
  | insertNew
  /-- insert of a key that existed before, or the new key of a key change -/
  | reinsert
  /-- UPDATE that changed the listed non-key columns -/
  | update (cols : List Nat)
  | delete
deriving Repr, DecidableEq, Inhabited

def colRange (nk nc : Nat) : List Nat := (List.range nc).drop nk

/-- the change list of one row change on a table with `nk` key columns out of `nc`:
a brand-new row gives one change per non-key column and NO sentinel (unless the table has only key
columns); delete / re-insert give a sentinel -/
def changesOf (t : Nat) (nk nc : Nat) (k : Key) : RowChange → List Chg
  | .insertNew => if nc ≤ nk then [⟨t, k, none⟩] else (colRange nk nc).map (fun c => ⟨t, k, some c⟩)
  | .reinsert => ⟨t, k, none⟩ :: (colRange nk nc).map (fun c => ⟨t, k, some c⟩)
  | .update cols => cols.map (fun c => ⟨t, k, some c⟩)
  | .delete => [⟨t, k, none⟩]

end Corro.Ivm
