/-
Model of the single-writer admission protocol of `SplitPool`
(crates/klukai-types/src/agent.rs: `SplitPool::new`, `write_inner`, `wait_conn_drop`, `WriteConn`).
Import-free: this file is linked into the driver.

What the code does, as read:

* `SplitPool::new` creates three bounded queues `priority` / `normal` / `low` whose items are
  `oneshot::Sender<DropGuard>` and spawns the **dispatcher**:
  `loop { let tx = select! { biased; priority_rx.recv(), normal_rx.recv(), low_rx.recv() }; wait_conn_drop(tx).await }`.
* `wait_conn_drop(tx)` makes a fresh `CancellationToken`, sends its `DropGuard` through `tx`.
  If the send fails (the requester's `oneshot::Receiver` is gone: the requester was cancelled or
  timed out while queued) it logs and **returns at once**, so the dispatcher goes back to the
  `select!` and takes the next queued item.  Otherwise it waits until the token is cancelled, i.e.
  until the guard has been dropped (by the requester, or together with the oneshot channel when the
  requester goes away before it has polled the channel).
* `write_inner` (one requester): push `tx` on the queue of its class -> await the guard -> `write.get()`
  from the pool (`max_size(1)`) -> `write_sema.acquire_owned()`; each await is wrapped in a 5-minute
  `timeout`.  The result `WriteConn { conn, _drop_guard, _permit }` releases all three when dropped.
  Dropping the future at any await point (cancellation) or returning the timeout error drops the
  locals acquired so far, in particular the guard.

A requester is identified by a natural number; any number of requesters may exist.
-/
namespace Corro.WritePool

/-- The three request classes (`write_priority`, `write_normal`, `write_low`). -/
inductive Prio
  | priority | normal | low
deriving DecidableEq, Repr, Inhabited

/-- Where a requester stands inside `write_inner`. -/
inductive Phase
  | idle      -- has not called `write_*` yet (or is still inside `chan.send(tx)`)
  | queued    -- its oneshot sender sits in a queue; it awaits the receiver
  | granted   -- the dispatcher has put the guard into the oneshot; the requester has not polled it yet
  | hasGuard  -- `_drop_guard` received; awaiting `self.0.write.get()`
  | hasConn   -- pooled connection taken; awaiting `write_sema.acquire_owned()`
  | holding   -- `WriteConn` returned to the caller
  | gone      -- future dropped / error returned / `WriteConn` dropped
deriving DecidableEq, Repr, Inhabited

/-- the guard exists and belongs to (or is in flight to) this requester -/
def Phase.hasGuardTok : Phase → Bool
  | .granted | .hasGuard | .hasConn | .holding => true
  | _ => false

/-- the requester owns the pooled write connection -/
def Phase.holdsConn : Phase → Bool
  | .hasConn | .holding => true
  | _ => false

/-- What the extractor reads off the source: the `biased;` keyword, the textual order of the
`select!` branches, the write pool's `max_size`, the size of `write_sema`. -/
structure Cfg where
  biased : Bool
  order : List Prio
  poolSize : Nat
  permits : Nat
deriving Repr, DecidableEq

/-- the configuration the code is expected to have -/
def Cfg.standard : Cfg := ⟨true, [.priority, .normal, .low], 1, 1⟩

/-- side conditions of the theorems (checked by `decide` on the extracted configuration) -/
def Cfg.Valid (c : Cfg) : Prop :=
  c.biased = true ∧ c.order = [.priority, .normal, .low] ∧ c.poolSize = 1 ∧ c.permits = 1

instance (c : Cfg) : Decidable c.Valid := by unfold Cfg.Valid; exact inferInstance

structure State where
  /-- the three FIFO queues, head = oldest -/
  q : Prio → List Nat
  /-- dispatcher: `none` = in the `select!`; `some r` = inside `wait_conn_drop` for `r`'s guard -/
  disp : Option Nat
  phase : Nat → Phase
  /-- connections of the write pool currently handed out -/
  connsOut : Nat
  /-- permits of `write_sema` currently handed out (requesters + outside holders) -/
  permitsOut : Nat
  /-- permits held outside `write_inner` (`Agent::write_permit` hands out the same semaphore) -/
  ext : Nat

def init : State := ⟨fun _ => [], none, fun _ => .idle, 0, 0, 0⟩

def setQ (s : State) (p : Prio) (l : List Nat) : State :=
  { s with q := fun p' => if p' = p then l else s.q p' }

def setPhase (s : State) (r : Nat) (ph : Phase) : State :=
  { s with phase := fun r' => if r' = r then ph else s.phase r' }

/-- `select! { biased; … }`: the first branch, in textual order, whose queue has an item. -/
def firstNonEmpty (q : Prio → List Nat) : List Prio → Option Prio
  | [] => none
  | p :: ps => if (q p).isEmpty then firstNonEmpty q ps else some p

/-- May the dispatcher's `select!` complete with branch `p`?  Without `biased` tokio picks a random
ready branch, so every non-empty queue is possible. -/
def selectable (cfg : Cfg) (s : State) (p : Prio) : Bool :=
  if cfg.biased then firstNonEmpty s.q cfg.order == some p
  else cfg.order.contains p && !(s.q p).isEmpty

/-- Requester `r` goes away (future dropped, error returned, or `WriteConn` dropped): everything it
owns is released — the pooled connection, the permit, the guard (the guard also when it still sits
unreceived in the oneshot channel: dropping the receiver drops the value). A queue entry of a
requester that goes away while queued stays in the queue (its sender is still there). -/
def dropEffect (s : State) (r : Nat) : State :=
  let ph := s.phase r
  setPhase
    { s with connsOut := if ph.holdsConn then s.connsOut - 1 else s.connsOut,
             permitsOut := if ph = .holding then s.permitsOut - 1 else s.permitsOut }
    r .gone

inductive Action
  | enqueue (r : Nat) (p : Prio)   -- `chan.send(tx)` completed
  | dispatch (p : Prio)            -- dispatcher: `select!` completed with branch `p`, then `tx.send(guard)`
  | wake                           -- dispatcher: `cancel.cancelled()` completed, back to the `select!`
  | recvGuard (r : Nat)            -- requester: oneshot received
  | takeConn (r : Nat)             -- requester: `write.get()` completed
  | takePermit (r : Nat)           -- requester: `acquire_owned()` completed
  | release (r : Nat)              -- holder drops its `WriteConn`
  | cancel (r : Nat)               -- the requester's future / connection is dropped, at any point
  | timeout (r : Nat)              -- one of the three `timeout_fut`s fired
  | extAcquire                     -- somebody outside takes a permit of `write_sema`
  | extRelease
deriving Repr, DecidableEq

def step (cfg : Cfg) (s : State) : Action → Option State
  | .enqueue r p =>
    if s.phase r = .idle then some (setPhase (setQ s p (s.q p ++ [r])) r .queued) else none
  | .dispatch p =>
    if s.disp.isNone && selectable cfg s p then
      match s.q p with
      | [] => none
      | r :: rest =>
        if s.phase r = .queued then
          some { setPhase (setQ s p rest) r .granted with disp := some r }
        else
          -- receiver gone: `tx.send` fails, `wait_conn_drop` returns, the entry is discarded
          some (setQ s p rest)
    else none
  | .wake =>
    match s.disp with
    | some r => if (s.phase r).hasGuardTok then none else some { s with disp := none }
    | none => none
  | .recvGuard r =>
    if s.phase r = .granted then some (setPhase s r .hasGuard) else none
  | .takeConn r =>
    if s.phase r = .hasGuard ∧ s.connsOut < cfg.poolSize then
      some { setPhase s r .hasConn with connsOut := s.connsOut + 1 }
    else none
  | .takePermit r =>
    if s.phase r = .hasConn ∧ s.permitsOut < cfg.permits then
      some { setPhase s r .holding with permitsOut := s.permitsOut + 1 }
    else none
  | .release r =>
    if s.phase r = .holding then some (dropEffect s r) else none
  | .cancel r =>
    if s.phase r = .gone then none else some (dropEffect s r)
  | .timeout r =>
    if s.phase r = .queued ∨ s.phase r = .hasGuard ∨ s.phase r = .hasConn then
      some (dropEffect s r)
    else none
  | .extAcquire =>
    if s.permitsOut < cfg.permits then
      some { s with permitsOut := s.permitsOut + 1, ext := s.ext + 1 }
    else none
  | .extRelease =>
    if 0 < s.ext then some { s with permitsOut := s.permitsOut - 1, ext := s.ext - 1 } else none

/-- all interleavings: any finite sequence of enabled actions from the initial state -/
inductive Reachable (cfg : Cfg) : State → Prop
  | init : Reachable cfg init
  | step {s s' : State} (a : Action) : Reachable cfg s → step cfg s a = some s' → Reachable cfg s'

def run (cfg : Cfg) (s : State) : List Action → Option State
  | [] => some s
  | a :: as => (step cfg s a).bind (fun s' => run cfg s' as)

/-- Steps of the system itself, as opposed to steps of its environment (new requests, cancellations,
timeouts, an outside party taking a permit). `release`/`extRelease` count as system steps: holders
are assumed to release eventually. -/
def Action.isProgress : Action → Bool
  | .dispatch _ | .wake | .recvGuard _ | .takeConn _ | .takePermit _ | .release _ | .extRelease => true
  | _ => false

/-! ### deterministic scheduler used by the driver (what one harness op does on the model) -/

/-- the dispatcher task runs until it blocks: leaves `wait_conn_drop` if its guard is gone, then takes
queue heads (biased) until it has handed the guard to a live requester or all queues are empty -/
def runDispatcher (cfg : Cfg) : Nat → State → State
  | 0, s => s
  | fuel + 1, s =>
    match step cfg s .wake with
    | some s' => runDispatcher cfg fuel s'
    | none =>
      match firstNonEmpty s.q cfg.order with
      | some p =>
        match step cfg s (.dispatch p) with
        | some s' => runDispatcher cfg fuel s'
        | none => s
      | none => s

/-- one poll of requester `r`'s future: it advances as far as it can -/
def pollRequester (cfg : Cfg) (s : State) (r : Nat) : State :=
  let s1 := (step cfg s (.recvGuard r)).getD s
  let s2 := (step cfg s1 (.takeConn r)).getD s1
  (step cfg s2 (.takePermit r)).getD s2

def totalQueued (s : State) : Nat :=
  (s.q .priority).length + (s.q .normal).length + (s.q .low).length

end Corro.WritePool
