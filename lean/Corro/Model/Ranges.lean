/-
Model of `rangemap::RangeInclusiveSet<u64>` as used by the bookkeeping code: a sorted list of
inclusive intervals, coalescing overlapping *and adjacent* intervals on insert.  Import-free.
-/
namespace Corro

abbrev RSet := List (Nat × Nat)

namespace RSet

/-- `RangeInclusiveSet::insert` (argument must be a forward range `lo ≤ hi`; the real crate panics
otherwise). -/
def insert : RSet → Nat × Nat → RSet
  | [], r => [r]
  | (a, b) :: t, (lo, hi) =>
    if hi + 1 < a then (lo, hi) :: (a, b) :: t
    else if b + 1 < lo then (a, b) :: insert t (lo, hi)
    else insert t (min a lo, max b hi)

/-- `RangeInclusiveSet::remove`. -/
def remove : RSet → Nat × Nat → RSet
  | [], _ => []
  | (a, b) :: t, (lo, hi) =>
    if b < lo then (a, b) :: remove t (lo, hi)
    else if hi < a then (a, b) :: t
    else (if a < lo then [(a, lo - 1)] else []) ++
         (if hi < b then (hi + 1, b) :: t else remove t (lo, hi))

/-- `RangeInclusiveSet::gaps(&outer)`: maximal sub-intervals of `outer` not covered by the set. -/
def gaps : RSet → Nat × Nat → RSet
  | [], (lo, hi) => if lo ≤ hi then [(lo, hi)] else []
  | (a, b) :: t, (lo, hi) =>
    if hi < lo then []
    else if b < lo then gaps t (lo, hi)
    else if hi < a then [(lo, hi)]
    else (if lo < a then [(lo, a - 1)] else []) ++ (if b < hi then gaps t (b + 1, hi) else [])

/-- `RangeInclusiveSet::overlapping(&r)`: stored intervals that intersect `r`. -/
def overlapping (s : RSet) (r : Nat × Nat) : RSet :=
  s.filter (fun p => p.1 ≤ r.2 && r.1 ≤ p.2)

/-- `RangeInclusiveSet::contains`. -/
def contains (s : RSet) (x : Nat) : Bool := s.any (fun p => p.1 ≤ x && x ≤ p.2)

/-- `RangeInclusiveSet::get`: the stored interval containing `x`. -/
def get? (s : RSet) (x : Nat) : Option (Nat × Nat) := s.find? (fun p => p.1 ≤ x && x ≤ p.2)

def ofList (rs : List (Nat × Nat)) : RSet := rs.foldl insert []

def insertAll (s : RSet) (rs : List (Nat × Nat)) : RSet := rs.foldl insert s

def removeAll (s : RSet) (rs : List (Nat × Nat)) : RSet := rs.foldl remove s

/-- last stored point (`set.last().end()`), if any -/
def maxEnd? (s : RSet) : Option Nat := s.getLast?.map (·.2)

end RSet
end Corro
