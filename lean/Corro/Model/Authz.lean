/-
Model of the HTTP API's authorization and read-only gates.  Import-free (linked into the driver).

Code followed (as written, not as it should be):
* `require_authz` (crates/klukai-agent/src/agent/util.rs):
    ```
    async fn require_authz(Extension(agent), maybe_authz_header: Option<TypedHeader<Authorization<Bearer>>>,
                           request, next) -> Result<Response, StatusCode> {
        let passed = if let Some(ref authz) = agent.config().api.authorization {
            match authz { AuthzConfig::BearerToken(token) =>
                maybe_authz_header.map(|h| h.token() == token).unwrap_or(false) }
        } else { true };
        if !passed { return Err(StatusCode::UNAUTHORIZED); }
        Ok(next.run(request).await)
    }
    ```
  The extractor `Option<TypedHeader<..>>` (axum-extra 0.10) runs BEFORE the body: a missing header is
  `None`; a header that is present but does not decode is a *rejection* (400, "invalid HTTP header
  (authorization)") and neither the body of `require_authz` nor `next` runs -- whatever the
  configuration.  That is `HeaderShape.malformed` below.
* `Authorization::<Bearer>::decode` + `Bearer::token` (headers 0.4.1), trusted and modelled by
  `parseHeader`: only the FIRST Authorization value is looked at; it must be longer than 6 bytes, byte 6
  a space, bytes 0..6 equal to "Bearer" ignoring ASCII case, and the whole value visible ASCII / space /
  tab; the token is the rest with leading whitespace removed.
* `build_query_rows_response` (api/public/mod.rs): `conn.prepare(sql)` on a read-only pooled
  connection, error -> 400; `if !prepped.readonly()` -> 400 "statement is not readonly"; else executed.
* `Matcher::new` (klukai-types/src/pubsub.rs): the first parsed command must be a `Stmt::Select`,
  otherwise the subscription is refused (the handler answers 500) before anything is executed.

A handler is a state transformer `σ → Nat × σ` (status, new state) for an arbitrary state type `σ`
(database, bookkeeping, a call counter, ...): "the handler did not run" is "the state is unchanged and
the answer does not depend on the handler".
-/
namespace Corro.Authz

abbrev Token := String

/-- What `Option<TypedHeader<Authorization<Bearer>>>` makes of the request's Authorization header(s). -/
inductive HeaderShape where
  | missing                 -- no Authorization header: extractor yields `None`
  | malformed               -- present but not a syntactically valid `Bearer <tok>`: extractor REJECTS (400)
  | bearer (tok : Token)    -- `Some(h)` with `h.token() = tok`
deriving Repr, DecidableEq, Inhabited

/-- `maybe_authz_header.map(|h| h.token())` -/
def HeaderShape.token? : HeaderShape → Option Token
  | .bearer t => some t
  | _ => none

/-- The `passed` variable of `require_authz`. -/
def authorize (cfg : Option Token) (hdr : HeaderShape) : Bool :=
  match cfg with
  | some token =>
    match hdr.token? with
    | some h => h == token
    | none => false
  | none => true

abbrev Handler (σ : Type) := σ → Nat × σ

/-- The middleware as a whole: extractor rejection, then `require_authz`'s body. -/
def middleware {σ : Type} (cfg : Option Token) (hdr : HeaderShape) (next : Handler σ) : Handler σ :=
  fun st =>
    match hdr with
    | .malformed => (400, st)
    | _ => if authorize cfg hdr then next st else (401, st)

/-- axum layering (trusted): a route added before `.layer(from_fn(require_authz))` is served through
the middleware, a route added after it is served bare. -/
def serve {σ : Type} (guarded : Bool) (cfg : Option Token) (hdr : HeaderShape) (h : Handler σ) : Handler σ :=
  if guarded then middleware cfg hdr h else h

/-! ### header parsing (headers 0.4.1), over the raw bytes of the header value as `Char`s -/

def isWs (c : Char) : Bool := c == ' ' || c == '\t'

/-- `HeaderValue::to_str` succeeds: visible ASCII, space or tab only. -/
def isStrByte (c : Char) : Bool := (32 ≤ c.toNat && c.toNat < 127) || c == '\t'

def asciiLower (c : Char) : Char :=
  if 65 ≤ c.toNat && c.toNat ≤ 90 then Char.ofNat (c.toNat + 32) else c

/-- one Authorization header value -/
def parseValue (v : List Char) : HeaderShape :=
  if v.length > 6 && v.getD 6 'x' == ' ' && (v.take 6).map asciiLower == "bearer".toList
      && v.all isStrByte then
    .bearer (String.ofList ((v.drop 7).dropWhile isWs))
  else .malformed

/-- all Authorization header values of the request, in order: only the first one counts -/
def parseHeader : List (List Char) → HeaderShape
  | [] => .missing
  | v :: _ => parseValue v

/-! ### read-only gates -/

/-- `conn.prepare(sql)` on the read-only pooled connection, then `sqlite3_stmt_readonly` (both trusted) -/
inductive Prep where
  | error
  | ok (stmtReadonly : Bool)
deriving Repr, DecidableEq, Inhabited

/-- `if !prepped.readonly() { 400 "statement is not readonly" }`: true = may execute -/
def readGate (stmtReadonly : Bool) : Bool := stmtReadonly

/-- `/v1/queries` after authorization -/
def queryHandler {σ : Type} (p : Prep) (exec : Handler σ) : Handler σ :=
  fun st =>
    match p with
    | .error => (400, st)
    | .ok ro => if readGate ro then exec st else (400, st)

/-- `Matcher::new`: first parsed command is a `Stmt::Select` (anything after it is dropped, because the
query that runs is re-printed from that one parsed statement): true = goes on -/
def subGate (parsedAsSingleSelect : Bool) : Bool := parsedAsSingleSelect

/-- `/v1/subscriptions` after authorization; `later` = the remaining checks and the matcher itself -/
def subHandler {σ : Type} (parsedAsSingleSelect : Bool) (later : Handler σ) : Handler σ :=
  fun st => if subGate parsedAsSingleSelect then later st else (500, st)

end Corro.Authz
