/-
C11 — a subscription's rows and events always equal its query run on the database.
Property theorems only; model `Corro/Model/Ivm.lean`, lemmas `Corro/Lemmas/Ivm*.lean`.

Query class covered by the theorems: projection of expressions over a left-deep chain of ANY number
of distinct tables joined INNER or LEFT with arbitrary ON predicates of the modelled predicate
language, and a WHERE predicate (the proofs never look inside predicates or expressions).
Database side conditions (`DbOk`): per table distinct keys, key values neither NULL nor the empty
string (the code's `coalesce(pk, "")` cannot tell them apart; see
`empty_string_key_counterexample`), at least one key column.
-/
import Corro.Lemmas.IvmInit

namespace Corro.Ivm

/-- the tables of the FROM clause are distinct -/
def Query.Ok (q : Query) : Prop := (q.srcs.map (·.tbl)).Nodup

/-- single-table and INNER-join queries -/
def Query.Inner (q : Query) : Prop := ∀ j ∈ q.joins, j.kind = .inner

/-- the materialised rows equal the keyed query result, as keyed sets, and the `query` table is
well formed (one row per key, distinct rowids below the AUTOINCREMENT counter) -/
def Represents (q : Query) (st : State) (db : Db) : Prop :=
  StOk st ∧ ∀ x, x ∈ st.outs ↔ x ∈ evalKeyed q db

/-- the candidate lists contain the key of every changed row (they may contain more, in any order,
a table may come several times) -/
def Complete (q : Query) (db0 db1 : Db) (cands : List (Nat × List Key)) : Prop :=
  ∀ s ∈ q.srcs, ∀ r, Changed db0 db1 s.tbl r → ∃ c ∈ cands, c.1 = s.tbl ∧ keyOf s.nk r ∈ c.2

def CleanCands (cands : List (Nat × List Key)) : Prop := ∀ c ∈ cands, ∀ k ∈ c.2, CleanKey k

theorem covered_of_inner {q : Query} {db0 db1 : Db} {cands : List (Nat × List Key)} (hi : q.Inner)
    (hc : Complete q db0 db1 cands) : Covered q db0 db1 cands :=
  ⟨hc, fun pre j post hq hk => by
    have : j ∈ q.joins := by rw [hq]; simp
    rw [hi j this] at hk; cases hk⟩

/-- **C11, LEFT joins (partial).** One batch of `handle_candidates` re-establishes "materialised rows
= query on the database" for EVERY query of the class, provided the candidates cover every changed
row and (`Covered.leftSafe`) every row change on the nullable side of a LEFT join comes with a
candidate for a preserved-side row it joins with (before or after).  The full statement (no
`leftSafe`) is false for the code as it stands: `ivm_left_join_counterexample`. -/
theorem ivm_correct_left_partial {q : Query} {db0 db1 : Db} {st : State} {cands : List (Nat × List Key)}
    (hq : q.Ok) (h0 : DbOk q.srcs db0) (h1 : DbOk q.srcs db1) (hk : CleanCands cands)
    (hcov : Covered q db0 db1 cands) (hrep : Represents q st db0) :
    Represents q (step q db1 st cands) db1 := by
  obtain ⟨hs, hm, _⟩ := step_mechanics h1 hrep.1 hk (fun x => x ∈ evalKeyed q db0) hrep.2
  refine ⟨hs, fun x => ?_⟩
  rw [hm x]
  by_cases ht : TouchedOut cands q.srcs x
  · simp [ht]
  · have := untouched_iff hq h0 h1 hk hcov x ht
    simp [ht, this]

/-- **C11, first sentence, single table and INNER joins.** For every query without LEFT join, every
pair of databases (= any set of inserts, updates, deletes, key changes, multi-table transactions,
local or remote) and every batching of candidates that contains the keys of all changed rows,
after `step` the materialised rows equal `evalKeyed q db` as keyed sets. -/
theorem ivm_correct_inner {q : Query} {db0 db1 : Db} {st : State} {cands : List (Nat × List Key)}
    (hq : q.Ok) (hi : q.Inner) (h0 : DbOk q.srcs db0) (h1 : DbOk q.srcs db1) (hk : CleanCands cands)
    (hc : Complete q db0 db1 cands) (hrep : Represents q st db0) :
    Represents q (step q db1 st cands) db1 :=
  ivm_correct_left_partial hq h0 h1 hk (covered_of_inner hi hc) hrep

/-- the cells of the materialised rows are the user's query result (as sets) -/
theorem represents_eval {q : Query} {st : State} {db : Db} (h : Represents q st db) (cells : List Val) :
    (∃ m ∈ st.rows, m.cells = cells) ↔ cells ∈ eval q db := by
  unfold eval
  rw [List.mem_map]
  constructor
  · rintro ⟨m, hm, rfl⟩
    exact ⟨m.out, (h.2 _).mp (mem_outs.mpr ⟨m, hm, rfl⟩), rfl⟩
  · rintro ⟨x, hx, rfl⟩
    obtain ⟨m, hm, rfl⟩ := mem_outs.mp ((h.2 x).mpr hx)
    exact ⟨m, hm, rfl⟩

/-- **C11, initial rows.** The subscription starts with exactly the query result, no events, change
id counter at 1. -/
theorem initial_correct {q : Query} {db : Db} (h : DbOk q.srcs db) (hn : ∀ s ∈ q.srcs, (db s.tbl).Nodup) :
    Represents q (initial q db) db ∧ (initial q db).view.map (·.2) = eval q db ∧
    (initial q db).events = [] ∧ (initial q db).nextId = 1 := by
  obtain ⟨h1, h2, h3, h4⟩ := initial_spec h hn
  refine ⟨⟨h1, fun x => by rw [h2]⟩, ?_, h3, h4⟩
  unfold eval
  rw [← h2]
  simp [State.view, State.outs, MRow.out, List.map_map, Function.comp_def]

/-- a history: the database after each batch and the candidates of that batch -/
abbrev Hist := List (Db × List (Nat × List Key))

def run (q : Query) (st : State) : Hist → State
  | [] => st
  | (db, c) :: rest => run q (step q db st c) rest

def lastDb (db : Db) : Hist → Db
  | [] => db
  | (db', _) :: rest => lastDb db' rest

def GoodHist (q : Query) : Db → Hist → Prop
  | _, [] => True
  | db0, (db1, c) :: rest => DbOk q.srcs db1 ∧ CleanCands c ∧ Covered q db0 db1 c ∧ GoodHist q db1 rest

theorem run_correct {q : Query} (hq : q.Ok) : ∀ (h : Hist) (db0 : Db) (st : State), DbOk q.srcs db0 →
    GoodHist q db0 h → Represents q st db0 → Represents q (run q st h) (lastDb db0 h) := by
  intro h
  induction h with
  | nil => intro db0 st _ _ hr; exact hr
  | cons a rest ih =>
    intro db0 st h0 hg hr
    obtain ⟨db1, c⟩ := a
    obtain ⟨h1, hk, hcov, hrest⟩ := hg
    exact ih db1 _ h1 hrest (ivm_correct_left_partial hq h0 h1 hk hcov hr)

/-- **C11, first sentence, whole histories.** From the initial query through every history of
databases and candidate batchings (each batch covering its changed rows), the materialised rows
equal the query on the current database. -/
theorem ivm_correct_history {q : Query} (hq : q.Ok) {db0 : Db} (h0 : DbOk q.srcs db0)
    (hn : ∀ s ∈ q.srcs, (db0 s.tbl).Nodup) (h : Hist) (hg : GoodHist q db0 h) :
    Represents q (run q (initial q db0) h) (lastDb db0 h) :=
  run_correct hq h db0 _ h0 hg (initial_correct h0 hn).1

/-- **C11, events replay.** The events emitted by a batch, applied in order to the client's copy
(rowid ↦ cells), give the materialised rows; under the hypotheses of the correctness theorem their
cells are the query result on the current database. -/
theorem events_replay {q : Query} {db0 db1 : Db} {st : State} {cands : List (Nat × List Key)}
    (hq : q.Ok) (h0 : DbOk q.srcs db0) (h1 : DbOk q.srcs db1) (hk : CleanCands cands)
    (hcov : Covered q db0 db1 cands) (hrep : Represents q st db0) :
    ∃ ex, (step q db1 st cands).events = st.events ++ ex ∧
      SameSet (replay st.view ex) (step q db1 st cands).view ∧
      ∀ cells, (∃ rowid, (rowid, cells) ∈ replay st.view ex) ↔ cells ∈ eval q db1 := by
  obtain ⟨_, _, ex, hev, _, _, hview⟩ := step_mechanics h1 hrep.1 hk (fun x => x ∈ evalKeyed q db0) hrep.2
  refine ⟨ex, hev, hview, fun cells => ?_⟩
  rw [← represents_eval (ivm_correct_left_partial hq h0 h1 hk hcov hrep) cells]
  constructor
  · rintro ⟨rowid, hr⟩
    obtain ⟨m, hm, heq⟩ := mem_view.mp ((hview _).mp hr)
    exact ⟨m, hm, by simpa using congrArg Prod.snd heq⟩
  · rintro ⟨m, hm, rfl⟩
    exact ⟨m.rowid, (hview _).mpr (mem_view.mpr ⟨m, hm, rfl⟩)⟩

/-- **C11, change ids.** Whatever the database and the candidates, the events of a batch carry the
ids `nextId, nextId + 1, …`: they increase by exactly one per event, across batches too. -/
theorem change_ids_succ {q : Query} {db : Db} {st : State} {cands : List (Nat × List Key)}
    (h : DbOk q.srcs db) (hs : StOk st) (hk : CleanCands cands) :
    ∃ ex, (step q db st cands).events = st.events ++ ex ∧ Consec st.nextId ex ∧
      (step q db st cands).nextId = st.nextId + ex.length := by
  obtain ⟨_, _, ex, hev, hc, hn, _⟩ := step_mechanics h hs hk (fun x => x ∈ st.outs) (fun _ => Iff.rfl)
  exact ⟨ex, hev, hc, hn⟩

/-- **C11, no event when the result did not change.** If the query result on the new database is
the one the subscription already holds, a batch — whatever its candidates — leaves the state as it
is: no event, no id consumed. -/
theorem no_event_if_unchanged {q : Query} {db0 db1 : Db} {st : State} {cands : List (Nat × List Key)}
    (h1 : DbOk q.srcs db1) (hk : CleanCands cands) (hrep : Represents q st db0)
    (hsame : ∀ x, x ∈ evalKeyed q db0 ↔ x ∈ evalKeyed q db1) :
    step q db1 st cands = st ∧ (step q db1 st cands).events = st.events := by
  have := step_noop h1 (st := st) (fun x => (hrep.2 x).trans (hsame x)) cands hk
  exact ⟨this, by rw [this]⟩

theorem changesOf_shape (t nk nc : Nat) (k : Key) (rc : RowChange) :
    ∀ c ∈ changesOf t nk nc k rc, c.tbl = t ∧ c.key = k := by
  intro c hc
  cases rc <;> simp only [changesOf] at hc
  · split at hc
    · simp only [List.mem_singleton] at hc; subst hc; exact ⟨rfl, rfl⟩
    · obtain ⟨_, _, rfl⟩ := List.mem_map.mp hc; exact ⟨rfl, rfl⟩
  · rcases List.mem_cons.mp hc with rfl | hc
    · exact ⟨rfl, rfl⟩
    · obtain ⟨_, _, rfl⟩ := List.mem_map.mp hc; exact ⟨rfl, rfl⟩
  · obtain ⟨_, _, rfl⟩ := List.mem_map.mp hc; exact ⟨rfl, rfl⟩
  · simp only [List.mem_singleton] at hc; subst hc; exact ⟨rfl, rfl⟩

/-- **C11, relevance filter (after the fix 9b7fd83).** Every row change of a table the query reads
that produces any cr-sqlite change at all — insert of a new row (no sentinel!), re-insert, update
of any column, delete — puts the row's key into the candidate map, wherever its changes stand in
the transaction's change list and whatever columns the query references. -/
theorem filter_complete (q : Query) (t nk nc : Nat) (k : Key) (rc : RowChange) (chs : List Chg)
    (ht : (posOf t q.srcs).isSome = true) (hne : changesOf t nk nc k rc ≠ [])
    (hsub : ∀ c ∈ changesOf t nk nc k rc, c ∈ chs) :
    ∃ cand ∈ candidates q chs, cand.1 = t ∧ k ∈ cand.2 := by
  obtain ⟨c, hc⟩ := List.exists_mem_of_ne_nil _ hne
  obtain ⟨h1, h2⟩ := changesOf_shape t nk nc k rc c hc
  have hrel : relevant q c = true := by unfold relevant; rw [h1]; exact ht
  obtain ⟨cand, hcand, h3, h4⟩ := (candidates_fold q chs []).1 c (hsub c hc) hrel
  exact ⟨cand, hcand, h3.trans h1, h2 ▸ h4⟩

/-! ### what the code gets wrong (by evaluation of the model) -/

section counterexamples

/-- t(id; b) LEFT JOIN u(k; x) ON u.k = t.b, projecting t.id, u.x -/
def qLeft : Query :=
  { base := ⟨0, 1⟩, joins := [⟨.left, ⟨1, 1⟩, .cmp .eq (.col 1 0) (.col 0 1)⟩], where_ := .tt,
    proj := [.col 0 0, .col 1 1] }

def dbL0 : Db := fun t => if t = 0 then [[.int 1, .int 5]] else []
def dbL1 : Db := fun t => if t = 0 then [[.int 1, .int 5]] else if t = 1 then [[.int 5, .int 9]] else []

/-- **F7 (known finding), insert on the nullable side.** `t` holds (1,5), the subscription holds the
null-extended row; a transaction inserts u(5,9) and nothing else; the candidates are complete
({u: 5}).  The code keeps the null-extended row next to the joined one: two rows where the query
returns one.  (Two-row witness.) -/
theorem ivm_left_join_counterexample :
    ((step qLeft dbL1 (initial qLeft dbL0) [(1, [[.int 5]])]).rows.map (·.cells) =
      [[.int 1, .null], [.int 1, .int 9]]) ∧ eval qLeft dbL1 = [[.int 1, .int 9]] := by
  decide

/-- **F7, converse.** Deleting the only matching row of the nullable side removes the joined row and
does not put the null-extended row back: no row where the query returns one. -/
theorem ivm_left_join_delete_counterexample :
    ((step qLeft dbL0 (initial qLeft dbL1) [(1, [[.int 5]])]).rows.map (·.cells) = []) ∧
      eval qLeft dbL0 = [[.int 1, .null]] := by
  decide

/-- t(id; a) LEFT JOIN w(id; y) ON w.id = t.a, projecting t.id, w.y -/
def qEmpty : Query :=
  { base := ⟨0, 1⟩, joins := [⟨.left, ⟨1, 1⟩, .cmp .eq (.col 1 0) (.col 0 1)⟩], where_ := .tt,
    proj := [.col 0 0, .col 1 1] }

def dbE0 : Db := fun t => if t = 0 then [[.int 1, .text [112]]] else []
def dbE1 : Db := fun t => if t = 0 then [[.int 1, .text [112]]] else if t = 1 then [[.text [], .int 7]] else []

/-- why `CleanKey` excludes the empty string: a row of the nullable side whose key is `''` is
inserted (it joins with nothing); `coalesce(pk, "")` puts every null-extended row into its slice and
the delete pass removes them all. -/
theorem empty_string_key_counterexample :
    ((step qEmpty dbE1 (initial qEmpty dbE0) [(1, [[.text []]])]).rows.map (·.cells) = []) ∧
      eval qEmpty dbE1 = [[.int 1, .null]] := by
  decide

end counterexamples

/-! ### non-vacuity: the hypotheses are met by concrete inputs -/

section examples

/-- t(id; b) INNER JOIN u(k; x) ON u.k = t.b WHERE t.b > 1, projecting t.id, u.x -/
def qInner : Query :=
  { base := ⟨0, 1⟩, joins := [⟨.inner, ⟨1, 1⟩, .cmp .eq (.col 1 0) (.col 0 1)⟩],
    where_ := .cmp .gt (.col 0 1) (.const (.int 1)), proj := [.col 0 0, .col 1 1] }

def dbI0 : Db := fun t => if t = 0 then [[.int 1, .int 5], [.int 2, .int 6]] else if t = 1 then [[.int 5, .int 9]] else []
def dbI1 : Db := fun t => if t = 0 then [[.int 1, .int 6], [.int 2, .int 6]] else if t = 1 then [[.int 5, .int 9], [.int 6, .int 8]] else []

example : qInner.Ok := by simp [Query.Ok, Query.srcs, qInner]
example : qInner.Inner := by intro j hj; simp [qInner] at hj; subst hj; rfl

/-- the model run on that instance: update of t(1).b and insert of u(6), one batch -/
example : (step qInner dbI1 (initial qInner dbI0) [(0, [[.int 1]]), (1, [[.int 6]])]).rows.map (·.cells) =
    [[.int 1, .int 8], [.int 2, .int 8]] ∧ eval qInner dbI1 = [[.int 1, .int 8], [.int 2, .int 8]] := by decide

/-- its events: the row of t(1) changes its partner (insert of the new pair, delete of the old one),
t(2) gets a partner; ids 1, 2, 3 -/
example : (step qInner dbI1 (initial qInner dbI0) [(0, [[.int 1]]), (1, [[.int 6]])]).events.map (fun e => (e.kind, e.rowid, e.id)) =
    [(.insert, 2, 1), (.delete, 1, 2), (.insert, 3, 3)] := by decide

example : CleanCands [(0, [[Val.int 1]]), (1, [[Val.int 6]])] := by
  intro c hc k hk
  simp only [List.mem_cons, List.mem_nil_iff, or_false] at hc
  rcases hc with rfl | rfl <;> simp only [List.mem_singleton] at hk <;> subst hk <;> simp [CleanKey, CleanVal]

/-- the candidates of that batch come out of the change list of the transaction -/
example : candidates qInner (changesOf 0 1 2 [.int 1] (.update [1]) ++ changesOf 1 1 2 [.int 6] .insertNew) =
    [(0, [[.int 1]]), (1, [[.int 6]])] := by decide

/-- a LEFT-join batch inside the proved region: the transaction that inserts u(5) also touches t(1) -/
example : (step qLeft dbL1 (initial qLeft dbL0) [(1, [[.int 5]]), (0, [[.int 1]])]).rows.map (·.cells) = [[.int 1, .int 9]] := by
  decide

end examples

end Corro.Ivm
