/-
C14 — row-level update notifications reflect every changed key and its final fate.
Property theorems only; the model is `Corro/Model/Updates.lean` (the loop of `batch_candidates`,
`handle_candidates`, `filter_matchable_change` in crates/klukai-types/src/updates.rs), helper lemmas
are in `Corro/Lemmas/Updates.lean`, `UpdatesInv.lean` and `UpdatesHorizon.lean`, the constants in
`Corro/Gen/UpdatesConsts.lean` are regenerated from the source on every run.

All theorems quantify over ALL parameters `p` (cache capacity / kept entries / flush threshold) and
ALL input sequences (candidate batches in the order the loop receives them — any commit order, any
reordering between commit and notification, any batching — interleaved with deadline ticks).

Summary of strength:
* `every_key_notified`, `suppressed_only_by_newer`, `event_kind_is_parity`,
  `filter_keeps_first_cl_per_key`, `no_stale_within_horizon`: full strength for the model.
* both producers of candidate batches are instances of the quantified input: `match_changes`
  (`filterChanges`) and `match_changes_from_db_version` after a chunked version was applied from the
  buffer (`rereadBatch`; `reread_keys_nodup`, `reread_subset_of_complete`, `reread_eq_complete`,
  `reread_none_when_not_impacted`).
* `parity_is_fate`, `deleted_iff_row_absent`, `no_stale_partial`: need the horizon hypothesis
  `keptThroughout` (the key is never evicted from `cl_cache`), which `kept_of_few_candidates`
  discharges for runs with at most `cap` candidates.  The property's own last two sentences have no
  such hypothesis; WITHOUT it they are false of the code as it stands:
  `stale_after_eviction_counterexample` / `stale_after_eviction_general` (an older state is notified
  after a newer one, and the last notification says "deleted" for an existing row) and
  `newer_lost_after_eviction_counterexample` (the newer notification is overwritten in the buffer and
  never sent).  Reported to the coordinator as finding F10.
-/
import Corro.Lemmas.UpdatesHorizon
import Corro.Gen.UpdatesConsts

namespace Corro.Updates

/-- the parameters the code is compiled with -/
def codeParams : Params :=
  ⟨Corro.Gen.UpdatesConsts.maxCacheEntries, Corro.Gen.UpdatesConsts.keepCacheEntries,
   Corro.Gen.UpdatesConsts.processChangesThreshold⟩

/-- **Constants.** The compiled constants satisfy the side conditions used below
(`keep ≤ cap`: `split_off(len - KEEP)` cannot underflow and an eviction really drops entries). -/
theorem code_params_admissible :
    codeParams.keep ≤ codeParams.cap ∧ 1 ≤ codeParams.keep ∧ 1 ≤ codeParams.thr := by decide

/-! ### which keys become candidates -/

/-- **"every primary key whose row was changed" (candidate side).** Of the change list of one
committed version, `match_changes` sends to the table's handle exactly one candidate per primary key
that has a change in the handle's table, carrying the causal length of the FIRST such change (in
`seq` order); changes of other tables are ignored. -/
theorem filter_keeps_first_cl_per_key (cs : List Change) (k : Key) :
    lookup k (filterChanges cs) = (cs.find? (fun c => c.mine && c.key == k)).map (·.cl) := by
  unfold filterChanges
  rw [filter_fold_spec]; simp [lookup]

/-- The candidate batch of one change list has pairwise distinct keys (the hypothesis of
`every_key_notified` is what the code produces). -/
theorem filter_keys_nodup (cs : List Change) : ((filterChanges cs).map (·.1)).Nodup :=
  filter_fold_nodup cs [] (by simp)

/-! ### the second producer: a chunked remote version applied from the buffer -/

/-- **The re-read producer is covered by every theorem below.** The theorems about the feed quantify
over ALL candidate batches; the batch `match_changes_from_db_version` sends after
`process_fully_buffered_changes` is one (pairwise distinct keys, the hypothesis of
`every_key_notified`). -/
theorem reread_keys_nodup (impacted : Bool) (live : List Change) (b : List Cand)
    (h : rereadBatch impacted live = some b) : (b.map (·.1)).Nodup := by
  unfold rereadBatch at h
  split at h
  · simp only [Option.some.injEq] at h; subst h; exact filter_keys_nodup live
  · simp at h

/-- **Re-read ⊆ complete.** `cs` is the version's change list as the origin broadcast it, `live` the
entries of that version that are live when the buffered copy is applied (a sub-list: the changes
that won the merge, in `seq` order; that the real re-read query returns exactly those is tied to the
code by the correspondence).  Every candidate the re-read producer sends is a candidate the
complete-changeset producer would send for the whole version, with the SAME causal length: applying
a version from the buffer can notify fewer keys (those whose cells were overwritten meanwhile), never
other keys and never another causal length. -/
theorem reread_subset_of_complete (impacted : Bool) (cs live : List Change) (b : List Cand)
    (hsub : live.Sublist cs) (hu : UniformCl cs) (h : rereadBatch impacted live = some b)
    (k : Key) (c : Nat) (hk : lookup k b = some c) : lookup k (filterChanges cs) = some c := by
  unfold rereadBatch at h
  split at h
  · simp only [Option.some.injEq] at h; subst h
    rw [filter_keeps_first_cl_per_key] at hk ⊢
    cases hf : live.find? (fun c => c.mine && c.key == k) with
    | none => rw [hf] at hk; simp at hk
    | some x =>
      rw [hf] at hk; simp only [Option.map_some, Option.some.injEq] at hk
      have hx := List.find?_some hf
      have hxm : x ∈ cs := hsub.subset (List.mem_of_find?_eq_some hf)
      cases hg : cs.find? (fun c => c.mine && c.key == k) with
      | none =>
        have := List.find?_eq_none.1 hg x hxm
        simp_all
      | some y =>
        have hy := List.find?_some hg
        have hym : y ∈ cs := List.mem_of_find?_eq_some hg
        simp only [Bool.and_eq_true, beq_iff_eq] at hx hy
        have := hu y hym x hxm hy.1 hx.1 (by rw [hy.2, hx.2])
        simp only [Option.map_some, Option.some.injEq]; omega
  · simp at h

/-- **Re-read = complete when nothing was overwritten** (every change of the version is live and at
least one row was impacted): the two producers send the same batch. -/
theorem reread_eq_complete (cs : List Change) : rereadBatch true cs = some (filterChanges cs) := rfl

/-- **No notification at all when the buffered apply impacted no row** (the version lost every merge:
the rows' current state was notified by whoever produced it). -/
theorem reread_none_when_not_impacted (live : List Change) : rereadBatch false live = none := rfl

/-! ### every changed key is notified -/

/-- **"notified of every primary key whose row was changed".** From any reachable state `s`: a
candidate `(k, cl)` of a received batch (distinct keys) that is not older than the cached causal
length of `k` (in particular: any candidate of a key that is not cached) produces an event for `k`
no later than the next flush (the deadline `tick` at the end stands for "600 ms later"). -/
theorem every_key_notified (p : Params) (pre : List In) (b : List Cand) (rest : List In)
    (k cl : Nat) (hn : (b.map (·.1)).Nodup) (hm : (k, cl) ∈ b)
    (hacc : stale (stateAfter p init pre) (k, cl) = false) :
    ∃ e ∈ events p (stateAfter p init pre) (.batch b :: rest ++ [.tick]),
      e.key = k ∧ e.kind = kindOf e.cl := by
  have hs : Coh (stateAfter p init pre) := coh_stateAfter pre coh_init
  have hb := fold_buffers_accepted b _ k cl hn hm hacc
  have ha : (lookup k (arm p (stateAfter p init pre) (.batch b)).buf).isSome := by
    rw [arm_buf]; exact hb
  have hkind : ∀ e ∈ events p (stateAfter p init pre) (.batch b :: rest ++ [.tick]),
      e.kind = kindOf e.cl := fun e he => kind_of_mem_events _ _ he
  suffices h : ∃ e ∈ events p (stateAfter p init pre) (.batch b :: rest ++ [.tick]), e.key = k by
    obtain ⟨e, he, hk⟩ := h; exact ⟨e, he, hk, hkind e he⟩
  rw [List.cons_append, events_cons]
  cases hp : (arm p (stateAfter p init pre) (.batch b)).process with
  | true =>
    obtain ⟨e, he, hk⟩ := mem_events_of_buffered ha
    refine ⟨e, List.mem_append_left _ ?_, hk⟩
    unfold step finish; simp [hp, he]
  | false =>
    rw [step_buf_of_not_process _ hp]
    obtain ⟨e, he, hk⟩ := buffered_is_emitted p k rest _ (coh_arm _ hs) ha
    exact ⟨e, List.mem_append_right _ he, hk⟩

/-- **When a candidate is suppressed.** In any reachable state, a candidate `(k, cl)` is skipped
only if `cl_cache` holds a strictly larger causal length `c` for `k`, and then the notification for
`(k, c)` is still buffered (it goes out with the next flush) or has already been emitted — i.e. the
listener is, or will be, told about a state of `k` that is newer than the suppressed one. -/
theorem suppressed_only_by_newer (p : Params) (pre : List In) (k cl : Nat)
    (h : stale (stateAfter p init pre) (k, cl) = true) :
    ∃ c, cl < c ∧ lookup k (stateAfter p init pre).cache = some c ∧
      (lookup k (stateAfter p init pre).buf = some c ∨
        (⟨k, kindOf c, c⟩ : Event) ∈ events p init pre) := by
  have hb := backed_run (p := p) pre init [] coh_init (by intro k c hc; simp [init, lookup] at hc)
  unfold stale at h
  cases hl : lookup k (stateAfter p init pre).cache with
  | none => simp only at h; rw [hl] at h; simp at h
  | some c =>
    simp only at h; rw [hl] at h
    simp only [decide_eq_true_eq] at h
    refine ⟨c, h, rfl, ?_⟩
    have := hb k c hl
    simpa [toEvent] using this

/-- **Kind of a notification.** Every emitted event says "deleted" exactly when the causal length
it was produced from is even (cr-sqlite: even causal length ⇔ the row is deleted). -/
theorem event_kind_is_parity (p : Params) (s : St) (xs : List In) (e : Event)
    (h : e ∈ events p s xs) : e.kind = .delete ↔ e.cl % 2 = 0 := by
  have := kind_of_mem_events (p := p) xs s h
  rw [this]; unfold kindOf
  split <;> simp_all

/-! ### no stale notification, inside the horizon -/

/-- **"A notification carrying an older state of a key is never delivered after one carrying a
newer state" — while the key stays in `cl_cache`.**  From ANY point of ANY run (`pre`), the causal
lengths of `k`'s events emitted from that point on, up to and including the first loop iteration
after which `k` is no longer in the cache, never decrease. -/
theorem no_stale_within_horizon (p : Params) (pre post : List In) (k : Key) :
    (horizonCls p k (stateAfter p init pre) post).Pairwise (· ≤ ·) :=
  (horizon_sorted_aux p k post _ (coh_stateAfter pre coh_init)).1

/-- Inside the horizon no event is older than what the cache held when the window started. -/
theorem horizon_not_below_cache (p : Params) (pre post : List In) (k : Key) (c : Nat)
    (hc : lookup k (stateAfter p init pre).cache = some c) :
    ∀ x ∈ horizonCls p k (stateAfter p init pre) post, c ≤ x :=
  (horizon_sorted_aux p k post _ (coh_stateAfter pre coh_init)).2 c hc

/-- **no_stale (partial: horizon hypothesis).**  Full statement, which the code does NOT satisfy
(see `stale_after_eviction_counterexample`):
  `∀ p ins k, (clsOf k (events p init ins)).Pairwise (· ≤ ·)`.
Proved: the same for every key that is never evicted during the run. -/
theorem no_stale_partial (p : Params) (ins : List In) (k : Key)
    (hk : keptThroughout p k init ins = true) :
    (clsOf k (events p init ins)).Pairwise (· ≤ ·) := by
  have := (track_run (p := p) (k := k) ins [] init [] coh_init (tc_init k) (te_init k) hk).2.1
  simpa using this

/-! ### the last notification of a key tells its fate -/

/-- **"the last notification for a key says 'deleted' exactly when …" (partial: horizon
hypothesis).**  For a key that is never evicted during the run: once everything buffered has been
flushed (final `tick`), the LAST event emitted for the key carries the HIGHEST causal length that
was delivered for it, in whatever order the batches arrived; hence it says Delete iff that highest
causal length is even.  Without the hypothesis the statement is false
(`stale_after_eviction_counterexample`, `newer_lost_after_eviction_counterexample`). -/
theorem parity_is_fate (p : Params) (ins : List In) (k : Key)
    (hk : keptThroughout p k init ins = true) (ho : offered k ins ≠ []) :
    ∃ e, lastEventOf k (events p init (ins ++ [.tick])) = some e ∧
      e.cl = maxCl (offered k ins) ∧
      (e.kind = .delete ↔ maxCl (offered k ins) % 2 = 0) := by
  obtain ⟨tc, te⟩ := track_run (p := p) (k := k) ins [] init [] coh_init (tc_init k) (te_init k) hk
  simp only [List.nil_append] at tc te
  have hs : Coh (stateAfter p init ins) := coh_stateAfter ins coh_init
  have hc := tc.2 ho
  have hlast : (clsOf k (events p init (ins ++ [.tick]))).getLast? = some (maxCl (offered k ins)) := by
    rw [events_append, clsOf_append]
    cases hb : lookup k (stateAfter p init ins).buf with
    | none =>
      have h0 : clsOf k (events p (stateAfter p init ins) [.tick]) = [] := by
        simp only [events, run, step, arm, finish]
        split
        · split
          · simp only [List.append_nil]; exact clsOf_map_toEvent_of_none hb
          · rfl
        · split
          · simp only [List.append_nil]; exact clsOf_map_toEvent_of_none hb
          · rfl
      rw [h0, List.append_nil]; exact te.2.2 ho hb
    | some b =>
      have hbm : b = maxCl (offered k ins) := hs.agree k _ b hc hb
      have hne : (stateAfter p init ins).bufCount ≠ 0 := by
        intro h0; have := hs.count h0; rw [this] at hb; simp [lookup] at hb
      have h1 : clsOf k (events p (stateAfter p init ins) [.tick]) = [b] := by
        simp only [events, run, step, arm, finish, hne, ne_eq, not_false_eq_true, if_true,
          List.append_nil]
        exact clsOf_map_toEvent_of_some hs.bufNodup hb
      rw [h1, hbm]; simp
  obtain ⟨e, he, hcl⟩ := clsOf_getLast k _ _ hlast
  refine ⟨e, he, hcl, ?_⟩
  have hmem : e ∈ events p init (ins ++ [.tick]) := by
    unfold lastEventOf at he
    exact (List.mem_filter.1 (List.mem_of_getLast? he)).1
  rw [← hcl]; exact event_kind_is_parity p init _ e hmem

/-- **"… exactly when the row no longer exists" — the delivery assumptions made explicit.**
`rowCl` is the causal length of the row on this node when the run ends, `rowAbsent` whether the row
is missing from the table.  Assumed (and validated by the correspondence on the real database, not
proved here):
 (A1) cr-sqlite: the row is absent iff its causal length is even;
 (A2) delivery: the highest causal length delivered to the feed for `k` IS the row's current causal
      length — every committed change of the row (local or merged) reached `match_changes` after the
      listener attached and none is still pending, each candidate carries the causal length its
      version gave the row (or a later one), and a row's causal length never decreases;
 (A3) horizon: the key was never evicted from `cl_cache`.
Then the last notification says "deleted" exactly when the row no longer exists. -/
theorem deleted_iff_row_absent (p : Params) (ins : List In) (k : Key) (rowCl : Nat) (rowAbsent : Prop)
    (hA1 : rowAbsent ↔ rowCl % 2 = 0)
    (hA2 : maxCl (offered k ins) = rowCl)
    (hA3 : keptThroughout p k init ins = true) (ho : offered k ins ≠ []) :
    ∃ e, lastEventOf k (events p init (ins ++ [.tick])) = some e ∧ (e.kind = .delete ↔ rowAbsent) := by
  obtain ⟨e, he, _, hk⟩ := parity_is_fate p ins k hA3 ho
  exact ⟨e, he, by rw [hk, hA2, hA1]⟩

/-! ### a sufficient condition for the horizon hypothesis -/

/-- **Horizon, simplest sufficient condition.** A run that delivers at most `cap` candidates in
total never evicts anything, so `parity_is_fate` / `no_stale_partial` apply to all of its keys.
(The real horizon is wider: a key is evicted only after the cache grew beyond `cap` entries with at
least `keep` keys inserted after it.) -/
theorem kept_of_few_candidates (p : Params) (k : Key) (ins : List In) (h : candCount ins ≤ p.cap) :
    keptThroughout p k init ins = true :=
  kept_of_room p k ins init (by simpa [init] using h)

/-! ### outside the horizon: the code as it stands violates the property -/

/-- capacity 4, keep the newest 2, flush threshold 1000 (as in the code) -/
def small : Params := ⟨4, 2, 1000⟩

/-- key 0 is re-inserted (cl 3) and notified; four other keys push it out of the cache; the batch of
the earlier delete (cl 2), which committed BEFORE the re-insert but whose notifier ran late, arrives -/
def staleTrace : List In :=
  [.batch [(0, 3)], .tick,
   .batch [(1, 1)], .batch [(2, 1)], .batch [(3, 1)], .batch [(4, 1)],
   .batch [(0, 2)]]

/-- **Counterexample to the full-strength property (F10).** With the real eviction rule (capacity
4 / keep 2): the stale `Delete` of key 0 (causal length 2) is emitted AFTER the `Update` of causal
length 3, it is the last event of the key, and the highest causal length delivered is 3 (the row
exists). -/
theorem stale_after_eviction_counterexample :
    clsOf 0 (events small init staleTrace) = [3, 2] ∧
    lastEventOf 0 (events small init staleTrace) = some ⟨0, .delete, 2⟩ ∧
    maxCl (offered 0 staleTrace) = 3 ∧
    keptThroughout small 0 init staleTrace = false := by decide

/-- before the first flush: key 0 (cached first, position 0) is updated to cl 3 in the very batch
whose new key makes the cache overflow — recency of UPDATE does not protect it, positions are by
first insertion — then the late batch with cl 2 overwrites the buffered cl 3 -/
def lostTrace : List In :=
  [.batch [(0, 1)], .batch [(1, 1)], .batch [(2, 1)], .batch [(3, 1)],
   .batch [(0, 3), (4, 1)],
   .batch [(0, 2)], .tick]

/-- **Second counterexample (buffered phase).** The notification of the newer state (cl 3) is never
emitted at all: the only event for key 0 is the stale `Delete`. -/
theorem newer_lost_after_eviction_counterexample :
    clsOf 0 (events small init lostTrace) = [2] ∧
    lastEventOf 0 (events small init lostTrace) = some ⟨0, .delete, 2⟩ ∧
    maxCl (offered 0 lostTrace) = 3 := by decide

/-- the same trace shape for any capacity: notify cl 3 of key 0, one batch of `cap` other keys, then
the late cl 2 -/
def staleTraceFor (p : Params) : List In :=
  [.batch [(0, 3)], .tick, .batch (fill p.cap), .batch [(0, 2)]]

/-- **The hole for every capacity.** For all parameters with `1 ≤ cap`, `keep ≤ cap` (any threshold): after
the notification of causal length 3 for key 0, ONE batch of `cap` other keys evicts key 0 from the
cache, and the late batch with the older causal length 2 is notified after the newer one.  With the
compiled constants this is the replay pinned in `corpus/C14/` (2000 keys between the reordered
pair). -/
theorem stale_after_eviction_general (p : Params) (hcap : 1 ≤ p.cap) (hk : p.keep ≤ p.cap) :
    clsOf 0 (events p init (staleTraceFor p)) = [3, 2] ∧
    maxCl (offered 0 (staleTraceFor p)) = 3 := by
  constructor
  · -- after `[batch [(0,3)], tick]`
    have h2 : run p init [.batch [(0, 3)], .tick] =
        ({ cache := [(0, 3)], buf := [], bufCount := 0, process := true }, [⟨0, .update, 3⟩]) := by
      by_cases ht : 1 ≥ p.thr
      · simp [run, step, arm, finish, init, pushCand, stale, lookup, upsert, evict, ht, toEvent, kindOf]
        intro h; omega
      · simp [run, step, arm, finish, init, pushCand, stale, lookup, upsert, evict, ht, toEvent, kindOf]
        intro h; omega
    -- the big batch
    let s1 : St := { cache := [(0, 3)], buf := [], bufCount := 0, process := true }
    have hfold : (fill p.cap).foldl pushCand s1 =
        { s1 with cache := (0, 3) :: fill p.cap, buf := fill p.cap, bufCount := 0 + (fill p.cap).length } := by
      rw [fold_fresh _ _ (fill_keys_nodup _)]
      · simp [s1]
      · intro k hkm
        have : k ≠ 0 := by intro e; subst e; exact zero_not_in_fill _ hkm
        simp [s1, this]
    have hlen : (fill p.cap).length = p.cap := by simp [fill]
    have hev : evict p ((0, 3) :: fill p.cap) = (fill p.cap).drop (p.cap - p.keep) := by
      unfold evict
      simp only [List.length_cons, hlen]
      rw [if_pos (by omega)]
      have : p.cap + 1 - p.keep = (p.cap - p.keep) + 1 := by omega
      rw [this, List.drop_succ_cons]
    have h3 : step p s1 (.batch (fill p.cap)) =
        ({ cache := (fill p.cap).drop (p.cap - p.keep), buf := [], bufCount := 0, process := true },
          (fill p.cap).map toEvent) := by
      simp only [step, arm, hfold, hev, finish]
      split <;> simp [s1]
    let s2 : St := { cache := (fill p.cap).drop (p.cap - p.keep), buf := [], bufCount := 0, process := true }
    have h4 : step p s2 (.batch [(0, 2)]) =
        ({ s2 with cache := evict p ((fill p.cap).drop (p.cap - p.keep) ++ [(0, 2)]) }, [⟨0, .delete, 2⟩]) := by
      have hst : stale s2 (0, 2) = false := by
        unfold stale; simp only [s2]; rw [lookup_zero_drop_fill]
      have hnm : (0 : Nat) ∉ ((fill p.cap).drop (p.cap - p.keep)).map (·.1) :=
        (lookup_eq_none_iff _ _).1 (lookup_zero_drop_fill _ _)
      simp only [step, arm, List.foldl_cons, List.foldl_nil, pushCand, hst, Bool.false_eq_true, if_false]
      simp only [s2, upsert_of_not_mem hnm, upsert, finish]
      split <;> simp [toEvent, kindOf]
    have : events p init (staleTraceFor p) =
        [⟨0, .update, 3⟩] ++ ((fill p.cap).map toEvent ++ [⟨0, .delete, 2⟩]) := by
      have hsplit : staleTraceFor p = [.batch [(0, 3)], .tick] ++ [.batch (fill p.cap), .batch [(0, 2)]] := rfl
      rw [hsplit, events_append]
      simp only [events, stateAfter, h2]
      simp only [run]
      rw [show ({ cache := [(0, 3)], buf := [], bufCount := 0, process := true } : St) = s1 from rfl, h3]
      simp only
      rw [show ({ cache := (fill p.cap).drop (p.cap - p.keep), buf := [], bufCount := 0, process := true } : St) = s2 from rfl, h4]
      simp
    rw [this, clsOf_append, clsOf_append, clsOf_zero_fill]
    simp [clsOf]
  · simp only [staleTraceFor, offered, List.flatMap_cons, List.flatMap_nil, offeredIn]
    have : ((fill p.cap).filter (fun x => decide (x.1 = 0))) = [] := by
      rw [List.filter_eq_nil_iff]
      intro a ha; simp only [decide_eq_true_eq]
      intro e; exact zero_not_in_fill p.cap (e ▸ List.mem_map_of_mem (f := (·.1)) ha)
    simp [this, maxCl]

/-- **The hole with the compiled constants** (the pinned replay `corpus/C14/f10_stale_after_eviction.ops`:
2000 other keys between the reordered pair; re-checked against the regenerated constants). -/
theorem stale_after_eviction_code_params :
    clsOf 0 (events codeParams init (staleTraceFor codeParams)) = [3, 2] ∧
    maxCl (offered 0 (staleTraceFor codeParams)) = 3 :=
  stale_after_eviction_general codeParams (by decide) (by decide)

/-! ### the hypotheses are satisfiable by non-trivial inputs -/

/-- a history inside the horizon: insert / delete / re-insert of key 7 delivered OUT OF ORDER
(cl 3 first, then the stale 2 and 1, then an update at cl 3), another key in between -/
def okTrace : List In :=
  [.batch [(7, 3), (8, 1)], .batch [(7, 2)], .tick, .batch [(7, 1), (8, 2)], .batch [(7, 3)]]

example : keptThroughout small 7 init okTrace = true := by decide
example : offered 7 okTrace = [3, 2, 1, 3] := by decide
example : clsOf 7 (events small init (okTrace ++ [.tick])) = [3, 3] := by decide
example : lastEventOf 7 (events small init (okTrace ++ [.tick])) = some ⟨7, .update, 3⟩ := by decide
example : lastEventOf 8 (events small init (okTrace ++ [.tick])) = some ⟨8, .delete, 2⟩ := by decide
example : candCount okTrace ≤ 1000 := by decide
/-- hypotheses of `every_key_notified`: distinct keys, fresh candidate -/
example : ((([(7, 3), (8, 1)] : List Cand).map (·.1)).Nodup) ∧
    stale (stateAfter small init []) (7, 3) = false := by decide
/-- hypothesis of `suppressed_only_by_newer`: the stale `(7, 2)` is skipped after `(7, 3)` -/
example : stale (stateAfter small init [.batch [(7, 3), (8, 1)]]) (7, 2) = true := by decide
/-- the re-read producer: a version `[(5,1),(5,1),(4,2)]` of which only the cells of key 4 are still live -/
example : rereadBatch true [⟨true, 4, 2⟩] = some [(4, 2)] ∧ rereadBatch false [⟨true, 4, 2⟩] = none ∧
    UniformCl [⟨true, 5, 1⟩, ⟨true, 5, 1⟩, ⟨true, 4, 2⟩] := by
  refine ⟨by decide, by decide, ?_⟩; unfold UniformCl; decide
/-- first causal length per key, other tables ignored -/
example : filterChanges [⟨true, 5, 1⟩, ⟨false, 6, 1⟩, ⟨true, 5, 2⟩, ⟨true, 4, 2⟩] = [(5, 1), (4, 2)] := by decide
/-- the sticky `process` flag: after the first flush every batch is flushed at once -/
example : events small init [.batch [(1, 1)], .tick, .batch [(2, 1)]] =
    [⟨1, .update, 1⟩, ⟨2, .update, 1⟩] := by decide
/-- inside the horizon window the older state is suppressed, outside (after the eviction) it is not -/
example : horizonCls small 0 init staleTrace = [3] := by decide

end Corro.Updates
