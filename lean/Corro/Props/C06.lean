/-
C06 — a crash at any point loses no acknowledged write and no sync obligation.
Property theorems only, about `Node.restart` / `Node.fromConn` / `Node.knownActors` / `Node.kill`
of the executable node model `Corro/Model/Node.lean` (`from_conn` for every discovered actor,
re-scheduling of fully buffered versions; a crash is `Node.kill`: the durable fields `db`, `seqRows`,
`buf`, `dbv` — and the gap rows, which the model keeps as the committed `needed` — survive, the
apply loop is gone, and `restart` forgets the in-memory bookkeeping).  Helper definitions and lemmas:
`Corro/Lemmas/NodeRestart.lean` (`restartTasks`, `applyTask`, `reloaded`, `bufOf`, `LoadInv`),
`NodeSeq.lean` (`SeqMem`, `rowsOf`), `NodeConsistent.lean` (`Consistent`).
-/
import Corro.Lemmas.NodeRestart
import Corro.Lemmas.NodeEx

namespace Corro.Node
open Corro.Crdt

/-! ### actor discovery -/

/-- **C06 (the actor-discovery fix).**  Every actor that has a db-version row, a sequence row, or a
non-empty `needed` set (gap rows) is reloaded at start — and nobody else is. -/
theorem known_actors_complete (n : Node) (a : Nat) :
    a ∈ n.knownActors ↔
      (∃ e ∈ n.dbv, e.1 = a) ∨ (∃ r ∈ n.seqRows, r.site = a) ∨
        (∃ e ∈ n.book, e.1 = a ∧ e.2.needed.isEmpty = false) :=
  mem_knownActors

/-- the discovered actors are listed once each, in increasing order (so the reloaded bookkeeping is
a map) -/
theorem known_actors_sorted (n : Node) : n.knownActors.Pairwise (fun x y => x < y) :=
  knownActors_sorted n

/-- the discovery query before the fix: sites with a winning change in the store
(`crsql_site_id` with `ordinal > 0`) ∪ sites with sequence rows -/
def preFixActors (n : Node) : List Nat :=
  dedupSorted (n.db.changes.map (·.site) ++ n.seqRows.map (·.site))

/-- **C06 (`restart_forgets_actor_counterexample` of DESIGN §4, now fixed).**  A node that knows
actor 1 only through a cleared version range has a db-version row for it, no winning change and no
sequence row: the pre-fix discovery set misses the actor, the fixed one reloads it with the right
head. -/
example : Ex.clearedOnly.dbv = [(1, 2)] ∧ preFixActors Ex.clearedOnly = [] ∧
    Ex.clearedOnly.knownActors = [1] ∧ (Ex.clearedOnly.restart).syncState = Ex.clearedOnly.syncState ∧
    Ex.clearedOnly.syncState.heads = [(1, 2)] := by decide

/-- the same for an actor known only through gap rows and a LOSING version: node 9 holds a newer
value of the row, version 2 of actor 1 loses on merge, version 1 is still needed -/
example :
    let n := ((Node.fresh 9).deliver [Item.full 7 1 0 0 0 [⟨"t", "1", "a", .int 5, 3, 1, 7, 1, 0⟩]]).deliver
      [Item.full 1 2 0 0 0 [⟨"t", "1", "a", .int 1, 1, 1, 1, 2, 0⟩]]
    preFixActors n = [7] ∧ n.knownActors = [1, 7] ∧ (n.booked 1).needed = [(1, 1)] ∧
    (n.restart).syncState = n.syncState := by decide

/-! ### re-scheduling of fully buffered versions -/

/-- **C06 ("Versions that were completely buffered but not yet applied are applied after
restart").**  For ANY node state: `restart` reloads the bookkeeping and then runs one
`process_fully_buffered_changes` per task of `restartTasks n`, where

* the tasks are exactly the `(actor, version)` pairs of discovered actors whose reloaded partial
  is complete;
* each task merges the buffered rows of its version sorted by seq into the store and deletes them
  (`applyTask`), in task order;
* afterwards no sequence row and no buffered row of a task's version is left, and every other
  durable row is kept;
* the apply loop is running again. -/
theorem restart_reschedules (n : Node) :
    (∀ a v, (a, v) ∈ restartTasks n ↔
      a ∈ n.knownActors ∧ ∃ p, (n.fromConn a).partial? v = some p ∧ p.complete = true) ∧
    ((n.restart).db, (n.restart).buf) = (restartTasks n).foldl applyTask (n.db, n.buf) ∧
    (∀ r, r ∈ (n.restart).seqRows ↔
      r ∈ n.seqRows ∧ ∀ t ∈ restartTasks n, ¬ (r.site = t.1 ∧ r.ver = t.2)) ∧
    (∀ c, c ∈ (n.restart).buf ↔
      c ∈ n.buf ∧ ∀ t ∈ restartTasks n, ¬ (c.site = t.1 ∧ c.dbv = t.2)) ∧
    (n.restart).alive = true := by
  obtain ⟨h1, h2, h3⟩ := restart_effect n
  refine ⟨fun a v => mem_restartTasks, h1, ?_, ?_, h3⟩
  · intro r; rw [h2]; exact mem_foldl_filter_rows _ _
  · intro c
    have : (n.restart).buf = ((restartTasks n).foldl applyTask (n.db, n.buf)).2 := by rw [← h1]
    rw [this]; exact applyTask_foldl_buf _ _

/-- **C06 (which versions are re-scheduled).**  A version whose sequence rows (forward, all
carrying the same `last_seq = L`) cover `0..=L` is a task of the restart: its actor is discovered
(it has sequence rows) and `from_conn` rebuilds a complete partial for it. -/
theorem restart_reschedules_covered (n : Node) (a v L : Nat) (hf : n.ActorRowsForward a)
    (hex : ∃ r ∈ n.seqRows, r.site = a ∧ r.ver = v)
    (hlast : ∀ r ∈ n.seqRows, r.site = a → r.ver = v → r.last = L)
    (hcov : ∀ x, x ≤ L → SeqMem n.seqRows a v x) :
    (a, v) ∈ restartTasks n := by
  refine mem_restartTasks.mpr ⟨?_, fromConn_complete_of_covered n a v L hf hex hlast hcov⟩
  obtain ⟨r, hr, hs, _⟩ := hex
  exact mem_knownActors.mpr (Or.inr (Or.inl ⟨r, hr, hs⟩))

/-- conversely a version with an uncovered point of `0..=L` is not re-scheduled (it stays partial) -/
theorem restart_not_rescheduled_if_gap (n : Node) (a v L x : Nat) (hf : n.ActorRowsForward a)
    (hlast : ∀ r ∈ n.seqRows, r.site = a → r.ver = v → r.last = L)
    (hx : x ≤ L) (hgap : ¬ SeqMem n.seqRows a v x) : (a, v) ∉ restartTasks n := by
  intro ht
  obtain ⟨_, p, hp, hc⟩ := mem_restartTasks.mp ht
  obtain ⟨hw, hm, r, hr, h1, h2, h3⟩ := fromConn_partial_spec n a v hf hp
  have := (complete_iff hw).mp hc x (by rw [h3, hlast r hr h1 h2]; exact hx)
  exact hgap ((hm x).mp this)

/-- the one-task case spelled out: if `(a, v)` is the only fully buffered version, the restarted
store is the old store with the buffered rows of `(a, v)` merged in seq order -/
theorem restart_reschedules_single (n : Node) (a v : Nat) (h : restartTasks n = [(a, v)]) :
    (n.restart).db = mergeAll n.db (sortBySeq (bufOf n.buf a v)) ∧
    (n.restart).buf = n.buf.filter (fun c => !decide (c.site = a ∧ c.dbv = v)) := by
  obtain ⟨h1, _, _⟩ := restart_effect n
  rw [h] at h1
  simp only [List.foldl_cons, List.foldl_nil, applyTask, Prod.mk.injEq] at h1
  exact h1

/-- nothing fully buffered: restart does not touch the durable state -/
theorem restart_reschedules_none (n : Node) (h : restartTasks n = []) :
    (n.restart).db = n.db ∧ (n.restart).buf = n.buf ∧ (n.restart).seqRows = n.seqRows := by
  obtain ⟨h1, h2, _⟩ := restart_effect n
  rw [h] at h1 h2
  simp only [List.foldl_nil, Prod.mk.injEq] at h1 h2
  exact ⟨h1.1, h1.2, h2⟩

namespace Ex

/-- `pending` (`Lemmas/NodeEx.lean`): the node crashed after storing the last chunk of version 3
and before applying it — version 3 is fully buffered (rows `0..=3`, four buffered changes), its
changes are not in the store; restart finds the task, applies it and clears the rows -/
example : pending.alive = false ∧ pending.seqRows = [⟨1, 3, 0, 3, 3⟩] ∧ pending.buf = v3 ∧
    (pending.live 1 3).isEmpty = true ∧ pending.ActorRowsForward 1 ∧
    restartTasks pending = [(1, 3)] ∧
    (pending.restart).live 1 3 = v3 ∧ (pending.restart).seqRows = [] ∧ (pending.restart).buf = [] := by
  refine ⟨by decide, by decide, by decide, by decide, ?_, by decide, by decide, by decide, by decide⟩
  intro r hr; revert r; decide

/-- `srv` holds version 3 only in part: no task, restart leaves the durable state alone and the
rebuilt sync state is the one before -/
example : restartTasks srv = [] ∧ (srv.restart).syncState = srv.syncState := by decide

end Ex

end Corro.Node
