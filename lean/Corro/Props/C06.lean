/-
C06 — a crash at any point loses no acknowledged write and no sync obligation.
Property theorems only, about `Node.restart` / `Node.fromConn` / `Node.knownActors` / `Node.kill`
of the executable node model `Corro/Model/Node.lean` (`from_conn` for every discovered actor,
re-scheduling of fully buffered versions; a crash is `Node.kill`: the durable fields `db`, `seqRows`,
`buf`, `dbv` — and the gap rows, which the model keeps as the committed `needed` — survive, the
apply loop is gone, and `restart` forgets the in-memory bookkeeping).  Helper definitions and lemmas:
`Corro/Lemmas/NodeRestart.lean` (`restartTasks`, `applyTask`, `reloaded`, `bufOf`, `LoadInv`),
`NodeSeq.lean` (`SeqMem`, `rowsOf`), `NodeConsistent.lean` (`ItemWF`, `ConsP`/`ConsA`, `Consistent`,
`NoPending`, `HasRows`), `NodeTx.lean`/`NodeCommit.lean`/`NodeActor.lean`/`NodeDeliverCons.lean`
(preservation by `deliver`), `NodeRoundtrip.lean`, `NodeSync.lean`, `NodeCrash.lean`.

**`Consistent L n`** ("the durable state is consistent with the memory"; `L actor version` is the
true `last_seq` of every version) says, for every actor `a` with in-memory bookkeeping
`b = n.booked a` (`ConsA L n a`, fields of `ConsP` with no clear job pending):
* the partials of `b` have canonical seq ranges and are sorted by version; the actor map is sorted;
* every sequence row of `a` is forward and carries `last_seq = L a ver`; so does every partial;
* a version with sequence rows has a partial whose seq set is exactly the points of its rows;
* a partial without sequence rows is complete (it was applied and its rows cleared);
* every buffered row of `a` lies inside a sequence row of its version;
* `b.max` is the maximum of `a`'s db-version row and the versions that have sequence rows;
* `b.needed` is canonical and no version with a partial is needed or above `b.max`.
It is what `localWrite`, `deliver` (for `ItemWF L` inputs), the background applies and `restart`
maintain (`fresh_consistent`, `localWrite_consistent`, `deliver_consistent`, `restart_consistent`).
-/
import Corro.Lemmas.NodeExFacts

namespace Corro.Node
open Corro.Crdt

/-! ### actor discovery -/

/-- **C06 (the actor-discovery fix).**  Every actor that has a db-version row, a sequence row, or a
non-empty `needed` set (gap rows) is reloaded at start — and nobody else is. -/
theorem known_actors_complete (n : Node) (a : Nat) :
    a ∈ n.knownActors ↔
      (∃ e ∈ n.dbv, e.1 = a) ∨ (∃ r ∈ n.seqRows, r.site = a) ∨
        (∃ e ∈ n.book, e.1 = a ∧ e.2.needed.isEmpty = false) :=
  mem_knownActors

/-- the discovered actors are listed once each, in increasing order (so the reloaded bookkeeping is
a map) -/
theorem known_actors_sorted (n : Node) : n.knownActors.Pairwise (fun x y => x < y) :=
  knownActors_sorted n

/-- the discovery query before the fix: sites with a winning change in the store
(`crsql_site_id` with `ordinal > 0`) ∪ sites with sequence rows -/
def preFixActors (n : Node) : List Nat :=
  dedupSorted (n.db.changes.map (·.site) ++ n.seqRows.map (·.site))

/-- **C06 (`restart_forgets_actor_counterexample` of DESIGN §4, now fixed).**  A node that knows
actor 1 only through a cleared version range has a db-version row for it, no winning change and no
sequence row: the pre-fix discovery set misses the actor, the fixed one reloads it with the right
head. -/
example : Ex.clearedOnly.dbv = [(1, 2)] ∧ preFixActors Ex.clearedOnly = [] ∧
    Ex.clearedOnly.knownActors = [1] ∧ (Ex.clearedOnly.restart).syncState = Ex.clearedOnly.syncState ∧
    Ex.clearedOnly.syncState.heads = [(1, 2)] := by decide

/-- the same for an actor known only through gap rows and a LOSING version: node 9 holds a newer
value of the row, version 2 of actor 1 loses on merge, version 1 is still needed -/
example :
    let n := ((Node.fresh 9).deliver [Item.full 7 1 0 0 0 [⟨"t", "1", "a", .int 5, 3, 1, 7, 1, 0⟩]]).deliver
      [Item.full 1 2 0 0 0 [⟨"t", "1", "a", .int 1, 1, 1, 1, 2, 0⟩]]
    preFixActors n = [7] ∧ n.knownActors = [1, 7] ∧ (n.booked 1).needed = [(1, 1)] ∧
    (n.restart).syncState = n.syncState := by decide

/-! ### re-scheduling of fully buffered versions -/

/-- **C06 ("Versions that were completely buffered but not yet applied are applied after
restart").**  For ANY node state: `restart` reloads the bookkeeping and then runs one
`process_fully_buffered_changes` per task of `restartTasks n`, where

* the tasks are exactly the `(actor, version)` pairs of discovered actors whose reloaded partial
  is complete;
* each task merges the buffered rows of its version sorted by seq into the store and deletes them
  (`applyTask`), in task order;
* afterwards no sequence row and no buffered row of a task's version is left, and every other
  durable row is kept;
* the apply loop is running again. -/
theorem restart_reschedules (n : Node) :
    (∀ a v, (a, v) ∈ restartTasks n ↔
      a ∈ n.knownActors ∧ ∃ p, (n.fromConn a).partial? v = some p ∧ p.complete = true) ∧
    ((n.restart).db, (n.restart).buf) = (restartTasks n).foldl applyTask (n.db, n.buf) ∧
    (∀ r, r ∈ (n.restart).seqRows ↔
      r ∈ n.seqRows ∧ ∀ t ∈ restartTasks n, ¬ (r.site = t.1 ∧ r.ver = t.2)) ∧
    (∀ c, c ∈ (n.restart).buf ↔
      c ∈ n.buf ∧ ∀ t ∈ restartTasks n, ¬ (c.site = t.1 ∧ c.dbv = t.2)) ∧
    (n.restart).alive = true := by
  obtain ⟨h1, h2, h3⟩ := restart_effect n
  refine ⟨fun a v => mem_restartTasks, h1, ?_, ?_, h3⟩
  · intro r; rw [h2]; exact mem_foldl_filter_rows _ _
  · intro c
    have : (n.restart).buf = ((restartTasks n).foldl applyTask (n.db, n.buf)).2 := by rw [← h1]
    rw [this]; exact applyTask_foldl_buf _ _

/-- **C06 (which versions are re-scheduled).**  A version whose sequence rows (forward, all
carrying the same `last_seq = L`) cover `0..=L` is a task of the restart: its actor is discovered
(it has sequence rows) and `from_conn` rebuilds a complete partial for it. -/
theorem restart_reschedules_covered (n : Node) (a v L : Nat) (hf : n.ActorRowsForward a)
    (hex : ∃ r ∈ n.seqRows, r.site = a ∧ r.ver = v)
    (hlast : ∀ r ∈ n.seqRows, r.site = a → r.ver = v → r.last = L)
    (hcov : ∀ x, x ≤ L → SeqMem n.seqRows a v x) :
    (a, v) ∈ restartTasks n := by
  refine mem_restartTasks.mpr ⟨?_, fromConn_complete_of_covered n a v L hf hex hlast hcov⟩
  obtain ⟨r, hr, hs, _⟩ := hex
  exact mem_knownActors.mpr (Or.inr (Or.inl ⟨r, hr, hs⟩))

/-- conversely a version with an uncovered point of `0..=L` is not re-scheduled (it stays partial) -/
theorem restart_not_rescheduled_if_gap (n : Node) (a v L x : Nat) (hf : n.ActorRowsForward a)
    (hlast : ∀ r ∈ n.seqRows, r.site = a → r.ver = v → r.last = L)
    (hx : x ≤ L) (hgap : ¬ SeqMem n.seqRows a v x) : (a, v) ∉ restartTasks n := by
  intro ht
  obtain ⟨_, p, hp, hc⟩ := mem_restartTasks.mp ht
  obtain ⟨hw, hm, r, hr, h1, h2, h3⟩ := fromConn_partial_spec n a v hf hp
  have := (complete_iff hw).mp hc x (by rw [h3, hlast r hr h1 h2]; exact hx)
  exact hgap ((hm x).mp this)

/-- the one-task case spelled out: if `(a, v)` is the only fully buffered version, the restarted
store is the old store with the buffered rows of `(a, v)` merged in seq order -/
theorem restart_reschedules_single (n : Node) (a v : Nat) (h : restartTasks n = [(a, v)]) :
    (n.restart).db = mergeAll n.db (sortBySeq (bufOf n.buf a v)) ∧
    (n.restart).buf = n.buf.filter (fun c => !decide (c.site = a ∧ c.dbv = v)) := by
  obtain ⟨h1, _, _⟩ := restart_effect n
  rw [h] at h1
  simp only [List.foldl_cons, List.foldl_nil, applyTask, Prod.mk.injEq] at h1
  exact h1

/-- nothing fully buffered: restart does not touch the durable state -/
theorem restart_reschedules_none (n : Node) (h : restartTasks n = []) :
    (n.restart).db = n.db ∧ (n.restart).buf = n.buf ∧ (n.restart).seqRows = n.seqRows := by
  obtain ⟨h1, h2, _⟩ := restart_effect n
  rw [h] at h1 h2
  simp only [List.foldl_nil, Prod.mk.injEq] at h1 h2
  exact ⟨h1.1, h1.2, h2⟩

namespace Ex

/-- `pending` (`Lemmas/NodeEx.lean`): the node crashed after storing the last chunk of version 3
and before applying it — version 3 is fully buffered (rows `0..=3`, four buffered changes), its
changes are not in the store; restart finds the task, applies it and clears the rows -/
example : pending.alive = false ∧ pending.seqRows = [⟨1, 3, 0, 3, 3⟩] ∧ pending.buf = v3 ∧
    (pending.live 1 3).isEmpty = true ∧ pending.ActorRowsForward 1 ∧
    restartTasks pending = [(1, 3)] ∧
    (pending.restart).live 1 3 = v3 ∧ (pending.restart).seqRows = [] ∧ (pending.restart).buf = [] := by
  refine ⟨by decide, by decide, by decide, by decide, ?_, by decide, by decide, by decide, by decide⟩
  intro r hr; revert r; decide

/-- `srv` holds version 3 only in part: no task, restart leaves the durable state alone and the
rebuilt sync state is the one before -/
example : restartTasks srv = [] ∧ (srv.restart).syncState = srv.syncState := by decide

end Ex

/-! ### the invariant `Consistent` is maintained -/

/-- a fresh node is consistent -/
theorem fresh_consistent' (L : Nat → Nat → Nat) (i : Nat) : Consistent L (Node.fresh i) :=
  fresh_consistent L i

/-- **C06 ("every local transaction it acknowledged …": the local write keeps memory and durable
state together).**  `localWrite` preserves `Consistent`. -/
theorem localWrite_consistent {L : Nat → Nat → Nat} {n n' : Node} {stmts : List Stmt}
    {out : Option (Nat × List Chg)} (hc : Consistent L n) (h : n.localWrite stmts = .ok (n', out)) :
    Consistent L n' :=
  localWrite_consistent' hc h

/-- **C06 (every remote delivery — complete, partial, empty, any batch, any actors — keeps memory
and durable state together).**  `deliver` (one `process_multiple_changes` batch, its clear jobs
and, on an alive node, its re-applies) preserves `Consistent`, for inputs that are well formed
relative to the versions' true `last_seq` (`ItemWF L`).  The node may be dead or alive. -/
theorem deliver_consistent {L : Nat → Nat → Nat} {n : Node} (hc : Consistent L n) (batch : List Item)
    (hwf : ∀ it ∈ batch, ItemWF L it) : Consistent L (n.deliver batch) :=
  deliver_consistent' hc batch hwf

/-- an alive node on which every complete partial has been applied (`NoPending`) is in the same
situation after `deliver` -/
theorem deliver_noPending {L : Nat → Nat → Nat} {n : Node} (hc : Consistent L n) (batch : List Item)
    (hwf : ∀ it ∈ batch, ItemWF L it) (hal : n.alive = true) (hnp : NoPending n) :
    NoPending (n.deliver batch) :=
  deliver_noPending' hc batch hwf hal hnp

/-- **C06 (restart).**  The restarted node is consistent, alive, and has nothing pending. -/
theorem restart_consistent {L : Nat → Nat → Nat} {n : Node} (hc : Consistent L n) :
    Consistent L n.restart ∧ NoPending n.restart ∧ (n.restart).alive = true :=
  ⟨restart_consistent' hc, restart_noPending hc, (restart_effect n).2.2⟩

/-- a crash (`kill`) does not touch what `Consistent` speaks about -/
theorem kill_consistent {L : Nat → Nat → Nat} {n : Node} (hc : Consistent L n) : Consistent L n.kill :=
  hc.kill

/-! ### the sync state rebuilt after a crash -/

/-- **C06 ("the sync state it rebuilds advertises as held only versions whose changes are durably
stored, while every version it lacks is again listed as needed, partial or beyond its head").**
For a consistent node — dead or alive, with or without fully buffered versions waiting for their
apply — the restart rebuilds, actor by actor:
* the same head, and it is the maximum of the actor's db-version row and the versions that have
  sequence rows;
* the same `needed`;
* for a version with sequence rows, the partial that was in memory; for a version without, none
  (in memory there may be a complete, applied partial — it is not advertised either);
and therefore **literally the same sync state** `generate_sync` gave before the crash. -/
theorem restart_roundtrip {L : Nat → Nat → Nat} {n : Node} (hc : Consistent L n) :
    (n.restart).syncState = n.syncState ∧
    ∀ a, ((n.restart).booked a).max = (n.booked a).max ∧
      (dbvOf n a ≤ (n.booked a).max ∧ (∀ r ∈ n.seqRows, r.site = a → r.ver ≤ (n.booked a).max) ∧
        ((n.booked a).max ≤ dbvOf n a ∨ ∃ r ∈ n.seqRows, r.site = a ∧ (n.booked a).max ≤ r.ver)) ∧
      ((n.restart).booked a).needed = (n.booked a).needed ∧
      (∀ v, HasRows n a v → ((n.restart).booked a).partial? v = (n.booked a).partial? v) ∧
      (∀ v, ¬ HasRows n a v → ((n.restart).booked a).partial? v = none) := by
  refine ⟨restart_syncState hc, ?_⟩
  intro a
  rw [restart_booked hc]
  obtain ⟨h1, h2, h3, h4, _, _⟩ := reloaded_spec hc a
  have ha := hc.actor a
  refine ⟨h1, ⟨ha.dbv_le, ha.rows_le, ?_⟩, h2, h3, h4⟩
  rcases ha.max_att with h5 | ⟨r, hr, hs, h5, _⟩
  · exact Or.inl h5
  · exact Or.inr ⟨r, hr, hs, h5⟩

/-- "`m` counts `(a, v)` as held": at or below the head, not needed, not an incomplete partial -/
def Held (m : Node) (a v : Nat) : Prop :=
  v ≤ (m.booked a).max ∧ ¬ RSet.Mem (m.booked a).needed v ∧
    ∀ p, (m.booked a).partial? v = some p → p.complete = true

/-- **C06 (`restart_never_claims_unheld`).**  The restarted node counts a version as held iff the
node before the crash did; and the store after the restart is the store before with the fully
buffered versions (`restartTasks n`) applied — nothing else changed, nothing is dropped. -/
theorem restart_never_claims_unheld {L : Nat → Nat → Nat} {n : Node} (hc : Consistent L n) (a v : Nat) :
    (Held n.restart a v ↔ Held n a v) ∧
    (n.restart).db = ((restartTasks n).foldl applyTask (n.db, n.buf)).1 := by
  obtain ⟨_, hrt⟩ := restart_roundtrip hc
  obtain ⟨h1, _, h2, h3, h4⟩ := hrt a
  refine ⟨?_, by rw [← (restart_effect n).1]⟩
  unfold Held
  rw [h1, h2]
  constructor
  · rintro ⟨k1, k2, k3⟩
    refine ⟨k1, k2, ?_⟩
    intro p hp
    by_cases hr : HasRows n a v
    · exact k3 p (by rw [h3 v hr]; exact hp)
    · exact (hc.actor a).norows_part v p hp hr
  · rintro ⟨k1, k2, k3⟩
    refine ⟨k1, k2, ?_⟩
    intro p hp
    by_cases hr : HasRows n a v
    · exact k3 p (by rw [← h3 v hr]; exact hp)
    · rw [h4 v hr] at hp; cases hp

/-- **C06 (`restart_keeps_obligations`: "no sync obligation is lost").**  Every version that the
node needed is needed after the restart; every version it held as an incomplete partial is the same
incomplete partial after the restart (and still has its rows); a version it held as a complete
partial with rows (fully buffered, not applied) is a restart task and has no rows afterwards. -/
theorem restart_keeps_obligations {L : Nat → Nat → Nat} {n : Node} (hc : Consistent L n) (a v : Nat) :
    (RSet.Mem ((n.restart).booked a).needed v ↔ RSet.Mem (n.booked a).needed v) ∧
    (∀ p, (n.booked a).partial? v = some p → p.complete = false →
      ((n.restart).booked a).partial? v = some p ∧ HasRows n a v) ∧
    (∀ p, (n.booked a).partial? v = some p → p.complete = true → HasRows n a v →
      (a, v) ∈ restartTasks n ∧ ¬ HasRows n.restart a v) := by
  obtain ⟨_, hrt⟩ := restart_roundtrip hc
  obtain ⟨_, _, h2, h3, _⟩ := hrt a
  refine ⟨by rw [h2], ?_, ?_⟩
  · intro p hp hinc
    have hr : HasRows n a v := by
      apply Classical.byContradiction
      intro hnr
      have := (hc.actor a).norows_part v p hp hnr
      rw [hinc] at this; cases this
    exact ⟨by rw [h3 v hr]; exact hp, hr⟩
  · intro p hp hcomp hr
    refine ⟨(mem_restartTasks_cons hc a v).mpr ⟨hr, p, hp, hcomp⟩, ?_⟩
    exact restart_noPending hc a v p (by rw [h3 v hr]; exact hp) hcomp

/-! ### a crash between the commit that stores data and the background apply -/

/-- **C06 ("a crash placed … between the commit that stores data and the in-memory update / the
apply that follows it").**  For an alive consistent node and ANY batch of well-formed changesets:
killing the node right before the delivery (so that the transaction commits, the clear jobs run,
but the background apply of the versions completed by the batch never happens) and restarting it
afterwards ends in **the same sync state** as the uninterrupted delivery. -/
theorem kill_then_deliver_then_restart {L : Nat → Nat → Nat} {n : Node} (hc : Consistent L n)
    (batch : List Item) (hwf : ∀ it ∈ batch, ItemWF L it) (hal : n.alive = true) :
    (((n.kill).deliver batch).restart).syncState = (n.deliver batch).syncState :=
  crash_syncState hc batch hwf hal

/-- … and, when the batch consists of changesets of one version `(s, v)` (any chunks of it, in any
order, with duplicates) and nothing was pending before, in **the same store**: the apply that the
crash prevented is re-scheduled by the restart and merges the same buffered rows in the same order.
(For batches completing several versions the two runs apply them in different orders — batch order
vs. `(actor, version)` order — so the stores agree as CRDT states (C01) but this literal equality of
the row lists is only claimed for one version.) -/
theorem kill_then_deliver_then_restart_db {L : Nat → Nat → Nat} {n : Node} (hc : Consistent L n)
    (batch : List Item) (hwf : ∀ it ∈ batch, ItemWF L it) (hal : n.alive = true) (hnp : NoPending n)
    (s v : Nat) (hone : ∀ it ∈ batch, it.site = s ∧ it.versions.1 = v) :
    (((n.kill).deliver batch).restart).db = (n.deliver batch).db :=
  crash_db_one hc batch hwf hal hnp s v hone

/-- what the killed node looks like in between: the transaction and the clear jobs happened, the
re-applies did not -/
theorem kill_deliver_is_preApply (n : Node) (batch : List Item) :
    (n.kill).deliver batch = (preApply n batch).kill :=
  kill_deliver n batch

namespace Ex

/-- the hypotheses of `kill_then_deliver_then_restart(_db)` hold for `srv` and the last chunk of
version 3; both runs end with version 3 applied and the same sync state -/
example : Consistent L srv ∧ srv.alive = true ∧ NoPending srv ∧
    (∀ it ∈ [Item.full 1 3 2 3 3 v3hi], ItemWF L it ∧ it.site = 1 ∧ it.versions.1 = 3) ∧
    ((srv.kill).deliver [Item.full 1 3 2 3 3 v3hi]).restart.db.rows =
      (srv.deliver [Item.full 1 3 2 3 3 v3hi]).db.rows ∧
    ((srv.deliver [Item.full 1 3 2 3 3 v3hi]).live 1 3) = v3 := by
  refine ⟨srv_consistent, by decide, srv_noPending, ?_, by decide, by decide⟩
  intro it hit
  simp only [List.mem_singleton] at hit
  subst hit
  exact ⟨⟨rfl, by decide, by decide⟩, rfl, rfl⟩

/-- why `kill_then_deliver_then_restart_db` is stated for one version: a batch that completes
versions 2 and 1 of actor 1 in that order is applied in batch order by the live node and in
`(actor, version)` order by the restart, so the row LISTS of the model differ (same rows, same
sync state, same CRDT view) -/
example :
    let c : String → Nat → Nat → Chg := fun pk v s => ⟨"t", pk, "a", .int 1, 1, 1, 1, v, s⟩
    let base := ((Node.fresh 9).deliver [Item.full 1 1 0 0 1 [c "1" 1 0]]).deliver
      [Item.full 1 2 0 0 1 [c "2" 2 0]]
    let batch := [Item.full 1 2 1 1 1 [c "2b" 2 1], Item.full 1 1 1 1 1 [c "1b" 1 1]]
    (base.deliver batch).db.rows.map (·.pk) = ["2", "2b", "1", "1b"] ∧
    ((base.kill).deliver batch).restart.db.rows.map (·.pk) = ["1", "1b", "2", "2b"] ∧
    (base.deliver batch).syncState = ((base.kill).deliver batch).restart.syncState := by decide

/-- **Observation (outside `ItemWF`): a relay that lost the tail of a version answers with a
smaller `last_seq`.**  Node 9 holds seqs 0..1 of version 3 (`last_seq = 3`, from the origin); a relay
whose live changes of version 3 end at seq 2 answers the request for `2..=2` with `last_seq = 2`.
In memory the partial keeps `last_seq = 3` and stays incomplete (seq 3 missing); the stored row
`0..=2` now carries `last_seq = 2`, so after a crash `from_conn` rebuilds a COMPLETE partial and the
restart applies seqs 0..2 and advertises version 3 as held — the obligation for seq 3 is gone.
(Harmless for convergence only because seq 3 was overwritten by a later version that the node will
also receive; `restart_keeps_obligations` assumes inputs with the true `last_seq`.) -/
example :
    let n := (srv.kill).deliver [Item.full 1 3 2 2 2 [ch "4" "a" 1 3 2]]
    ((n.booked 1).partial? 3 = some ⟨[(0, 2)], 3⟩) ∧ n.seqRows = [⟨1, 3, 0, 2, 2⟩] ∧
    n.syncState.partialNeed = [(1, [(3, [(3, 3)])])] ∧
    restartTasks n = [(1, 3)] ∧ (n.restart).syncState.partialNeed = [] ∧ (n.restart).seqRows = [] := by
  decide

end Ex

end Corro.Node
