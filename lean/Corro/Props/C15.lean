/-
C15 — schema changes are additive, atomic, idempotent and survive restart.
Property theorems only; the model is `Corro/Model/Schema.lean`, the lemmas `Corro/Lemmas/Schema.lean`.

Quantifier of the property: every sequence of schema submissions (any statements: new tables, added
columns, index changes, forbidden edits, syntax errors at any statement) against databases holding
data.  `Reachable st` = "the node got into `st` from an empty database by any sequence of
submissions, row insertions and restarts"; the single-step theorems hold for *every* state.
-/
import Corro.Lemmas.Schema

namespace Corro.Schema
open AList

/-- any state the node can be in: from the empty database, any sequence of operations -/
def Reachable (st : State) : Prop := ∃ ops : List Op, st = run State.init ops

/-- the two schemas describe the same tables: same names; per table the same ordered key, the same
columns in the same order with the same definitions, the same indexes (a map by name) -/
def SchemaSame (p m : Schema) : Prop :=
  ∀ n, match lookup n p, lookup n m with
    | some a, some b => TableSame a b
    | none, none => True
    | _, _ => False

theorem reachable_inv {st : State} (h : Reachable st) : Inv st := by
  obtain ⟨ops, rfl⟩ := h
  exact inv_run ops inv_init

theorem reachable_run {st : State} (h : Reachable st) (ops : List Op) : Reachable (run st ops) := by
  obtain ⟨ops0, rfl⟩ := h
  exact ⟨ops0 ++ ops, by simp [run, List.foldl_append]⟩

/-! ### additive -/

/-- "Applying a schema never drops a table or column, never changes a primary key or an existing
column's definition": every statement `apply_schema` executes — also the ones executed before it hits
an error — creates a table the node did not know, adds a column that did not exist and is not part of
the key, or creates/drops an index of a known table.  For all schemas. -/
theorem plan_additive (old new : Schema) : ∀ a ∈ (planSteps old new).1, a.Additive old new :=
  planSteps_additive old new

/-- the same for an accepted plan -/
theorem plan_ok_additive {old new : Schema} {acts : List Action} (h : plan old new = .ok acts) :
    ∀ a ∈ acts, a.Additive old new := by
  unfold plan at h
  split at h
  · rename_i a hp
    cases h
    intro x hx
    have := planSteps_additive old new x (by rw [hp]; exact hx)
    exact this
  · cases h

/-- Additivity on the database, for every state and submission: after an accepted submission every
table that existed still exists, with the same ordered key, its old columns as a prefix of the new
column list (same definitions, same order), and still replicated. -/
theorem submission_additive_db {st st' : State} {stmts : List Stmt} {r : Applied}
    (h : submit st stmts = (st', .ok r)) {n : Name} {dt : DbTable} (hn : lookup n st.db.tables = some dt) :
    ∃ dt', lookup n st'.db.tables = some dt' ∧ dt'.tbl.pk = dt.tbl.pk ∧
      (∃ cs, dt'.tbl.cols = dt.tbl.cols ++ cs) ∧ (dt.crr = true → dt'.crr = true) := by
  obtain ⟨dt', h1, h2⟩ := submit_db_ext h hn
  exact ⟨dt', h1, h2.pk, h2.cols, h2.crr⟩

/-- Additivity on the schema the node works with: after an accepted submission every table it knew is
still known, with the same ordered key and every old column with its old definition. -/
theorem submission_additive_mem {st st' : State} {stmts : List Stmt} {r : Applied}
    (h : submit st stmts = (st', .ok r)) {n : Name} {t : Table} (hn : lookup n st.mem = some t) :
    ∃ t', lookup n st'.mem = some t' ∧ t'.pk = t.pk ∧
      ∀ c col, lookup c t.cols = some col → lookup c t'.cols = some col :=
  submit_mem_ext h hn

/-- "… and keeps every existing row": after any accepted submission every table has exactly its old
rows, in order, each extended by the same cells for the new columns (old cells untouched). -/
theorem rows_preserved {st st' : State} {stmts : List Stmt} {r : Applied}
    (h : submit st stmts = (st', .ok r)) {n : Name} {dt : DbTable} (hn : lookup n st.db.tables = some dt) :
    ∃ dt' ext, lookup n st'.db.tables = some dt' ∧ dt'.rows = dt.rows.map (fun row => row ++ ext) := by
  obtain ⟨dt', h1, h2⟩ := submit_db_ext h hn
  obtain ⟨ext, he⟩ := h2.rows
  exact ⟨dt', ext, h1, he⟩

/-- The same over any sequence of submissions (accepted or not), row insertions and restarts, from
any state: every row that existed is still there, extended only by cells of new columns; the key and
the old columns of its table are unchanged. -/
theorem rows_preserved_run (st : State) (ops : List Op) {n : Name} {dt : DbTable}
    (hn : lookup n st.db.tables = some dt) :
    ∃ dt' ext more, lookup n (run st ops).db.tables = some dt' ∧
      dt'.rows = dt.rows.map (fun row => row ++ ext) ++ more ∧
      dt'.tbl.pk = dt.tbl.pk ∧ ∃ cs, dt'.tbl.cols = dt.tbl.cols ++ cs := by
  obtain ⟨dt', h1, h2⟩ := run_db_keeps ops hn
  obtain ⟨ext, more, he⟩ := h2.rows
  exact ⟨dt', ext, more, h1, he, h2.pk, h2.cols⟩

/-! ### atomic -/

/-- "a rejected or failing schema change leaves both the database and the schema the node works with
exactly as before": on any `Err` — empty submission, syntax error at any statement, `constrain`,
a decision of `apply_schema`, or a statement failing in SQLite/cr-sqlite after earlier statements of
the same submission were executed — the whole state is the old one. -/
theorem reject_is_noop {st st' : State} {stmts : List Stmt} {e : Err}
    (h : submit st stmts = (st', .error e)) : st' = st :=
  submit_err h

/-! ### idempotent -/

/-- "Re-applying an already applied schema changes nothing": after an accepted submission, the same
submission again is accepted, executes no statement, imports nothing, and returns the same state
(database, `__corro_schema` and in-memory schema). -/
theorem resubmit_noop {st st' : State} {stmts : List Stmt} {r : Applied} (hr : Reachable st)
    (h : submit st stmts = (st', .ok r)) :
    submit st' stmts = (st', .ok { acts := [], imported := [] }) :=
  resubmit_same (reachable_inv hr) h

/-- on a reachable state the reconcile path (a new table that already exists in the database) is never
taken: nothing is imported -/
theorem submit_imports_nothing {st st' : State} {stmts : List Stmt} {r : Applied} (hr : Reachable st)
    (h : submit st stmts = (st', .ok r)) : r.imported = [] :=
  (inv_submit_ok (reachable_inv hr) h).2

/-! ### survives restart -/

/-- "after a restart the node works with the same schema it had before": in every reachable state,
what `init_schema` reads back from `__corro_schema` is the in-memory schema — same tables, same
ordered keys, same columns in the same order, same indexes. -/
theorem restart_same_schema {st : State} (hr : Reachable st) : SchemaSame (initSchema st.db) st.mem := by
  have hI := reachable_inv hr
  intro n
  unfold initSchema
  cases hm : lookup n st.mem with
  | none => rw [(hI.unknown n hm).1]; trivial
  | some t =>
    obtain ⟨dt, _, hp, hs⟩ := hI.known n t hm
    rw [hp]; exact hs

/-- … and the database the node restarts on holds exactly those tables with that key and those
columns: the in-memory schema never drifts from the database. -/
theorem mem_matches_db {st : State} (hr : Reachable st) {n : Name} {t : Table} (h : lookup n st.mem = some t) :
    ∃ dt, lookup n st.db.tables = some dt ∧ TableSame dt.tbl t := by
  obtain ⟨dt, hd, _, hs⟩ := (reachable_inv hr).known n t h
  exact ⟨dt, hd, hs⟩

/-! ### the key -/

/-- The ordered key of a table the node knows is invariant over any sequence of submissions
(accepted or rejected), row insertions and restarts — in the in-memory schema and in the database.
(This is the statement the repair of F11 restores: `PRIMARY KEY (a,b)` re-submitted as `(b,a)`.) -/
theorem pk_never_changes {st : State} (hr : Reachable st) (ops : List Op) {n : Name} {t : Table}
    (h : lookup n st.mem = some t) :
    (∃ t', lookup n (run st ops).mem = some t' ∧ t'.pk = t.pk) ∧
    (∃ dt', lookup n (run st ops).db.tables = some dt' ∧ dt'.tbl.pk = t.pk) := by
  have hI := reachable_inv hr
  refine ⟨run_mem_pk ops hI h, ?_⟩
  obtain ⟨dt, hd, _, hs⟩ := hI.known n t h
  obtain ⟨dt', h1, h2⟩ := run_db_keeps ops hd
  exact ⟨dt', h1, h2.pk.trans hs.pk⟩

/-! ### concrete, non-trivial instances -/

section examples

def cA : Column := { ty := "INTEGER", notNull := true, dflt := none, gen := none, inlinePk := false, fk := false, pk := false }
def cB : Column := { ty := "TEXT", notNull := true, dflt := none, gen := none, inlinePk := false, fk := false, pk := false }
def cC : Column := { ty := "TEXT", notNull := false, dflt := some "w1", gen := none, inlinePk := false, fk := false, pk := false }
def cD : Column := { ty := "INTEGER", notNull := false, dflt := some "7", gen := none, inlinePk := false, fk := false, pk := false }
def cG : Column := { ty := "INTEGER", notNull := false, dflt := none, gen := some ⟨"a", false⟩, inlinePk := false, fk := false, pk := false }

/-- `CREATE TABLE t1 (a INTEGER NOT NULL, b TEXT NOT NULL, c TEXT DEFAULT 'w1', PRIMARY KEY (a, b)); CREATE INDEX t1_i0 ON t1 (c)` -/
def s1 : List Stmt :=
  [.table "t1" [("a", cA), ("b", cB), ("c", cC)] (some ["a", "b"]) false, .index "t1_i0" "t1" ⟨["c"], none, false⟩]
/-- `t1` with a new column `d` written in the middle, a generated column, and a changed index -/
def s2 : List Stmt :=
  [.table "t1" [("a", cA), ("d", cD), ("b", cB), ("c", cC), ("g", cG)] (some ["a", "b"]) false,
   .index "t1_i0" "t1" ⟨["c", "a"], none, false⟩]
/-- a new table `t2`, then `t1` with its key written `(b, a)` -/
def s3 : List Stmt :=
  [.table "t2" [("a", { cA with inlinePk := true })] none false,
   .table "t1" [("a", cA), ("b", cB), ("c", cC), ("d", cD), ("g", cG)] (some ["b", "a"]) false,
   .index "t1_i0" "t1" ⟨["c", "a"], none, false⟩]

def st1 : State := run State.init [.submit s1, .rows "t1" 2]
def st2 : State := run st1 [.submit s2]

/-- the first submission is accepted and creates the table with its index; rows are inserted -/
example : (lookup "t1" st1.db.tables).map (fun dt => (dt.tbl.pk, keys dt.tbl.cols, keys dt.tbl.idx, dt.rows.length, dt.crr))
    = some (["a", "b"], ["a", "b", "c"], ["t1_i0"], 2, true) := by decide

/-- the second one adds the columns at the end (whatever the written position), keeps both rows with
their old cells and the default in the new stored column, and replaces the index -/
example : (lookup "t1" st2.db.tables).map (fun dt => (dt.tbl.pk, keys dt.tbl.cols, dt.rows))
    = some (["a", "b"], ["a", "b", "c", "d", "g"],
        [[("a", "100"), ("b", "101"), ("c", "102"), ("d", "7")], [("a", "200"), ("b", "201"), ("c", "202"), ("d", "7")]]) := by
  decide

/-- … and the in-memory schema has the database's column order, not the written one -/
example : (lookup "t1" st2.mem).map (fun t => keys t.cols) = some ["a", "b", "c", "d", "g"] := by decide

/-- the plan of the second submission: two `ALTER TABLE ADD COLUMN`, then `DROP INDEX` + `CREATE INDEX` -/
example : ((submit st1 s2).2.toOption.map (fun r => r.acts.map Action.table)) = some ["t1", "t1", "t1", "t1"] := by decide

/-- a reordered key is rejected (`ModifyPrimaryKeys`) *after* `t2` was created in the same
transaction (the plan's executed prefix is not empty) — and nothing at all is left of it -/
example : ((planSteps st2.mem (merge st2.mem ((parse s3).toOption.getD []))).1.map Action.table, (submit st2 s3).2.toOption.isNone)
    = (["t2"], true) := by decide
example : (submit st2 s3).1 = st2 := by decide
example : ((submit st2 s3).2 matches .error .modifyPk) = true := by decide

/-- re-applying: no statement, same state -/
example : (submit st2 s2).1 = st2 ∧ (submit st2 s2).2.toOption = some { acts := [], imported := [] } := by decide

/-- after a restart: literally the same in-memory schema here -/
example : (restart st2).mem = st2.mem := by decide

/-- forbidden edits are told apart: dropped column, changed default, NOT NULL without default,
unique index, syntax error at the second statement -/
example : ((submit st2 [.table "t1" [("a", cA), ("b", cB)] (some ["a", "b"]) false]).2 matches .error .removeColumn) = true := by decide
example : ((submit st2 [.table "t1" [("a", cA), ("b", cB), ("c", { cC with dflt := some "w2" }), ("d", cD), ("g", cG)] (some ["a", "b"]) false]).2
    matches .error .changeColumn) = true := by decide
example : ((submit st2 [.table "t3" [("a", { cA with inlinePk := true }), ("b", cB)] none false]).2
    matches .error .notNullNeedsDefault) = true := by decide
example : ((submit st2 [.table "t3" [("a", { cA with inlinePk := true })] none false, .index "t3_u" "t3" ⟨["a"], none, true⟩]).2
    matches .error .uniqueIndex) = true := by decide
example : ((submit st2 [.table "t3" [("a", { cA with inlinePk := true })] none false, .syntaxError]).2
    matches .error .parse) = true := by decide

end examples

end Corro.Schema
