/-
C07 — local transactions are all-or-nothing and get gap-free consecutive versions.

  "A write request of several statements either applies completely and is acknowledged with a
   version exactly one greater than the node's previous version, or has no effect at all: no row
   change, no version consumed, no change message emitted.  A request that changes nothing consumes
   no version, an acknowledged one is announced to the cluster as changesets whose sequence ranges
   tile 0..=last_seq and contain exactly its changes, and a node never lists a gap in its own
   versions."  — for every sequence of write requests.

Property theorems only.  Model: `Corro/Model/LocalTx.lean` (`submit`, `run`, `announce`) on top of
the validated cell-store model (`Corro.Crdt.localTx`), the node bookkeeping (`Corro.Node`) and the
chunker (`Corro.Chunker`, property C08).  Helper lemmas: `Corro/Lemmas/LocalTx.lean`,
`Corro/Lemmas/LocalTxSeq.lean`.

The node state is the pair (replication state `Node`: store, version counter `db.dbv`, own
bookkeeping, db-version rows; `outbox`: everything handed to the broadcast queue).  `state = n`
below therefore means: rows, `crsql_changes`, version counter, bookkeeping and outbox all unchanged.
`Good n` is the invariant of a node that has only ever been written through `submit`
(`reachable_good`); it holds of a fresh node and is what the theorems about announced changes need
(sequence numbers of one version are pairwise distinct).  Histories may also contain complete versions
of OTHER actors ingested in between (`Event.remote`, `runE`): version numbers are per actor, a remote
version with the very number of the node's next own version changes nothing of the above
(`remote_keeps_own`, `reachable_good_with_remote`, `acked_versions_consecutive_with_remote`).
-/
import Corro.Lemmas.LocalTx
import Corro.Lemmas.LocalTxRemote

namespace Corro.LocalTx
open Corro.Crdt Corro.Node
open Corro.Chunker (Tiles tiles_cover_once)

/-! ### all or nothing -/

/-- **Atomicity.**  A request that contains a failing statement — no statement at all, an injected
failure (bad SQL, wrong parameter count, unknown table, timeout) at ANY position, or a statement
the cell store rejects (constraint violation) at any position in front of it — is answered with an
error and leaves rows, version counter, bookkeeping and outbox exactly as they were. -/
theorem tx_all_or_nothing (cfg : Cfg) (n : LNode) (req : Request) (hf : Failing n req) :
    ∃ e, submit cfg n req = (n, .err e) := by
  cases submit_outcome cfg n req with
  | failed _ e h => exact ⟨e, h⟩
  | noop hnf _ _ _ => exact absurd hf hnf
  | acked hnf _ _ _ _ _ => exact absurd hf hnf

/-- an error answer is given only to a failing request (so the three outcomes partition) -/
theorem error_only_if_failing (cfg : Cfg) (n : LNode) (req : Request) (e : ErrKind)
    (h : (submit cfg n req).2 = .err e) : Failing n req := by
  cases submit_outcome cfg n req with
  | failed hf _ _ => exact hf
  | noop _ _ _ h' => rw [h'] at h; cases h
  | acked _ _ _ _ _ h' => rw [h'] at h; cases h

/-- **No-op.**  A request acknowledged without a version leaves everything unchanged: no version
consumed, nothing announced. -/
theorem noop_consumes_nothing (cfg : Cfg) (n : LNode) (req : Request)
    (h : (submit cfg n req).2 = .noop) : (submit cfg n req).1 = n := by
  cases submit_outcome cfg n req with
  | failed _ _ h' => rw [h']
  | noop _ _ _ h' => rw [h']
  | acked _ _ _ _ _ h' => rw [h'] at h; cases h

/-- … and a request whose statements all succeed but leave no live change of the new version
behind (the transaction "changes nothing") is such a no-op. -/
theorem changes_nothing_is_noop (cfg : Cfg) (n : LNode) (req : Request) (hnf : ¬ Failing n req)
    (d : Db) (ht : localTx n.node.db (split req).1 = .ok (d, none)) :
    submit cfg n req = (n, .noop) := by
  cases submit_outcome cfg n req with
  | failed hf _ _ => exact absurd hf hnf
  | noop _ _ _ h' => exact h'
  | acked _ _ _ _ ht' _ => rw [ht] at ht'; cases ht'

/-- whatever is not acknowledged with a version has no effect at all -/
theorem unacknowledged_no_effect (cfg : Cfg) (n : LNode) (req : Request)
    (h : (submit cfg n req).2.version? = none) : (submit cfg n req).1 = n := by
  cases submit_outcome cfg n req with
  | failed _ _ h' => rw [h']
  | noop _ _ _ h' => rw [h']
  | acked _ _ _ _ _ h' => rw [h'] at h; cases h

/-! ### consecutive versions -/

/-- **Version.**  An acknowledged version is exactly the node's previous version + 1, it is the
node's version afterwards, and exactly its messages were added to the outbox. -/
theorem ack_version_succ (cfg : Cfg) (n : LNode) (req : Request) (v : Nat) (chs : List Chg)
    (msgs : List Msg) (h : (submit cfg n req).2 = .ack v chs msgs) :
    v = n.node.db.dbv + 1 ∧ (submit cfg n req).1.node.db.dbv = v ∧
    (submit cfg n req).1.outbox = n.outbox ++ [(v, msgs)] := by
  cases submit_outcome cfg n req with
  | failed _ _ h' => rw [h'] at h; cases h
  | noop _ _ _ h' => rw [h'] at h; cases h
  | acked _ d ver chs' ht h' =>
    rw [h'] at h ⊢
    cases h
    have := localTx_ver ht
    exact ⟨this.1, by simp only [ackNode_db]; exact this.2, rfl⟩

/-- **No gap, no repeat.**  For every request sequence from every node: the acknowledged versions
are, in order, `dbv+1, dbv+2, …, dbv+k` (`k` = number of acknowledged requests), and the node's
version afterwards is `dbv+k`: failed and no-op requests in between consume nothing. -/
theorem acked_versions_consecutive (cfg : Cfg) (reqs : List Request) (n : LNode) :
    ackedVersions (run cfg n reqs).2 =
      List.range' (n.node.db.dbv + 1) (ackedVersions (run cfg n reqs).2).length ∧
    (run cfg n reqs).1.node.db.dbv = n.node.db.dbv + (ackedVersions (run cfg n reqs).2).length := by
  induction reqs generalizing n with
  | nil => simp [run, ackedVersions]
  | cons r rs ih =>
    have ih' := ih (submit cfg n r).1
    simp only [run, ackedVersions] at ih' ⊢
    cases hr : (submit cfg n r).2 with
    | ack v chs msgs =>
      have hv := ack_version_succ cfg n r v chs msgs hr
      rw [hv.2.1, hv.1] at ih'
      simp only [List.filterMap_cons, Response.version?, List.length_cons, List.range'_succ]
      constructor
      · rw [hv.1]; congr 1; exact ih'.1
      · rw [ih'.2]; omega
    | noop =>
      have hs := unacknowledged_no_effect cfg n r (by rw [hr]; rfl)
      rw [hs] at ih' ⊢
      rw [List.filterMap_cons_none (by rfl : Response.version? Response.noop = none)]
      exact ih'
    | err e =>
      have hs := unacknowledged_no_effect cfg n r (by rw [hr]; rfl)
      rw [hs] at ih' ⊢
      rw [List.filterMap_cons_none (by rfl : Response.version? (Response.err e) = none)]
      exact ih'

/-- from a fresh node the acknowledged versions are exactly `1..k` -/
theorem acked_versions_from_fresh (cfg : Cfg) (i : Nat) (reqs : List Request) :
    ackedVersions (run cfg (LNode.fresh i) reqs).2 =
      List.range' 1 (ackedVersions (run cfg (LNode.fresh i) reqs).2).length :=
  (acked_versions_consecutive cfg reqs (LNode.fresh i)).1

/-! ### the node never needs its own versions -/

/-- every node reached from a fresh one by any request sequence satisfies the invariant -/
theorem reachable_good (cfg : Cfg) (i : Nat) (reqs : List Request) :
    Good (run cfg (LNode.fresh i) reqs).1 :=
  good_run cfg (good_fresh i) reqs

/-- **Own bookkeeping.**  Invariant over any request sequence from any good node: the node's own
`needed` set stays empty and its head (`max`) stays equal to its version counter
(`insert_db` with `S = {max + 1}`). -/
theorem own_never_needed_step (cfg : Cfg) (n : LNode) (hg : Good n) (reqs : List Request) :
    (run cfg n reqs).1.own.needed = [] ∧
    (run cfg n reqs).1.own.max = (run cfg n reqs).1.node.db.dbv :=
  ⟨(good_run cfg hg reqs).needed, (good_run cfg hg reqs).max⟩

/-- … in particular from a fresh node: after any request sequence nothing of the own actor is
needed and the own head is the number of acknowledged requests. -/
theorem own_never_needed (cfg : Cfg) (i : Nat) (reqs : List Request) :
    (run cfg (LNode.fresh i) reqs).1.own.needed = [] ∧
    (run cfg (LNode.fresh i) reqs).1.own.max =
      (ackedVersions (run cfg (LNode.fresh i) reqs).2).length := by
  have h := own_never_needed_step cfg (LNode.fresh i) (good_fresh i) reqs
  have hv := (acked_versions_consecutive cfg reqs (LNode.fresh i)).2
  refine ⟨h.1, ?_⟩
  rw [h.2, hv]
  simp [LNode.fresh, Node.fresh]

/-! ### what is announced -/

/-- **Attribution.**  The change list of an acknowledged version is non-empty, has strictly
increasing sequence numbers, and is exactly the set of live entries of the new store attributed to
(the node's site id, that version): every change carries the node's site id and the version. -/
theorem tx_changes_attributed (cfg : Cfg) (n : LNode) (hg : Good n) (req : Request) (v : Nat)
    (chs : List Chg) (msgs : List Msg) (h : (submit cfg n req).2 = .ack v chs msgs) :
    chs ≠ [] ∧ chs.Pairwise (fun a b => a.seq < b.seq) ∧
    (∀ c ∈ chs, c.site = n.node.id ∧ c.dbv = v) ∧
    (∀ c, c ∈ chs ↔ c ∈ (submit cfg n req).1.node.db.changes ∧ c.site = n.node.id ∧ c.dbv = v) := by
  cases submit_outcome cfg n req with
  | failed _ _ h' => rw [h'] at h; cases h
  | noop _ _ _ h' => rw [h'] at h; cases h
  | acked _ d ver chs' ht h' =>
    rw [h'] at h ⊢
    cases h
    obtain ⟨_, _, _, _, hne, hp, hmem⟩ := localTx_some hg.db ht
    rw [hg.site] at hmem
    refine ⟨hne, hp, fun c hc => ((hmem c).mp hc).2, ?_⟩
    intro c
    simp only [ackNode_db]
    exact hmem c

/-- **Broadcast.**  For every size function and every sequence of size limits: the messages
announced for an acknowledged version `v` have ranges that tile `0 ..= last_seq` (first starts at
0, each next one right after the previous end, the last ends at `last_seq`, where `last_seq` is
the highest sequence number of the version), their concatenated changes are exactly the version's
change list in order, every change lies inside the range of the message that carries it, and every
message names version `v` and the same `last_seq`.  (C08's theorems instantiated with start 0.) -/
theorem broadcast_tiles (cfg : Cfg) (n : LNode) (hg : Good n) (req : Request) (v : Nat)
    (chs : List Chg) (msgs : List Msg) (h : (submit cfg n req).2 = .ack v chs msgs) :
    Tiles 0 (maxSeq chs) (msgs.map Msg.range) ∧
    (msgs.map (·.changes)).flatten = chs ∧
    ∀ m ∈ msgs, m.ver = v ∧ m.last = maxSeq chs ∧ ∀ c ∈ m.changes, m.lo ≤ c.seq ∧ c.seq ≤ m.hi := by
  have hp := (tx_changes_attributed cfg n hg req v chs msgs h).2.1
  cases submit_outcome cfg n req with
  | failed _ _ h' => rw [h'] at h; cases h
  | noop _ _ _ h' => rw [h'] at h; cases h
  | acked _ d ver chs' ht h' =>
    rw [h'] at h
    cases h
    refine ⟨announce_tiles cfg v hp, announce_flatten cfg v hp, ?_⟩
    intro m hm
    have hmeta := mem_announce hm
    exact ⟨hmeta.1, hmeta.2.1, fun c hc => (announce_inside cfg v hp hm c hc).2⟩

/-- … hence every sequence number of `0 ..= last_seq` lies in the range of exactly one message -/
theorem broadcast_covers_once (cfg : Cfg) (n : LNode) (hg : Good n) (req : Request) (v : Nat)
    (chs : List Chg) (msgs : List Msg) (h : (submit cfg n req).2 = .ack v chs msgs) (x : Nat)
    (hx : x ≤ maxSeq chs) :
    ((msgs.map Msg.range).filter (fun c => decide (c.lo ≤ x ∧ x ≤ c.hi))).length = 1 :=
  tiles_cover_once _ 0 (maxSeq chs) (broadcast_tiles cfg n hg req v chs msgs h).1 x (Nat.zero_le _) hx

/-- the same for every response of every request sequence from a fresh node -/
theorem broadcast_tiles_run (cfg : Cfg) (i : Nat) (reqs : List Request) :
    ∀ r ∈ (run cfg (LNode.fresh i) reqs).2, ∀ v chs msgs, r = .ack v chs msgs →
      Tiles 0 (maxSeq chs) (msgs.map Msg.range) ∧ (msgs.map (·.changes)).flatten = chs ∧
      (∀ c ∈ chs, c.site = i ∧ c.dbv = v) ∧
      ∀ m ∈ msgs, m.ver = v ∧ m.last = maxSeq chs ∧ ∀ c ∈ m.changes, m.lo ≤ c.seq ∧ c.seq ≤ m.hi := by
  have gen : ∀ (reqs : List Request) (n : LNode), Good n → n.node.id = i →
      ∀ r ∈ (run cfg n reqs).2, ∀ v chs msgs, r = .ack v chs msgs →
        Tiles 0 (maxSeq chs) (msgs.map Msg.range) ∧ (msgs.map (·.changes)).flatten = chs ∧
        (∀ c ∈ chs, c.site = i ∧ c.dbv = v) ∧
        ∀ m ∈ msgs, m.ver = v ∧ m.last = maxSeq chs ∧ ∀ c ∈ m.changes, m.lo ≤ c.seq ∧ c.seq ≤ m.hi := by
    intro reqs
    induction reqs with
    | nil => intro n _ _ r hr; simp [run] at hr
    | cons q qs ih =>
      intro n hg hid r hr v chs msgs hrv
      simp only [run, List.mem_cons] at hr
      rcases hr with rfl | hr
      · have hb := broadcast_tiles cfg n hg q v chs msgs hrv
        have ha := (tx_changes_attributed cfg n hg q v chs msgs hrv).2.2.1
        exact ⟨hb.1, hb.2.1, fun c hc => hid ▸ ha c hc, hb.2.2⟩
      · refine ih (submit cfg n q).1 (good_submit cfg hg q) ?_ r hr v chs msgs hrv
        cases submit_outcome cfg n q with
        | failed _ _ h' => rw [h']; exact hid
        | noop _ _ _ h' => rw [h']; exact hid
        | acked _ _ _ _ _ h' => rw [h']; simp only [ackNode_id]; exact hid
  exact gen reqs (LNode.fresh i) (good_fresh i) rfl

/-! ### non-vacuity: a concrete request sequence (chunk limit small enough to force two messages) -/

namespace Ex
def cfg : Cfg := { size := fun _ => 10, lim := fun _ => 15 }
def ins1 : RStmt := .sql (.ins "t" "1" [("a", .int 1)])
def insK : RStmt := .sql (.ins "k" "9" [])
def updSame : RStmt := .sql (.upd "t" "1" [("a", .int 1)])
def updA : RStmt := .sql (.upd "t" "1" [("a", .int 2)])
/-- insert; duplicate insert after a statement that did real work (constraint); update to the same
value (no-op); real work followed by bad SQL; delete + re-insert + update + insert (holes in the
sequence numbers); no statement at all -/
def reqs : List Request :=
  [[ins1], [insK, ins1], [updSame], [updA, .fail .syntax], [.sql (.del "t" "1"), ins1, updA, insK], []]
def out : LNode × List Response := run cfg (LNode.fresh 0) reqs
/-- the change list of version 2: live sequence numbers 1, 3, 4, 5 (0 and 2 were overwritten) -/
def chs2 : List Chg :=
  [⟨"t", "1", "-1", .null, 3, 3, 0, 2, 1⟩, ⟨"t", "1", "b", .null, 1, 3, 0, 2, 3⟩,
   ⟨"t", "1", "a", .int 2, 2, 3, 0, 2, 4⟩, ⟨"k", "9", "-1", .null, 1, 1, 0, 2, 5⟩]
end Ex

example : Ex.out.2.map Response.version? = [some 1, none, none, none, some 2, none] := by decide
example : Ex.out.2.map (fun r => match r with | .err e => some e | _ => none) =
    [none, some .constraint, none, some (.injected .syntax), none, some .empty] := by decide
/-- the hypothesis of `tx_all_or_nothing` is met by the duplicate insert behind real work -/
example : Failing (submit Ex.cfg (LNode.fresh 0) [Ex.ins1]).1 [Ex.insK, Ex.ins1] :=
  error_only_if_failing Ex.cfg _ _ .constraint (by decide)
example : Ex.out.1.own.needed = [] ∧ Ex.out.1.own.max = 2 ∧ Ex.out.1.node.db.dbv = 2 := by decide
example : (Ex.out.2.map fun r => match r with | .ack _ chs _ => chs | _ => []).getD 4 [] = Ex.chs2 := by
  decide
/-- version 2 is announced as `0-3` and `4-5` of last_seq 5 -/
example : (announce Ex.cfg 2 Ex.chs2).map (fun m => (m.lo, m.hi, m.last, m.changes.map (·.seq))) =
    [(0, 3, 5, [1, 3]), (4, 5, 5, [4, 5])] := by decide


/-! ### remote versions in between -/

/-- every remote change of a history comes from another actor than node `i` -/
def Foreign (i : Nat) : List Event → Prop
  | [] => True
  | .req _ :: es => Foreign i es
  | .remote chs :: es => (∀ c ∈ chs, c.site ≠ i) ∧ Foreign i es

/-- **Remote versions are not the node's own.**  Ingesting a complete version of another actor
leaves the node's own version counter, own bookkeeping and outbox untouched (version numbers are per
actor), and keeps the invariant `Good`. -/
theorem remote_keeps_own (n : LNode) (hg : Good n) (chs : List Chg) (hc : ∀ c ∈ chs, c.site ≠ n.node.id) :
    Good (n.remote chs) ∧ (n.remote chs).own = n.own ∧
    (n.remote chs).node.db.dbv = n.node.db.dbv ∧ (n.remote chs).outbox = n.outbox :=
  ⟨good_remote hg hc, remote_own n chs, remote_dbv n chs, rfl⟩

theorem remote_id (n : LNode) (chs : List Chg) : (n.remote chs).node.id = n.node.id :=
  (mergeChanges_fields chs n.node).2.1

theorem submit_id (cfg : Cfg) (n : LNode) (req : Request) : (submit cfg n req).1.node.id = n.node.id := by
  cases submit_outcome cfg n req with
  | failed _ _ h' => rw [h']
  | noop _ _ _ h' => rw [h']
  | acked _ _ _ _ _ h' => rw [h']; simp only [ackNode_id]

/-- every node reached from a fresh one by any interleaving of local requests and remote versions
of other actors satisfies the invariant — so `tx_changes_attributed`, `broadcast_tiles` and
`broadcast_covers_once` apply to every local request of such a history -/
theorem reachable_good_with_remote (cfg : Cfg) (es : List Event) (n : LNode) (hg : Good n)
    (hf : Foreign n.node.id es) : Good (runE cfg n es).1 := by
  induction es generalizing n with
  | nil => exact hg
  | cons e es ih =>
    cases e with
    | req r =>
      simp only [runE]
      exact ih _ (good_submit cfg hg r) (by rw [submit_id]; exact hf)
    | remote chs =>
      simp only [runE]
      exact ih _ (good_remote hg hf.1) (by rw [remote_id]; exact hf.2)

/-- **No gap, no repeat, with remote versions in between.**  Over any history the acknowledged
versions are `dbv+1 .. dbv+k` in order and the own counter ends at `dbv+k`: remote versions — whatever
their numbers — consume none of the node's own. -/
theorem acked_versions_consecutive_with_remote (cfg : Cfg) (es : List Event) (n : LNode) :
    ackedVersions (runE cfg n es).2 =
      List.range' (n.node.db.dbv + 1) (ackedVersions (runE cfg n es).2).length ∧
    (runE cfg n es).1.node.db.dbv = n.node.db.dbv + (ackedVersions (runE cfg n es).2).length := by
  induction es generalizing n with
  | nil => simp [runE, ackedVersions]
  | cons e es ih =>
    cases e with
    | remote chs =>
      have ih' := ih (n.remote chs)
      rw [remote_dbv] at ih'
      simpa only [runE] using ih'
    | req r =>
      have ih' := ih (submit cfg n r).1
      simp only [runE, ackedVersions] at ih' ⊢
      cases hr : (submit cfg n r).2 with
      | ack v chs msgs =>
        have hv := ack_version_succ cfg n r v chs msgs hr
        rw [hv.2.1, hv.1] at ih'
        simp only [List.filterMap_cons, Response.version?, List.length_cons, List.range'_succ]
        constructor
        · rw [hv.1]; congr 1; exact ih'.1
        · rw [ih'.2]; omega
      | noop =>
        have hs := unacknowledged_no_effect cfg n r (by rw [hr]; rfl)
        rw [hs] at ih' ⊢
        rw [List.filterMap_cons_none (by rfl : Response.version? Response.noop = none)]
        exact ih'
      | err e =>
        have hs := unacknowledged_no_effect cfg n r (by rw [hr]; rfl)
        rw [hs] at ih' ⊢
        rw [List.filterMap_cons_none (by rfl : Response.version? (Response.err e) = none)]
        exact ih'

/-- … and the node never needs a version of its own, its head being the number of acknowledged
requests, whatever remote versions arrived in between -/
theorem own_never_needed_with_remote (cfg : Cfg) (i : Nat) (es : List Event) (hf : Foreign i es) :
    (runE cfg (LNode.fresh i) es).1.own.needed = [] ∧
    (runE cfg (LNode.fresh i) es).1.own.max = (ackedVersions (runE cfg (LNode.fresh i) es).2).length := by
  have hg := reachable_good_with_remote cfg es (LNode.fresh i) (good_fresh i) hf
  have hv := (acked_versions_consecutive_with_remote cfg es (LNode.fresh i)).2
  refine ⟨hg.needed, ?_⟩
  rw [hg.max, hv]
  simp [LNode.fresh, Node.fresh]

/-- a remote version 1 with 4 changes on a fresh node, a no-op, then the node's own version 1 -/
def Ex.remote1 : List Chg :=
  [⟨"t", "1", "a", .int 1, 1, 1, 1, 1, 0⟩, ⟨"t", "1", "b", .int 1, 1, 1, 1, 1, 1⟩,
   ⟨"t", "2", "a", .int 2, 1, 1, 1, 1, 2⟩, ⟨"t", "2", "b", .int 2, 1, 1, 1, 1, 3⟩]
example : Foreign 0 [.remote Ex.remote1, .req [.sql (.upd "t" "9" [("a", .int 1)])], .req [Ex.insK]] := by
  simp [Foreign, Ex.remote1]
example : (runE Ex.cfg (LNode.fresh 0)
      [.remote Ex.remote1, .req [.sql (.upd "t" "9" [("a", .int 1)])], .req [Ex.insK]]).2.map
    Response.version? = [none, some 1] := by decide
example : (runE Ex.cfg (LNode.fresh 0)
      [.remote Ex.remote1, .req [.sql (.upd "t" "9" [("a", .int 1)])], .req [Ex.insK]]).1.outbox.map
    (fun e => (e.1, e.2.map (fun m => (m.lo, m.hi, m.last)))) = [(1, [(0, 0, 0)])] := by decide

end Corro.LocalTx
