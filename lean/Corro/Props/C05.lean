/-
C05 — a sync server only sends what it holds and never declares unknown versions empty.
Property theorems only, about `handleNeed` / `Node.serve` of the executable node model
`Corro/Model/Node.lean` (`handle_need` and the `process_sync` filter).  Helper definitions
(`Node.hasBuf`, `Node.bufIn`, `rowOverlaps`, `partItem`, `Item.covers`, `requests`,
`Node.RowsForward`) are in `Corro/Lemmas/NodeServe.lean`.

All theorems quantify over ANY node state `n` (not only reachable ones); the only side condition,
where stated, is `Node.RowsForward n` (every durable sequence row has `lo ≤ hi ≤ last`; the
`lo ≤ hi` half and "all rows of a version carry the version's `last_seq`" are part of the invariant
`Consistent` that `deliver` maintains for well-formed inputs, see `Props/C06.lean`).

In the model every version is served as ONE chunk (`Node.live` returns all live changes of the
version; the correspondence keeps versions small so `ChunkedChanges` never splits; the tiling of
larger versions is C08's theorem `chunks_contiguous`).
-/
import Corro.Lemmas.NodeServe
import Corro.Lemmas.NodeEx

namespace Corro.Node
open Corro.Crdt Corro.Needs

/-! ### every change lies inside the range of the changeset carrying it -/

/-- **C05 ("every change it sends lies inside the sequence range of the changeset carrying it").**
Every `Full` changeset emitted for a need is for the requested actor and a requested version, and
every change it carries is attributed to that `(actor, version)` and has `lo ≤ seq ≤ hi`.
Any node state, any need. -/
theorem serve_change_in_range (n : Node) (site : Nat) (need : Need) (s v lo hi last : Nat)
    (cs : List Chg) (h : Item.full s v lo hi last cs ∈ n.serve site need) :
    s = site ∧ requests need v ∧ ∀ c ∈ cs, c.site = site ∧ c.dbv = v ∧ lo ≤ c.seq ∧ c.seq ≤ hi := by
  have h := mem_serve h
  cases need with
  | full vlo vhi =>
    rcases mem_handleNeed_full.mp h with ⟨w, h1, h2, h3⟩ | ⟨w, r, h1, h2, _, _, _, h6⟩ | ⟨p, _, hp⟩
    · obtain ⟨_, he⟩ := liveItem_some h3
      simp only [Item.full.injEq] at he
      obtain ⟨rfl, rfl, rfl, rfl, rfl, rfl⟩ := he
      refine ⟨rfl, ⟨h1, h2⟩, ?_⟩
      intro c hc
      have := mem_live.mp hc
      exact ⟨this.2.1, this.2.2.1, Nat.zero_le _, le_maxSeq hc⟩
    · simp only [bufItem, Item.full.injEq] at h6
      obtain ⟨rfl, rfl, rfl, rfl, rfl, rfl⟩ := h6
      refine ⟨rfl, ⟨h1, h2⟩, ?_⟩
      intro c hc
      exact (mem_bufIn.mp hc).2
    · cases hp
  | part w seqs =>
    rcases mem_handleNeed_part.mp h with ⟨_, r, _, h3⟩ | ⟨_, _, r, _, row, _, _, h6⟩ | ⟨_, _, _, h4⟩
    · have he := livePart_some h3
      simp only [Item.full.injEq] at he
      obtain ⟨rfl, rfl, rfl, rfl, rfl, rfl⟩ := he
      refine ⟨rfl, rfl, ?_⟩
      intro c hc
      have hc' := List.mem_filter.mp hc
      have := mem_live.mp hc'.1
      simp only [decide_eq_true_eq] at hc'
      exact ⟨this.2.1, this.2.2.1, hc'.2.1, hc'.2.2⟩
    · simp only [partItem, Item.full.injEq] at h6
      obtain ⟨rfl, rfl, rfl, rfl, rfl, rfl⟩ := h6
      refine ⟨rfl, rfl, ?_⟩
      intro c hc
      exact (mem_bufIn.mp hc).2
    · cases h4

/-- **C05 (shape of the emitted ranges).**  For a `Full` need every emitted `Full` changeset has
`lo ≤ hi ≤ last_seq`, provided the durable sequence rows are forward and end at or before their
`last_seq` (`Node.RowsForward`; changesets for versions with live changes are `0..=m` with
`last_seq = m` unconditionally). -/
theorem serve_full_range_shape (n : Node) (hw : n.RowsForward) (site vlo vhi s v lo hi last : Nat)
    (cs : List Chg) (h : Item.full s v lo hi last cs ∈ n.serve site (.full vlo vhi)) :
    lo ≤ hi ∧ hi ≤ last := by
  rcases mem_handleNeed_full.mp (mem_serve h) with ⟨w, _, _, h3⟩ | ⟨w, r, _, _, _, _, h5, h6⟩ | ⟨p, _, hp⟩
  · obtain ⟨_, he⟩ := liveItem_some h3
    simp only [Item.full.injEq] at he
    obtain ⟨rfl, rfl, rfl, rfl, rfl, rfl⟩ := he
    exact ⟨Nat.zero_le _, Nat.le_refl _⟩
  · simp only [bufItem, Item.full.injEq] at h6
    obtain ⟨rfl, rfl, rfl, rfl, rfl, rfl⟩ := h6
    exact hw r (mem_seqRowsOf.mp h5).1
  · cases hp

/-- the same for a `Partial` need with forward requested ranges: a changeset cut from live changes
carries the requested range and the largest live seq as `last_seq`; a changeset cut from buffered
rows carries the intersection of a sequence row with a requested range, which is non-empty and ends
at or before the row's `last_seq`. -/
theorem serve_part_range_shape (n : Node) (hw : n.RowsForward) (site w : Nat)
    (seqs : List (Nat × Nat)) (hseqs : ∀ r ∈ seqs, r.1 ≤ r.2) (s v lo hi last : Nat)
    (cs : List Chg) (h : Item.full s v lo hi last cs ∈ n.serve site (.part w seqs)) :
    lo ≤ hi ∧ ((lo, hi) ∈ seqs ∧ last = maxSeq (n.live site w) ∨ hi ≤ last) := by
  rcases mem_handleNeed_part.mp (mem_serve h) with ⟨_, r, hr, h3⟩ | ⟨_, _, r, hr, row, hrow, hov, h6⟩ |
      ⟨_, _, _, h4⟩
  · have he := livePart_some h3
    simp only [Item.full.injEq] at he
    obtain ⟨rfl, rfl, rfl, rfl, rfl, rfl⟩ := he
    exact ⟨hseqs r hr, Or.inl ⟨hr, rfl⟩⟩
  · simp only [partItem, Item.full.injEq] at h6
    obtain ⟨rfl, rfl, rfl, rfl, rfl, rfl⟩ := h6
    have hf := hw row (mem_seqRowsOf.mp hrow).1
    refine ⟨(rowOverlaps_iff (hseqs r hr) hf.1).mp hov, Or.inr ?_⟩
    exact Nat.le_trans (Nat.min_le_left _ _) hf.2
  · cases h4

/-! ### fully held versions -/

/-- **C05 ("answers each requested version it fully holds with changesets whose sequence ranges
tile 0..=last_seq and carry exactly its live changes").**  For a requested version `v` that has
live changes on the server, the answer to a `Full` need contains exactly one item about `v`: the
single changeset `0..=m` with `last_seq = m`, `m` the largest live seq, carrying `n.live site v`
(one chunk per version in the model, see the header).  Any node state. -/
theorem serve_full_tiles (n : Node) (site lo hi v : Nat) (hv : lo ≤ v ∧ v ≤ hi)
    (hl : (n.live site v).isEmpty = false) :
    (handleNeed n site (.full lo hi)).filter (Item.covers v) =
      [Item.full site v 0 (maxSeq (n.live site v)) (maxSeq (n.live site v)) (n.live site v)] := by
  rw [handleNeed_full, List.filter_append, List.filter_append]
  have h1 : (liveMsgs n site lo hi).filter (Item.covers v) =
      [Item.full site v 0 (maxSeq (n.live site v)) (maxSeq (n.live site v)) (n.live site v)] := by
    unfold liveMsgs
    rw [List.filter_filterMap]
    refine filterMap_eq_singleton (versionsDesc_nodup lo hi) (mem_versionsDesc.mpr hv) ?_ ?_
    · rw [liveItem_of_live hl]
      simp only [Option.filter_some]
      rw [if_pos ((covers_full ..).mpr rfl)]
    · intro x _ hx
      cases hli : liveItem n site x with
      | none => rfl
      | some it =>
        obtain ⟨_, rfl⟩ := liveItem_some hli
        simp only [Option.filter_some]
        rw [if_neg]
        intro hc; exact hx ((covers_full ..).mp hc)
  have h2 : (bufMsgs n site lo hi).filter (Item.covers v) = [] := by
    apply List.filter_eq_nil_iff.mpr
    intro it hit
    obtain ⟨w, hw, hit⟩ := List.mem_flatMap.mp hit
    have hw' := mem_restVs.mp hw
    unfold bufItemsOf at hit
    split at hit
    · cases hit
    · obtain ⟨r, _, rfl⟩ := List.mem_map.mp hit
      intro hc
      have : w = v := (covers_full ..).mp hc
      subst this
      rw [hw'.2.2] at hl; cases hl
  have h3 : ((emptyRanges n site lo hi).map (fun r => Item.empty site r.1 r.2)).filter (Item.covers v) = [] := by
    apply List.filter_eq_nil_iff.mpr
    intro it hit
    obtain ⟨p, hp, rfl⟩ := List.mem_map.mp hit
    intro hc
    have hc := (covers_empty ..).mp hc
    have hm : RSet.Mem (emptyRanges n site lo hi) v := ⟨p, hp, hc⟩
    have := mem_emptyVs.mp (mem_emptyRanges.mp hm)
    rw [this.2.2.1] at hl; cases hl
  rw [h1, h2, h3]; rfl

/-- what `n.live site v` is: exactly the live entries of `crsql_changes` attributed to
`(site, v)` (below the model's seq bound `10⁹`), sorted by seq; its `maxSeq` is the seq of one of
them and bounds all of them. -/
theorem serve_full_tiles_live (n : Node) (site v : Nat) :
    (∀ c, c ∈ n.live site v ↔ c ∈ n.db.changes ∧ c.site = site ∧ c.dbv = v ∧ c.seq ≤ 1000000000) ∧
    (n.live site v).Pairwise (fun x y => x.seq ≤ y.seq) ∧
    (∀ c ∈ n.live site v, c.seq ≤ maxSeq (n.live site v)) ∧
    ((n.live site v).isEmpty = false → ∃ c ∈ n.live site v, c.seq = maxSeq (n.live site v)) := by
  refine ⟨fun c => mem_live, live_sorted n site v, fun c hc => le_maxSeq hc, ?_⟩
  intro hne
  rcases maxSeq_attained (n.live site v) with h | ⟨h, _⟩
  · exact h
  · rw [h] at hne; cases hne

/-- the one-version request: the whole answer is that single changeset -/
theorem serve_full_tiles_single (n : Node) (site v : Nat) (hl : (n.live site v).isEmpty = false) :
    handleNeed n site (.full v v) =
      [Item.full site v 0 (maxSeq (n.live site v)) (maxSeq (n.live site v)) (n.live site v)] := by
  have hrest : restVs n site v v = [] := by
    unfold restVs; rw [versionsAsc_single]; simp [hl]
  rw [handleNeed_full]
  unfold liveMsgs bufMsgs emptyRanges emptyVs
  rw [hrest, versionsDesc_single]
  simp [liveItem_of_live hl]

/-! ### `Empty` is declared exactly for held versions without live changes -/

/-- **C05 ("answers a version it holds with no live changes by declaring it empty … never declares
a version empty that it lists as needed or holds only partially").**  In the answer to a `Full`
need, an `Empty` changeset covers `v` **iff** `v` is requested, has no live change, has no buffered
row and is not in the server's `needed` set.  Any node state. -/
theorem serve_empty_iff (n : Node) (site lo hi v : Nat) :
    (∃ s a b, Item.empty s a b ∈ handleNeed n site (.full lo hi) ∧ a ≤ v ∧ v ≤ b) ↔
      lo ≤ v ∧ v ≤ hi ∧ (n.live site v).isEmpty = true ∧
        (∀ c ∈ n.buf, ¬ (c.site = site ∧ c.dbv = v)) ∧ ¬ RSet.Mem (n.booked site).needed v := by
  rw [← hasBuf_false_iff, ← inGaps_iff, Bool.not_eq_true, ← mem_emptyVs, ← mem_emptyRanges]
  constructor
  · rintro ⟨s, a, b, hm, h1, h2⟩
    rcases mem_handleNeed_full.mp hm with ⟨w, _, _, h3⟩ | ⟨w, r, _, _, _, _, _, h6⟩ | ⟨p, hp, he⟩
    · obtain ⟨_, he⟩ := liveItem_some h3; cases he
    · cases h6
    · simp only [Item.empty.injEq] at he
      obtain ⟨rfl, rfl, rfl⟩ := he
      exact ⟨p, hp, h1, h2⟩
  · rintro ⟨p, hp, h1, h2⟩
    exact ⟨site, p.1, p.2, mem_handleNeed_full.mpr (Or.inr (Or.inr ⟨p, hp, rfl⟩)), h1, h2⟩

/-- the same for a `Partial` need: the only `Empty` it can emit is `v..=v`, and it does so iff the
version has no live change, no buffered row and is not needed. -/
theorem serve_empty_iff_part (n : Node) (site v : Nat) (seqs : List (Nat × Nat)) (s a b : Nat) :
    Item.empty s a b ∈ handleNeed n site (.part v seqs) ↔
      s = site ∧ a = v ∧ b = v ∧ (n.live site v).isEmpty = true ∧
        (∀ c ∈ n.buf, ¬ (c.site = site ∧ c.dbv = v)) ∧ ¬ RSet.Mem (n.booked site).needed v := by
  rw [← hasBuf_false_iff, ← inGaps_iff, Bool.not_eq_true, mem_handleNeed_part]
  constructor
  · rintro (⟨_, r, _, h3⟩ | ⟨_, _, r, _, row, _, _, h6⟩ | ⟨h1, h2, h3, h4⟩)
    · have := livePart_some h3; cases this
    · cases h6
    · simp only [Item.empty.injEq] at h4
      exact ⟨h4.1, h4.2.1, h4.2.2, h1, h2, h3⟩
  · rintro ⟨rfl, rfl, rfl, h1, h2, h3⟩
    exact Or.inr (Or.inr ⟨h1, h2, h3, rfl⟩)

/-- **C05 ("It never declares a version empty that it lists as needed").**  No `Empty` changeset
sent through the sync server, for any need, covers a version of the server's `needed` set. -/
theorem serve_never_empty_for_needed (n : Node) (site : Nat) (need : Need) (s a b v : Nat)
    (h : Item.empty s a b ∈ n.serve site need) (hv : a ≤ v ∧ v ≤ b) :
    ¬ RSet.Mem (n.booked site).needed v := by
  have h := mem_serve h
  cases need with
  | full lo hi => exact ((serve_empty_iff n site lo hi v).mp ⟨s, a, b, h, hv.1, hv.2⟩).2.2.2.2
  | part w seqs =>
    have := (serve_empty_iff_part n site w seqs s a b).mp h
    obtain ⟨_, h2, h3, _, _, h6⟩ := this
    have : v = w := by omega
    subst this; exact h6

/-- **C05 ("… or holds only partially").**  No `Empty` changeset covers a version that has a
buffered row (partially or fully buffered, not yet applied). -/
theorem serve_never_empty_for_buffered (n : Node) (site : Nat) (need : Need) (s a b v : Nat)
    (h : Item.empty s a b ∈ n.serve site need) (hv : a ≤ v ∧ v ≤ b) :
    ∀ c ∈ n.buf, ¬ (c.site = site ∧ c.dbv = v) := by
  have h := mem_serve h
  cases need with
  | full lo hi => exact ((serve_empty_iff n site lo hi v).mp ⟨s, a, b, h, hv.1, hv.2⟩).2.2.2.1
  | part w seqs =>
    have := (serve_empty_iff_part n site w seqs s a b).mp h
    obtain ⟨_, h2, h3, _, h5, _⟩ := this
    have : v = w := by omega
    subst this; exact h5

/-- no `Empty` changeset covers a version with live changes either -/
theorem serve_never_empty_for_live (n : Node) (site : Nat) (need : Need) (s a b v : Nat)
    (h : Item.empty s a b ∈ n.serve site need) (hv : a ≤ v ∧ v ≤ b) :
    (n.live site v).isEmpty = true := by
  have h := mem_serve h
  cases need with
  | full lo hi => exact ((serve_empty_iff n site lo hi v).mp ⟨s, a, b, h, hv.1, hv.2⟩).2.2.1
  | part w seqs =>
    have := (serve_empty_iff_part n site w seqs s a b).mp h
    obtain ⟨_, h2, h3, h4, _, _⟩ := this
    have : v = w := by omega
    subst this; exact h4

/-! ### partially buffered versions -/

/-- **C05 ("answers a partially buffered version with exactly the buffered ranges").**  For a
version with no live change and at least one buffered row, the answer to `Partial v seqs` is, for
each requested range `r` in order and each sequence row `row` of `(site, v)` (by `start_seq`)
selected by the SQL predicate `rowOverlaps r row`, the changeset
`max row.lo r.1 ..= min row.hi r.2` with the row's `last_seq`, carrying the buffered rows of
`(site, v)` whose seq lies in that range, by seq.  Nothing else — in particular no `Empty`. -/
theorem serve_partial_exact (n : Node) (site v : Nat) (seqs : List (Nat × Nat))
    (hl : (n.live site v).isEmpty = true) (hb : ∃ c ∈ n.buf, c.site = site ∧ c.dbv = v) :
    handleNeed n site (.part v seqs) =
      seqs.flatMap (fun r => ((seqRowsOf n site v).filter (rowOverlaps r)).map (fun row =>
        Item.full site v (Nat.max row.lo r.1) (Nat.min row.hi r.2) row.last
          (n.bufIn site v (Nat.max row.lo r.1) (Nat.min row.hi r.2)))) := by
  rw [handleNeed_part, hl, hasBuf_iff.mpr hb]
  simp only [Bool.not_true, Bool.false_eq_true, if_false, Bool.false_and, List.append_nil]
  rfl

/-- for forward rows and forward requests the SQL predicate selects exactly the rows that
intersect the requested range, so each emitted range is a non-empty intersection -/
theorem serve_partial_exact_overlap (r : Nat × Nat) (row : SeqRow) (hr : r.1 ≤ r.2)
    (hrow : row.lo ≤ row.hi) :
    rowOverlaps r row = true ↔ Nat.max row.lo r.1 ≤ Nat.min row.hi r.2 :=
  rowOverlaps_iff hr hrow

/-- **C05 (the changes sent for a partially buffered version are exactly the buffered rows in
sequence rows ∩ requested ranges).**  With forward sequence rows and forward requested ranges, a
change is carried by some changeset of the answer iff it is a buffered row of `(site, v)` whose seq
lies in a sequence row of `(site, v)` and in a requested range. -/
theorem serve_partial_exact_changes (n : Node) (hw : n.RowsForward) (site v : Nat)
    (seqs : List (Nat × Nat)) (hseqs : ∀ r ∈ seqs, r.1 ≤ r.2)
    (hl : (n.live site v).isEmpty = true) (hb : ∃ c ∈ n.buf, c.site = site ∧ c.dbv = v) (c : Chg) :
    (∃ s w lo hi last cs, Item.full s w lo hi last cs ∈ handleNeed n site (.part v seqs) ∧ c ∈ cs) ↔
      c ∈ n.buf ∧ c.site = site ∧ c.dbv = v ∧
        ∃ r ∈ seqs, ∃ row ∈ n.seqRows, row.site = site ∧ row.ver = v ∧
          row.lo ≤ c.seq ∧ c.seq ≤ row.hi ∧ r.1 ≤ c.seq ∧ c.seq ≤ r.2 := by
  have hmax : ∀ a b : Nat, Nat.max a b = max a b := fun _ _ => rfl
  have hmin : ∀ a b : Nat, Nat.min a b = min a b := fun _ _ => rfl
  constructor
  · rintro ⟨s, w, lo, hi, last, cs, hm, hc⟩
    rcases mem_handleNeed_part.mp hm with ⟨h1, _⟩ | ⟨_, _, r, hr, row, hrow, _, h6⟩ | ⟨_, _, _, h4⟩
    · rw [hl] at h1; cases h1
    · simp only [partItem, Item.full.injEq] at h6
      obtain ⟨rfl, rfl, rfl, rfl, rfl, rfl⟩ := h6
      have hc' := mem_bufIn.mp hc
      have hrow' := mem_seqRowsOf.mp hrow
      rw [hmax, hmin] at hc'
      exact ⟨hc'.1, hc'.2.1, hc'.2.2.1, r, hr, row, hrow'.1, hrow'.2.1, hrow'.2.2,
        by omega, by omega, by omega, by omega⟩
    · cases h4
  · rintro ⟨hc, h1, h2, r, hr, row, hrow, h3, h4, h5, h6, h7, h8⟩
    refine ⟨site, v, Nat.max row.lo r.1, Nat.min row.hi r.2, row.last,
      n.bufIn site v (Nat.max row.lo r.1) (Nat.min row.hi r.2), ?_, ?_⟩
    · refine mem_handleNeed_part.mpr (Or.inr (Or.inl ⟨hl, hasBuf_iff.mpr hb, r, hr, row,
        mem_seqRowsOf.mpr ⟨hrow, h3, h4⟩, ?_, rfl⟩))
      rw [rowOverlaps_iff (hseqs r hr) (hw row hrow).1, hmax, hmin]; omega
    · rw [mem_bufIn, hmax, hmin]
      exact ⟨hc, h1, h2, by omega, by omega⟩

/-- the answer to a `Full` need for such a version: one changeset per sequence row, carrying the
buffered rows inside the row's range (and no `Empty`, by `serve_empty_iff`). -/
theorem serve_partial_exact_full (n : Node) (site v : Nat)
    (hl : (n.live site v).isEmpty = true) (hb : ∃ c ∈ n.buf, c.site = site ∧ c.dbv = v) :
    handleNeed n site (.full v v) =
      (seqRowsOf n site v).map (fun r =>
        Item.full site v r.lo r.hi r.last (n.bufIn site v r.lo r.hi)) := by
  have hrest : restVs n site v v = [v] := by
    unfold restVs; rw [versionsAsc_single]; simp [hl]
  have hliv : liveItem n site v = none := by
    unfold liveItem; simp [hl]
  rw [handleNeed_full]
  unfold liveMsgs bufMsgs emptyRanges emptyVs
  rw [hrest, versionsDesc_single]
  simp [hliv, bufItemsOf, hasBuf_iff.mpr hb]
  intro a _; rfl

/-! ### silence -/

/-- **C05 ("stays silent about versions it does not hold").**  The sync server (`process_sync`'s
filter in front of `handle_need`) sends nothing for a need when it has no bookkeeping for the actor,
or when every requested version is in its `needed` set or beyond its (non-zero) head. -/
theorem serve_silent_if_all_needed (n : Node) (site : Nat) (need : Need)
    (h : n.book.find? (·.1 = site) = none ∨
      ∀ v, requests need v →
        RSet.Mem (n.booked site).needed v ∨ ((n.booked site).max ≠ 0 ∧ (n.booked site).max < v)) :
    n.serve site need = [] := by
  unfold Node.serve
  suffices hs : n.serves site need = false by rw [hs]; rfl
  unfold Node.serves
  rcases h with h | h
  · rw [h]
  · cases hf : n.book.find? (·.1 = site) with
    | none => rfl
    | some e =>
      obtain ⟨a, b⟩ := e
      have hb : n.booked site = b := by unfold Node.booked; rw [hf]; rfl
      rw [hb] at h
      have hlack : ∀ v, requests need v →
          (RSet.contains b.needed v || (b.max != 0 && decide (v > b.max))) = true := by
        intro v hv
        rcases h v hv with h1 | h1
        · rw [(RSet.contains_iff _ _).mpr h1]; rfl
        · simp [h1.1, h1.2]
      cases need with
      | full lo hi =>
        simp only [Bool.not_eq_false', List.all_eq_true]
        intro v hv
        exact hlack v (mem_versionsAsc.mp hv)
      | part w seqs =>
        simp only [Bool.not_eq_false']
        exact hlack w rfl

/-- a needed version requested alone is never answered -/
theorem serve_silent_if_needed (n : Node) (site v : Nat) (seqs : List (Nat × Nat))
    (h : RSet.Mem (n.booked site).needed v) :
    n.serve site (.full v v) = [] ∧ n.serve site (.part v seqs) = [] := by
  constructor
  · apply serve_silent_if_all_needed
    right; intro w hw
    have : w = v := by simp only [requests] at hw; omega
    subst this; exact Or.inl h
  · apply serve_silent_if_all_needed
    right; intro w hw
    simp only [requests] at hw
    subst hw; exact Or.inl h

/-! ### observation: `handle_need` answers beyond the head -/

/-- **Observation (outside the property's quantifier "within the heads it advertised").**
`handleNeed` itself does not look at the head: for a `Full` range that reaches beyond it, every
version above the head has no live change, no buffered row and is not needed, so it is declared
`Empty` (`serve_empty_iff`).  The `process_sync` filter drops a `Full` need only when ALL its
versions are lacking, so the answer gets through as soon as the range also contains one held
version.  Here: for every node and actor, any version `v` above every trace of the actor in the
node's state is declared empty by `handleNeed` for any `Full` range containing it. -/
theorem serve_beyond_head_observation (n : Node) (site lo hi v : Nat) (hv : lo ≤ v ∧ v ≤ hi)
    (hlive : (n.live site v).isEmpty = true) (hbuf : ∀ c ∈ n.buf, ¬ (c.site = site ∧ c.dbv = v))
    (hneed : ¬ RSet.Mem (n.booked site).needed v) :
    ∃ a b, Item.empty site a b ∈ handleNeed n site (.full lo hi) ∧ a ≤ v ∧ v ≤ b := by
  obtain ⟨s, a, b, hm, h1, h2⟩ := (serve_empty_iff n site lo hi v).mpr ⟨hv.1, hv.2, hlive, hbuf, hneed⟩
  refine ⟨a, b, ?_, h1, h2⟩
  rcases mem_handleNeed_full.mp hm with ⟨w, _, _, h3⟩ | ⟨w, r, _, _, _, _, _, h6⟩ | ⟨p, hp, he⟩
  · obtain ⟨_, he⟩ := liveItem_some h3; cases he
  · cases h6
  · simp only [Item.empty.injEq] at he
    obtain ⟨rfl, rfl, rfl⟩ := he
    exact mem_handleNeed_full.mpr (Or.inr (Or.inr ⟨p, hp, rfl⟩))

/-! ### concrete server states (non-vacuity) -/

namespace Ex

/-- the example server `srv` (`Lemmas/NodeEx.lean`): actor 1 has head 5, version 1 applied,
version 2 cleared, version 3 partially buffered (seqs 0..1 of 0..3), version 4 needed, version 5
applied; its sequence rows are forward -/
example : srv.book = [(1, { max := 5, needed := [(4, 4)], partials := [(3, ⟨[(0, 1)], 3⟩)] })] ∧
    srv.seqRows = [⟨1, 3, 0, 1, 3⟩] ∧ srv.buf = v3lo ∧ srv.RowsForward := by decide

/-- a `Full` need over the advertised head `1..=5`: version 5 and version 1 as single changesets,
version 3 as its buffered range `0..=1` (of `last_seq = 3`), version 2 declared empty; nothing
about the needed version 4 -/
example : srv.serve 1 (.full 1 5) =
    [Item.full 1 5 0 0 0 v5, Item.full 1 1 0 1 1 v1, Item.full 1 3 0 1 3 v3lo, Item.empty 1 2 2] := by
  decide

/-- hypotheses of `serve_full_tiles` at version 1, of `serve_partial_exact` at version 3 -/
example : (srv.live 1 1).isEmpty = false ∧ (srv.live 1 3).isEmpty = true ∧
    (∃ c ∈ srv.buf, c.site = 1 ∧ c.dbv = 3) := by decide

/-- a `Partial` need for the buffered version 3 asking for `1..=3`: the intersection `1..=1` -/
example : srv.serve 1 (.part 3 [(1, 3)]) = [Item.full 1 3 1 1 3 [ch "3" "b" 1 3 1]] := by decide

/-- a `Partial` need on a version with live changes: the requested range, live changes inside -/
example : srv.serve 1 (.part 1 [(1, 1)]) = [Item.full 1 1 1 1 1 [ch "1" "b" 1 1 1]] := by decide

/-- the needed version 4 and everything beyond the head requested alone: silence -/
example : srv.serve 1 (.full 4 4) = [] ∧ srv.serve 1 (.part 4 [(0, 0)]) = [] ∧
    srv.serve 1 (.full 6 9) = [] ∧ srv.serve 2 (.full 1 1) = [] := by decide

/-- **the concrete beyond-head observation**: the `Full` need `5..=7` contains the held version 5,
so it passes the `process_sync` filter, and versions 6 and 7 — which the server has never heard
of — are declared empty. -/
example : srv.serve 1 (.full 5 7) = [Item.full 1 5 0 0 0 v5, Item.empty 1 6 7] := by decide

/-- **Observation (the suspect of DESIGN §4 C03/C05).**  A node whose only chunk of a version is an
incomplete chunk WITHOUT changes (what a relay sends for a requested seq range all of whose
changes were overwritten) holds the version partially with sequence rows but no buffered row;
`serve_empty_iff` then applies: it declares the version empty although it only holds seqs 0..1 of
0..3.  (`serve_never_empty_for_buffered` speaks of versions with a buffered row.) -/
example :
    let n := (Node.fresh 9).deliver [Item.full 1 1 0 1 3 []]
    (n.booked 1).partial? 1 = some ⟨[(0, 1)], 3⟩ ∧ n.seqRows = [⟨1, 1, 0, 1, 3⟩] ∧ n.buf = [] ∧
    n.serve 1 (.full 1 1) = [Item.empty 1 1 1] := by decide

end Ex

end Corro.Node
