/-
C02 — advertised sync state is an exact, durable summary of what a node holds.
Property theorems only; the model is `Corro/Model/Book.lean`, helper lemmas are in
`Corro/Lemmas/Book*.lean`.

Vocabulary (defined next to the lemmas, repeated here in words):
* `GapsOk b rows`  — `b.needed` canonical (pairwise disjoint, non-adjacent, forward), `rows`
  (the actor's rows of `__corro_bookkeeping_gaps`) are exactly its intervals, every needed version
  is in `1 .. head` (strictly below the head).
* `VersOk S`       — what callers hand to `insert_db`: a non-empty canonical version set without
  version 0 (`1 ≤ lo`: `versions.start() - 1` underflows in the real code for version 0; that point
  is outside the property's quantifier and is excluded here explicitly).
* `Inv L st`       — the whole per-actor state is well formed: `GapsOk`, partial versions distinct,
  `≥ 1`, `≤ head`, not needed, with canonical non-empty seq sets and the origin's `last_seq = L v`;
  `__corro_seq_bookkeeping` mirrors the partials row by row; head = max(db-version row, partials).
* `OpOk L op`      — `insert` of a non-empty list of forward ranges with `1 ≤ lo`; a partial chunk
  for a version `v ≥ 1` carrying `last_seq = L v` (any seq range, also inverted ones); `reload`.
* `supHi S`        — the largest version of `S`.
* `Touched st ops` — versions that arrived while running `ops` (whole or as an accepted chunk);
  `Completed ops` — versions covered by a whole-version changeset of `ops`.
-/
import Corro.Lemmas.BookHist

namespace Corro.Book
open Corro Corro.RSet

/-! ## (1) what one `insert_db` computes -/

/-- "the versions a node lists as needed" after one `insert_db`: for a well-formed state and any
non-empty set `S` of versions ≥ 1, `insert_db` succeeds, the head becomes `max(head, sup S)` and, as
point sets, `needed' = (needed ∪ [head+1, sup S]) \ S`. -/
theorem insert_db_spec {b : Book} {rows : Rows} {S : RSet} (h : GapsOk b rows) (hS : VersOk S) :
    ∃ b' rows', insertDb b rows S = .ok (b', rows') ∧
      b'.max = some (max (b.max.getD 0) (supHi S)) ∧
      ∀ x, Mem b'.needed x ↔ (Mem b.needed x ∨ (b.max.getD 0 + 1 ≤ x ∧ x ≤ supHi S)) ∧ ¬ Mem S x := by
  obtain ⟨b', e1, _, e3, e4, _⟩ := insertDb_ok h hS
  exact ⟨b', b'.needed, e1, e3, e4⟩

/-- The same for what the callers actually pass: any non-empty list of forward ranges with
`1 ≤ lo` (overlapping, adjacent, repeated, in any order), collected into a `RangeInclusiveSet`. -/
theorem insert_db_spec_ranges {b : Book} {rows : Rows} {rs : List (Nat × Nat)} (h : GapsOk b rows)
    (hne : rs ≠ []) (hrs : ∀ r ∈ rs, 1 ≤ r.1 ∧ r.1 ≤ r.2) :
    ∃ b' rows', insertDb b rows (RSet.ofList rs) = .ok (b', rows') ∧
      b'.max = some (max (b.max.getD 0) (supHi rs)) ∧
      ∀ x, Mem b'.needed x ↔
        (Mem b.needed x ∨ (b.max.getD 0 + 1 ≤ x ∧ x ≤ supHi rs)) ∧ ¬ ∃ r ∈ rs, r.1 ≤ x ∧ x ≤ r.2 := by
  have hf : ∀ r ∈ rs, r.1 ≤ r.2 := fun r hr => (hrs r hr).2
  obtain ⟨b', rows', e1, e2, e3⟩ := insert_db_spec h (versOk_ofList hne hrs)
  rw [supHi_ofList hf] at e2 e3
  refine ⟨b', rows', e1, e2, ?_⟩
  intro x; rw [e3 x, mem_ofList hf x]

/-! ## (2) the result is canonical, durable and error free -/

/-- "gap ranges pairwise disjoint, non-adjacent, inside 1..head" and "the persisted gap records
describe the same set as the in-memory view": after `insert_db` on a well-formed state the new
`needed` is canonical, lies inside `1 .. head'`, the modelled `__corro_bookkeeping_gaps` rows are
exactly its intervals — and neither a `DELETE` with `count != 1` nor an `INSERT` primary-key
conflict occurs (those are the only error outcomes of `insertDb`). -/
theorem insert_db_wf_noerror {b : Book} {rows : Rows} {S : RSet} (h : GapsOk b rows) (hS : VersOk S) :
    ∃ b' rows', insertDb b rows S = .ok (b', rows') ∧ GapsOk b' rows' := by
  obtain ⟨b', e1, e2, e3, e4, _⟩ := insertDb_ok h hS
  refine ⟨b', b'.needed, e1, e2, rfl, ?_⟩
  intro x hx
  rw [e3]
  exact insertDb_inside h.inside hS ((e4 x).mp hx)

/-- partial versions survive `insert_db` untouched when none of them is needed (the
`self.partials.remove(&version)` loop only ever sees needed versions) -/
theorem insert_db_keeps_partials {b : Book} {rows : Rows} {S : RSet} (h : GapsOk b rows) (hS : VersOk S)
    (hp : ∀ e ∈ b.partials, ¬ Mem b.needed e.1) :
    ∃ b' rows', insertDb b rows S = .ok (b', rows') ∧ b'.partials = b.partials := by
  obtain ⟨b', e1, _, _, _, e5⟩ := insertDb_ok h hS
  exact ⟨b', b'.needed, e1, e5 hp⟩

/-! ## (3) every reachable state is well formed -/

/-- one operation of the property's quantifier keeps the invariant -/
theorem step_wf {L : Nat → Nat} {st : Node} (h : Inv L st) {op : Op} (hop : OpOk L op) :
    Inv L (step st op) := step_inv h hop

/-- "for every sequence of version-range insertions …, interleaved with partial-chunk insertions
for any versions, starting from any reachable bookkeeping state": the invariant holds after ANY
sequence of operations from any well-formed state … -/
theorem reachable_wf {L : Nat → Nat} (st : Node) (ops : List Op) (h : Inv L st)
    (hops : ∀ op ∈ ops, OpOk L op) : Inv L (run st ops) := run_inv ops st h hops

/-- … in particular from the empty state; spelled out: rows = in-memory `needed`, canonical, inside
`1 .. head`; partial versions are `≥ 1`, `≤ head`, not needed; the seq rows mirror the partials. -/
theorem reachable_wf_from_empty {L : Nat → Nat} (ops : List Op) (hops : ∀ op ∈ ops, OpOk L op) :
    let st := run Node.empty ops
    st.db.gaps = st.book.needed ∧ WF st.book.needed ∧
    (∀ x, Mem st.book.needed x → 1 ≤ x ∧ x < st.book.max.getD 0) ∧
    (∀ e ∈ st.book.partials, 1 ≤ e.1 ∧ e.1 ≤ st.book.max.getD 0 ∧ ¬ Mem st.book.needed e.1) ∧
    st.db.seqs = seqRowsOf st.book.partials := by
  have h := reachable_wf Node.empty ops (inv_empty L) hops
  exact ⟨h.gaps.rows, h.gaps.wf, h.gaps.inside,
    fun e he => ⟨keysFrom_forall h.keys e he, (h.pin e he).1, (h.pin e he).2⟩, h.seqrows⟩

/-! ## (4) what `generate_sync` advertises -/

/-- `v` is advertised as partially received: it is a buffered partial, it is listed in
`partial_need`, and the listed ranges are exactly (and non-vacuously) the seqs of `0..=last_seq`
that were not received. -/
def AdvPartial (b : Book) (out : SyncOut) (v : Nat) : Prop :=
  ∃ p, b.partials.lookup v = some p ∧
    out.partialNeed.lookup v = some (p.seqs.gaps (0, p.last)) ∧
    p.seqs.gaps (0, p.last) ≠ [] ∧
    ∀ q, Mem (p.seqs.gaps (0, p.last)) q ↔ q ≤ p.last ∧ ¬ Mem p.seqs q

/-- `v` is advertised as held: `contains_version` knows it, it is not in `partial_need`, and if
it is still buffered as a partial, every seq of `0..=last_seq` has arrived. -/
def AdvHeld (b : Book) (out : SyncOut) (v : Nat) : Prop :=
  containsVersion b v = true ∧ out.partialNeed.lookup v = none ∧
    ∀ p, b.partials.lookup v = some p → ∀ q, q ≤ p.last → Mem p.seqs q

/-- "the versions 1..head that a node advertises split exactly into versions it holds, versions it
lists as needed, and versions it lists as partially received together with exactly the missing
sequence ranges; nothing is in two classes and nothing is missing": on every well-formed (hence
every reachable) state, each version of `1..=head` is in exactly one of the three classes of
`generate_sync`'s output. -/
theorem advertised_partition {L : Nat → Nat} {st : Node} (h : Inv L st) (hd : Nat)
    (hhead : (generateSync st.book).head = some hd) (v : Nat) (_h1 : 1 ≤ v) (h2 : v ≤ hd) :
    let out := generateSync st.book
    (Mem out.need v ∧ ¬ AdvPartial st.book out v ∧ ¬ AdvHeld st.book out v) ∨
    (¬ Mem out.need v ∧ AdvPartial st.book out v ∧ ¬ AdvHeld st.book out v) ∨
    (¬ Mem out.need v ∧ ¬ AdvPartial st.book out v ∧ AdvHeld st.book out v) := by
  have hmax : st.book.max = some hd := by
    unfold generateSync at hhead
    cases hm : st.book.max with
    | none => rw [hm] at hhead; cases hhead
    | some x => rw [hm] at hhead; simp at hhead; rw [hhead]
  have hout : generateSync st.book = ⟨some hd, st.book.needed,
      (st.book.partials.filter (fun e => !e.2.isComplete)).map
        (fun e => (e.1, e.2.seqs.gaps (0, e.2.last)))⟩ := by
    unfold generateSync; rw [hmax]
  simp only [hout]
  have hlk := sync_lookup h.keys v
  have hcv : containsVersion st.book v = true ↔ ¬ Mem st.book.needed v := by
    unfold containsVersion
    rw [hmax]
    have := contains_iff st.book.needed v
    unfold RSet.contains at this
    simp only [Bool.and_eq_true, Bool.not_eq_true', Option.getD_some, decide_eq_true_eq, ge_iff_le]
    constructor
    · rintro ⟨hf, _⟩ hm
      rw [this.mpr hm] at hf; cases hf
    · intro hm
      refine ⟨?_, h2⟩
      cases hb : st.book.needed.any (fun r => decide (r.1 ≤ v) && decide (v ≤ r.2)) with
      | false => rfl
      | true => exact absurd (this.mp hb) hm
  by_cases hN : Mem st.book.needed v
  · refine Or.inl ⟨hN, ?_, ?_⟩
    · rintro ⟨p, hp, _⟩
      exact (h.pin _ (mem_of_lookup hp)).2 hN
    · rintro ⟨hc, _⟩
      exact (hcv.mp hc) hN
  · refine Or.inr ?_
    cases hl : st.book.partials.lookup v with
    | none =>
      rw [hl] at hlk
      refine Or.inr ⟨hN, ?_, hcv.mpr hN, hlk, ?_⟩
      · rintro ⟨p, hp, _⟩; rw [hl] at hp; cases hp
      · intro p hp; rw [hl] at hp; cases hp
    | some p =>
      rw [hl] at hlk
      have hw := (h.pwf _ (mem_of_lookup hl)).1
      by_cases hc : p.isComplete = true
      · simp only [hc, if_true] at hlk
        refine Or.inr ⟨hN, ?_, hcv.mpr hN, hlk, ?_⟩
        · rintro ⟨p', _, hp2, _⟩
          rw [hlk] at hp2; cases hp2
        · intro p' hp'
          rw [hl] at hp'
          cases hp'
          exact (isComplete_iff hw).mp hc
      · have hc' : p.isComplete = false := by simpa using hc
        simp only [hc', Bool.false_eq_true, if_false] at hlk
        refine Or.inl ⟨hN, ⟨p, hl, hlk, ?_, ?_⟩, ?_⟩
        · intro hnil
          unfold Partial.isComplete Partial.fullRange at hc'
          rw [hnil] at hc'
          simp at hc'
        · intro q
          rw [mem_gaps p.seqs 0 p.last q 0 hw]
          constructor
          · rintro ⟨⟨_, a⟩, b⟩; exact ⟨a, b⟩
          · rintro ⟨a, b⟩; exact ⟨⟨Nat.zero_le _, a⟩, b⟩
        · rintro ⟨_, hnone, _⟩
          rw [hlk] at hnone; cases hnone

/-- nothing outside `1..=head` is advertised, the advertised `need` is the canonical `needed`
set itself, and no version is listed twice in `partial_need`. -/
theorem advertised_inside {L : Nat → Nat} {st : Node} (h : Inv L st) :
    let out := generateSync st.book
    (∀ x, Mem out.need x → 1 ≤ x ∧ x < out.head.getD 0) ∧
    (out.head ≠ none → out.need = st.book.needed) ∧
    (∀ v g, out.partialNeed.lookup v = some g →
      ∃ p, (v, p) ∈ st.book.partials ∧ 1 ≤ v ∧ v ≤ out.head.getD 0 ∧ ¬ Mem out.need v) := by
  unfold generateSync
  cases hm : st.book.max with
  | none =>
    refine ⟨fun x hx => absurd hx (mem_nil x), fun hh => absurd rfl hh, ?_⟩
    intro v g hg; cases hg
  | some hd =>
    have hin := h.gaps.inside
    rw [hm] at hin
    refine ⟨hin, fun _ => rfl, ?_⟩
    intro v g hg
    have hlk := sync_lookup h.keys v
    simp only at hg
    rw [hlk] at hg
    cases hl : st.book.partials.lookup v with
    | none => rw [hl] at hg; cases hg
    | some p =>
      have hmem := mem_of_lookup hl
      have hp := h.pin _ hmem
      rw [hm] at hp
      exact ⟨p, hmem, keysFrom_forall h.keys _ hmem, hp.1, hp.2⟩

/-! ## (4b) the advertised state against the history of operations -/

/-- "a version is never advertised as held unless the transaction that stored it committed" and
"nothing is missing": after ANY sequence of operations from the empty state, with
`Touched ops` = the versions some executed operation handed to `insert_db` (complete, cleared or
partial; a skipped / dropped / rolled-back chunk touches nothing), the advertised `need` is exactly
`1..=head` minus `Touched`, everything touched lies in `1..=head`, and the head itself is a touched
version (or nothing was ever inserted). So `held ∪ partial = Touched`, whatever the order,
overlaps or repeats. -/
theorem advertised_exact {L : Nat → Nat} (ops : List Op) (hops : ∀ op ∈ ops, OpOk L op) :
    let st := run Node.empty ops
    let hd := st.book.max.getD 0
    (∀ x, Mem (generateSync st.book).need x ↔ 1 ≤ x ∧ x ≤ hd ∧ ¬ Touched Node.empty ops x) ∧
    (∀ x, Touched Node.empty ops x → 1 ≤ x ∧ x ≤ hd) ∧
    (hd = 0 ∨ Touched Node.empty ops hd) ∧
    (generateSync st.book).head = st.book.max := by
  obtain ⟨_, r2, r3, r4⟩ := run_needed (L := L) ops Node.empty (inv_empty L) hops
  have hneed : ∀ x, Mem (generateSync (run Node.empty ops).book).need x ↔
      Mem (run Node.empty ops).book.needed x := by
    intro x
    unfold generateSync
    cases hm : (run Node.empty ops).book.max with
    | none =>
      have hinv := reachable_wf (L := L) Node.empty ops (inv_empty L) hops
      have := hinv.gaps.inside x
      rw [hm] at this
      constructor
      · intro hx; exact absurd hx (mem_nil x)
      · intro hx; have := this hx; simp at this
    | some hd => exact Iff.rfl
  refine ⟨?_, r2, ?_, ?_⟩
  · intro x
    rw [hneed x, r3 x]
    have h0 : Node.empty.book.max.getD 0 = 0 := rfl
    have hn : ¬ Mem Node.empty.book.needed x := mem_nil x
    rw [h0]
    constructor
    · rintro ⟨h1 | h1, h2⟩
      · exact absurd h1 hn
      · exact ⟨by omega, h1.2, h2⟩
    · rintro ⟨h1, h2, h3⟩
      exact ⟨Or.inr ⟨by omega, h2⟩, h3⟩
  · rcases r4 with r4 | r4
    · exact Or.inl r4
    · exact Or.inr r4
  · unfold generateSync
    cases (run Node.empty ops).book.max <;> rfl

/-- "a version … it durably holds (applied or recorded as cleared)" is advertised as held: after ANY
sequence of operations from the empty state, every version that arrived as a whole (complete or
cleared changeset — also when a part of it was still buffered as an incomplete partial at that
moment, and also when the `contains_all` guard dropped the changeset as already known) is not
needed, lies in `1..=head`, is not in `partial_need`, and `contains_version` knows it.
(Before /repo 0a29c94 this was false: `partial 1 1-1 1` / `insert 1-1` left version 1 in
`partial_need`; the regression `example` below pins that sequence.) -/
theorem advertised_held {L : Nat → Nat} (ops : List Op) (hops : ∀ op ∈ ops, OpOk L op)
    (x : Nat) (hx : Completed ops x) :
    let st := run Node.empty ops
    let out := generateSync st.book
    ¬ Mem out.need x ∧ x ≤ out.head.getD 0 ∧ out.partialNeed.lookup x = none ∧
    containsVersion st.book x = true := by
  have hinv := reachable_wf (L := L) Node.empty ops (inv_empty L) hops
  have hheld := heldOk_run (L := L) ops Node.empty (fun _ => False) (inv_empty L) hops
    (fun _ hf => absurd hf id) x (Or.inr hx)
  obtain ⟨c1, c2, c3⟩ := hheld
  have hcv : containsVersion (run Node.empty ops).book x = true :=
    (containsVersion_iff _ _).mpr ⟨c1, c2⟩
  show ¬ Mem (generateSync (run Node.empty ops).book).need x ∧
    x ≤ (generateSync (run Node.empty ops).book).head.getD 0 ∧
    (generateSync (run Node.empty ops).book).partialNeed.lookup x = none ∧
    containsVersion (run Node.empty ops).book x = true
  unfold generateSync
  cases hm : (run Node.empty ops).book.max with
  | none =>
    rw [hm] at c2
    exact ⟨fun hh => absurd hh (mem_nil x), by simpa using c2, rfl, hcv⟩
  | some hd =>
    rw [hm] at c2
    refine ⟨c1, by simpa using c2, ?_, hcv⟩
    show List.lookup x _ = none
    rw [sync_lookup hinv.keys x]
    cases hl : (run Node.empty ops).book.partials.lookup x with
    | none => rfl
    | some p => simp [c3 p hl]

/-! ## (5) restart -/

/-- "the persisted gap and partial records always describe the same sets as the in-memory view":
reloading from the durable rows of a well-formed (hence of every reachable) state gives back the
same `BookedVersions` — the same `needed`, the same partials with the same seq sets, and the head,
which `from_conn` computes as max(`crsql_db_versions` row, partial versions). -/
theorem from_conn_roundtrip {L : Nat → Nat} {st : Node} (h : Inv L st) : fromConn st.db = st.book :=
  fromConn_eq h

/-- what `from_conn` guarantees about the head on its own: it is the larger of the db-version row
and the partial versions read from `__corro_seq_bookkeeping` (gap rows never move it). -/
theorem from_conn_head {L : Nat → Nat} {st : Node} (h : Inv L st) :
    (fromConn st.db).max.getD 0 = max (st.db.dbv.getD 0) (supKeys st.book.partials) := by
  rw [fromConn_eq h]; exact h.head1

/-! ## the hypotheses are satisfiable by non-trivial states -/

/-- a state with two gaps and head 10 is `GapsOk` … -/
example : GapsOk ⟨[], [(2, 3), (7, 8)], some 10⟩ [(2, 3), (7, 8)] :=
  ⟨by simp [WF, WFfrom], rfl, by
    intro x hx
    simp only [Mem, List.mem_cons, List.not_mem_nil, or_false] at hx
    obtain ⟨p, (rfl | rfl), h1, h2⟩ := hx <;> simp at * <;> omega⟩

/-- … `{3..=7, 12..=12}` is a legal argument … -/
example : VersOk [(3, 7), (12, 12)] :=
  ⟨by simp [WF, WFfrom], by simp, by
    intro x hx
    simp only [Mem, List.mem_cons, List.not_mem_nil, or_false] at hx
    obtain ⟨p, (rfl | rfl), h1, _⟩ := hx <;> simp at * <;> omega⟩

/-- … and `insert_db` splits, shrinks and creates gaps on it exactly as `insert_db_spec` says:
`({2,3,7,8} ∪ [11,12]) \ {3..7,12} = {2, 8, 11}`. -/
example : insertDb ⟨[], [(2, 3), (7, 8)], some 10⟩ [(2, 3), (7, 8)] [(3, 7), (12, 12)] =
    .ok (⟨[], [(2, 2), (8, 8), (11, 11)], some 12⟩, [(2, 2), (8, 8), (11, 11)]) := by rfl

/-- a reachable state with gaps, an incomplete partial missing only seq 0, and a complete one -/
example : run Node.empty [.ins [(5, 6)], .part 9 (1, 3) 3, .part 2 (0, 0) 1, .part 2 (1, 1) 1, .ins [(12, 12)]] =
    ⟨⟨[(2, ⟨[(0, 1)], 1⟩), (9, ⟨[(1, 3)], 3⟩)], [(1, 1), (3, 4), (7, 8), (10, 11)], some 12⟩,
     ⟨[(1, 1), (3, 4), (7, 8), (10, 11)], [(2, 0, 1, 1), (9, 1, 3, 3)], some 12⟩⟩ := by decide

/-- its operations are inside the quantifier (`L 9 = 3`, `L 2 = 1`) -/
example : ∀ op ∈ [Op.ins [(5, 6)], .part 9 (1, 3) 3, .part 2 (0, 0) 1, .part 2 (1, 1) 1, .ins [(12, 12)]],
    OpOk (fun v => if v = 9 then 3 else 1) op := by
  intro op hop
  simp only [List.mem_cons, List.not_mem_nil, or_false] at hop
  rcases hop with rfl | rfl | rfl | rfl | rfl <;> simp [OpOk]

/-- and what it advertises: head 12, four gaps, version 9 partial with exactly seq 0 missing,
version 2 (complete partial) held. -/
example : generateSync (run Node.empty
      [.ins [(5, 6)], .part 9 (1, 3) 3, .part 2 (0, 0) 1, .part 2 (1, 1) 1, .ins [(12, 12)]]).book =
    ⟨some 12, [(1, 1), (3, 4), (7, 8), (10, 11)], [(9, [(0, 0)])]⟩ := by decide

/-- reload of that state is the identity -/
example : opReload (run Node.empty [.ins [(5, 6)], .part 9 (1, 3) 3, .part 2 (0, 0) 1, .part 2 (1, 1) 1]) =
    run Node.empty [.ins [(5, 6)], .part 9 (1, 3) 3, .part 2 (0, 0) 1, .part 2 (1, 1) 1] := by decide

/-- regression (fixed in /repo 0a29c94): a complete changeset over a still incomplete partial
drops the partial; the version is advertised as held -/
example : generateSync (run Node.empty [.part 1 (1, 1) 1, .ins [(1, 1)]]).book = ⟨some 1, [], []⟩ := by
  decide

/-- regression (fixed in /repo 15a7241): a cleared version that supersedes the partial which was
the head writes the db-version row, so the head survives a restart -/
example : opReload (run Node.empty [.part 2 (0, 0) 1, .ins [(2, 2)]]) =
    ⟨⟨[], [(1, 1)], some 2⟩, ⟨[(1, 1)], [], some 2⟩⟩ := by decide

/-- the hypothesis of `advertised_held` holds of a history in which whole versions arrive over an
incomplete partial (2), over a complete one (7) and as an already known range (5-6) -/
example : Completed [.part 2 (0, 0) 1, .part 7 (0, 0) 1, .part 7 (1, 1) 1, .ins [(5, 6)], .ins [(2, 2), (7, 7)],
    .ins [(5, 6)]] 7 := ⟨[(2, 2), (7, 7)], by simp, (7, 7), by simp, by simp⟩

end Corro.Book
