/-
C04 — Sync requests ask for everything the peer can give and nothing it cannot.

"Given its own sync state and a peer's advertised state, a node requests from that peer every
version, and every missing sequence range of a partially held version, that the peer advertises as
held and the node lacks.  Every request stays within the peer's advertised head, and a node never
asks a peer for versions it authored itself."  — for every pair of well-formed sync states.

Property theorems only; the model is `Corro/Model/Needs.lean` (`compute_available_needs` and the
client-side chunking / de-duplication of `parallel_sync`), helper lemmas are in
`Corro/Lemmas/Needs.lean`, `Corro/Lemmas/NeedsDedup.lean`, `Corro/Lemmas/NeedsSession.lean`,
`Corro/Lemmas/NeedsNoDup.lean`.
-/
import Corro.Lemmas.Needs
import Corro.Lemmas.NeedsSession
import Corro.Lemmas.NeedsNoDup
import Corro.Gen.SyncConsts

namespace Corro.Needs
open Corro.RSet

/-! ### vocabulary of the statement -/

/-- the head a state advertises for an actor; `0` for an actor it does not list. -/
def headOf (s : SyncState) (a : Actor) : Nat := (aget a s.heads).getD 0

/-- Well-formed advertised state (the property's quantifier), as produced by `generate_sync`:
maps are maps (keys strictly increasing = canonical list form); every `need` range is a forward
range inside `1..=head`; every partial version lies in `1..=head`, is not also listed in `need`,
and its missing-seq ranges are forward.  (Nothing is assumed about the number of actors, about
which side knows which actor, about ordering/disjointness of the ranges, or about `head ≠ 0`.) -/
def SyncState.WF (s : SyncState) : Prop :=
  KeysSorted s.heads ∧ KeysSorted s.need ∧ KeysSorted s.partialNeed ∧
  (∀ e ∈ s.partialNeed, KeysSorted e.2) ∧
  (∀ e ∈ s.need, ∀ r ∈ e.2, 1 ≤ r.1 ∧ r.1 ≤ r.2 ∧ r.2 ≤ headOf s e.1) ∧
  (∀ e ∈ s.partialNeed, ∀ p ∈ e.2,
    1 ≤ p.1 ∧ p.1 ≤ headOf s e.1 ∧ ¬ Mem (needOf s e.1) p.1 ∧ ∀ r ∈ p.2, r.1 ≤ r.2)

instance (s : SyncState) : Decidable s.WF := by unfold SyncState.WF; infer_instance

/-- `s` advertises version `v` of actor `a` as (fully) held: within its head, neither needed nor
partial. -/
def Holds (s : SyncState) (a : Actor) (v : Nat) : Prop :=
  1 ≤ v ∧ v ≤ headOf s a ∧ ¬ Mem (needOf s a) v ∧ aget v (partialsOf s a) = none

/-- `s` lacks version `v` of actor `a` altogether: it is listed in `need`, or lies beyond the head
(an actor unknown to `s` has head 0, so every version `≥ 1` is beyond it). -/
def Lacks (s : SyncState) (a : Actor) (v : Nat) : Prop :=
  Mem (needOf s a) v ∨ headOf s a < v

instance (s : SyncState) (a : Actor) (v : Nat) : Decidable (Holds s a v) := by
  unfold Holds; infer_instance
instance (s : SyncState) (a : Actor) (v : Nat) : Decidable (Lacks s a v) := by
  unfold Lacks; infer_instance

/-- a request stays within what the peer advertised: `Full` ranges are forward and inside
`1..=head`; a `Partial` request names a version inside `1..=head`, forward seq ranges, and either
the peer holds the version fully or it holds it partially and none of the requested seqs is among
the seqs the peer itself is missing. -/
def Need.WithinAdvertised (peer : SyncState) (a : Actor) : Need → Prop
  | .full lo hi => 1 ≤ lo ∧ lo ≤ hi ∧ hi ≤ headOf peer a
  | .part v sq => 1 ≤ v ∧ v ≤ headOf peer a ∧ (∀ r ∈ sq, r.1 ≤ r.2) ∧
      (Holds peer a v ∨ ∃ os, aget v (partialsOf peer a) = some os ∧ ∀ s, Mem sq s → ¬ Mem os s)

/-- a request only names things we lack. -/
def Need.LackedBy (us : SyncState) (a : Actor) : Need → Prop
  | .full lo hi => ∀ x, lo ≤ x → x ≤ hi → Lacks us a x
  | .part v sq => ∃ seqs, (v, seqs) ∈ partialsOf us a ∧ ∀ s, Mem sq s → Mem seqs s

/-! ### (1) completeness -/

/-- **C04, sentence 1 (versions).**  Every version the peer advertises as held and we lack (listed
in our `need`, or beyond our head, or of an actor we do not know) is covered by a `Full` request —
for every foreign actor. -/
theorem full_complete (us peer : SyncState) (hp : peer.WF) (a : Actor) (v : Nat)
    (ha : a ≠ us.actor) (hh : Holds peer a v) (hl : Lacks us a v) :
    ∃ ns, (a, ns) ∈ computeAvailableNeeds us peer ∧
      ∃ lo hi, Need.full lo hi ∈ ns ∧ lo ≤ v ∧ v ≤ hi := by
  obtain ⟨hv1, hv2, hnn, hnp⟩ := hh
  obtain ⟨_, _, _, _, hneed, _⟩ := hp
  -- the peer lists the actor with a non-zero head
  cases hg : aget a peer.heads with
  | none => simp [headOf, hg] at hv2; omega
  | some head =>
    have hhead : headOf peer a = head := by simp [headOf, hg]
    rw [hhead] at hv2
    have hfw : ∀ r ∈ needOf peer a, r.1 ≤ r.2 := by
      intro r hr
      obtain ⟨rs, hrs, hr2⟩ := needOf_mem hr
      exact (hneed _ hrs r hr2).2.1
    refine ⟨needsFor us peer a head, ?_⟩
    have key : ∃ lo hi, Need.full lo hi ∈ needsFor us peer a head ∧ lo ≤ v ∧ v ≤ hi := by
      rcases hl with hl | hl
      · -- listed in our need: the overlap with what the peer has
        obtain ⟨r, hr, hrv⟩ := hl
        have hmem : Mem (otherHaves head (needOf peer a) (partialsOf peer a)) v :=
          (mem_otherHaves head (by omega) _ _ hfw v).mpr ⟨⟨hv1, hv2⟩, hnn, aget_eq_none.mp hnp⟩
        obtain ⟨p, hp, hx⟩ := (mem_clip_overlapping _ r v).mpr ⟨hrv, hmem⟩
        exact ⟨_, _, mem_needsFor.mpr (Or.inl (mem_fullFromNeed.mpr ⟨r, hr, p, hp, rfl⟩)), hx⟩
      · -- beyond our head / actor unknown to us
        cases hu : aget a us.heads with
        | none =>
          exact ⟨1, head, mem_needsFor.mpr (Or.inr (Or.inr (by rw [hu]; exact mem_missing.mpr (Or.inl ⟨rfl, rfl⟩)))),
            hv1, hv2⟩
        | some oh =>
          have : oh < v := by simpa [headOf, hu] using hl
          exact ⟨oh + 1, head, mem_needsFor.mpr (Or.inr (Or.inr (by
            rw [hu]; exact mem_missing.mpr (Or.inr ⟨oh, rfl, by omega, rfl⟩)))), by omega, hv2⟩
    obtain ⟨lo, hi, hn, h1, h2⟩ := key
    exact ⟨mem_compute_of_mem_needsFor (aget_mem hg) ha (by omega) hn, lo, hi, hn, h1, h2⟩

/-- **C04, sentence 1 (sequence ranges).**  For a version we hold partially, every seq we miss
(`s` inside one of our advertised missing ranges) that the peer can give — because it holds the
version fully, or holds it partially and `s` is not among the seqs it is missing itself — is
covered by a `Partial` request for that version. -/
theorem partial_complete (us peer : SyncState) (hp : peer.WF) (a : Actor) (v s : Nat)
    (seqs : List (Nat × Nat)) (ha : a ≠ us.actor)
    (hv : (v, seqs) ∈ partialsOf us a) (hs : Mem seqs s)
    (hpeer : Holds peer a v ∨ ∃ os, aget v (partialsOf peer a) = some os ∧ ¬ Mem os s) :
    ∃ ns, (a, ns) ∈ computeAvailableNeeds us peer ∧
      ∃ sq, Need.part v sq ∈ ns ∧ Mem sq s := by
  obtain ⟨_, _, _, _, hneed, hpart⟩ := hp
  have hfw : ∀ r ∈ needOf peer a, r.1 ≤ r.2 := by
    intro r hr
    obtain ⟨rs, hrs, hr2⟩ := needOf_mem hr
    exact (hneed _ hrs r hr2).2.1
  -- in both cases the peer lists the actor with a head ≥ v ≥ 1
  have hbound : 1 ≤ v ∧ v ≤ headOf peer a := by
    rcases hpeer with hh | ⟨os, hos, _⟩
    · exact ⟨hh.1, hh.2.1⟩
    · obtain ⟨pm, hpm, hin⟩ := partialsOf_mem (aget_mem hos)
      have := hpart _ hpm _ hin
      exact ⟨this.1, this.2.1⟩
  cases hg : aget a peer.heads with
  | none => simp [headOf, hg] at hbound; omega
  | some head =>
    have hhead : headOf peer a = head := by simp [headOf, hg]
    rw [hhead] at hbound
    refine ⟨needsFor us peer a head, ?_⟩
    have key : ∃ sq, Need.part v sq ∈ needsFor us peer a head ∧ Mem sq s := by
      rcases hpeer with hh | ⟨os, hos, hnot⟩
      · -- the peer holds the version fully: all our missing ranges are requested
        have hmem : Mem (otherHaves head (needOf peer a) (partialsOf peer a)) v :=
          (mem_otherHaves head (by omega) _ _ hfw v).mpr ⟨hbound, hh.2.2.1, aget_eq_none.mp hh.2.2.2⟩
        exact ⟨seqs, mem_needsFor.mpr (Or.inr (Or.inl (mem_partialNeeds.mpr
          ⟨(v, seqs), hv, Or.inl ⟨hmem, rfl⟩⟩))), hs⟩
      · -- both partial
        have hin := aget_mem hos
        have hnmem : ¬ Mem (otherHaves head (needOf peer a) (partialsOf peer a)) v := by
          intro hm
          exact ((mem_otherHaves head (by omega) _ _ hfw v).mp hm).2.2 _ hin rfl
        obtain ⟨pm, hpm, hin2⟩ := partialsOf_mem hin
        have hofw : ∀ r ∈ os, r.1 ≤ r.2 := (hpart _ hpm _ hin2).2.2.2
        have hsm : Mem (partialSeqs seqs os) s := (mem_partialSeqs seqs os hofw s).mpr ⟨hs, hnot⟩
        have hne : partialSeqs seqs os ≠ [] := by
          intro he; rw [he] at hsm; exact mem_nil s hsm
        exact ⟨partialSeqs seqs os, mem_needsFor.mpr (Or.inr (Or.inl (mem_partialNeeds.mpr
          ⟨(v, seqs), hv, Or.inr ⟨hnmem, os, hos, hne, rfl⟩⟩))), hsm⟩
    obtain ⟨sq, hn, hm⟩ := key
    exact ⟨mem_compute_of_mem_needsFor (aget_mem hg) ha (by omega) hn, sq, hn, hm⟩

/-! ### (2) nothing beyond what the peer advertised -/

/-- **C04, sentence 2.**  Every request stays within the peer's advertised head (and is a forward
range starting at version 1 or later); `Partial` requests name only seqs the peer advertised as
received. -/
theorem requests_within_head (us peer : SyncState) (hu : us.WF) (hp : peer.WF) :
    ∀ a ns, (a, ns) ∈ computeAvailableNeeds us peer → ∀ n ∈ ns, n.WithinAdvertised peer a := by
  intro a ns hmem n hn
  obtain ⟨head, hhm, _, hh0, rfl, _⟩ := mem_computeAvailableNeeds.mp hmem
  obtain ⟨hks, _, _, _, hneed, hpart⟩ := hp
  obtain ⟨_, _, _, _, huneed, hupart⟩ := hu
  have hhead : headOf peer a = head := by simp [headOf, aget_of_mem hks hhm]
  have hfw : ∀ r ∈ needOf peer a, r.1 ≤ r.2 := by
    intro r hr
    obtain ⟨rs, hrs, hr2⟩ := needOf_mem hr
    exact (hneed _ hrs r hr2).2.1
  have hh1 : 1 ≤ head := by omega
  have hwf := otherHaves_wf head hh1 (needOf peer a) (partialsOf peer a) hfw
  have hmo := mem_otherHaves head hh1 (needOf peer a) (partialsOf peer a) hfw
  rcases mem_needsFor.mp hn with h | h | h
  · -- overlap of our need with the peer's haves
    obtain ⟨r, hr, p, hp, rfl⟩ := mem_fullFromNeed.mp h
    obtain ⟨rs, hrs, hr2⟩ := needOf_mem hr
    have hrf := (huneed _ hrs r hr2).2.1
    obtain ⟨hps, b1, b2, b3, b4, b5⟩ := clip_overlapping_bounds _ (wf_forward hwf) r hrf p hp
    have hpf := wf_forward hwf p hps
    have hlo := (hmo p.1).mp ⟨p, hps, Nat.le_refl _, hpf⟩
    have hhi := (hmo p.2).mp ⟨p, hps, hpf, Nat.le_refl _⟩
    simp only [Need.WithinAdvertised, hhead]
    omega
  · obtain ⟨q, hq, h⟩ := mem_partialNeeds.mp h
    obtain ⟨pm, hpm, hq2⟩ := partialsOf_mem hq
    have hqf := (hupart _ hpm _ hq2).2.2.2
    rcases h with ⟨hm, rfl⟩ | ⟨_, os, hos, _, rfl⟩
    · -- the peer holds the version fully
      have := (hmo q.1).mp hm
      simp only [Need.WithinAdvertised, hhead]
      exact ⟨this.1.1, this.1.2, hqf, Or.inl ⟨this.1.1, by rw [hhead]; exact this.1.2, this.2.1,
        aget_eq_none.mpr this.2.2⟩⟩
    · -- both partial
      obtain ⟨pm2, hpm2, hin2⟩ := partialsOf_mem (aget_mem hos)
      have hw := hpart _ hpm2 _ hin2
      simp only [Need.WithinAdvertised]
      refine ⟨hw.1, hw.2.1, partialSeqs_forward _ _ hqf hw.2.2.2, Or.inr ⟨os, hos, ?_⟩⟩
      intro s hs
      exact ((mem_partialSeqs _ _ hw.2.2.2 s).mp hs).2
  · -- beyond our head
    rcases mem_missing.mp h with ⟨_, rfl⟩ | ⟨oh, _, hlt, rfl⟩ <;>
      simp only [Need.WithinAdvertised, hhead] <;> omega

/-- **C04, sentence 1, "…and the node lacks".**  Nothing is requested that we already have: every
version of a `Full` request is listed in our `need` or lies beyond our head, every seq of a
`Partial` request lies in one of our missing ranges of that version.  (No hypothesis needed.) -/
theorem requests_are_lacked (us peer : SyncState) :
    ∀ a ns, (a, ns) ∈ computeAvailableNeeds us peer → ∀ n ∈ ns, n.LackedBy us a := by
  intro a ns hmem n hn
  obtain ⟨head, _, _, _, rfl, _⟩ := mem_computeAvailableNeeds.mp hmem
  rcases mem_needsFor.mp hn with h | h | h
  · obtain ⟨r, hr, p, hp, rfl⟩ := mem_fullFromNeed.mp h
    intro x h1 h2
    have := (mem_clip_overlapping _ r x).mp ⟨p, hp, h1, h2⟩
    exact Or.inl ⟨r, hr, this.1⟩
  · obtain ⟨q, hq, h⟩ := mem_partialNeeds.mp h
    rcases h with ⟨_, rfl⟩ | ⟨_, os, _, _, rfl⟩
    · exact ⟨q.2, hq, fun s hs => hs⟩
    · refine ⟨q.2, hq, fun s hs => ?_⟩
      obtain ⟨c, hc, hx⟩ := hs
      unfold partialSeqs at hc
      split at hc
      · cases hc
      · obtain ⟨r, hr, hc2⟩ := List.mem_flatMap.mp hc
        obtain ⟨p, hp, rfl⟩ := List.mem_map.mp hc2
        exact ⟨r, hr, ((mem_clip_overlapping _ r s).mp ⟨p, hp, hx⟩).1⟩
  · rcases mem_missing.mp h with ⟨hnone, rfl⟩ | ⟨oh, hsome, _, rfl⟩
    · intro x h1 _; right; simp [headOf, hnone]; omega
    · intro x h1 _; right; simp [headOf, hsome]; omega

/-- The stronger reading "every requested version is one the peer advertises as **held**" (DESIGN
`needs_sound`) is false of the code: the range beyond our head, `our_head+1 ..= head`, is requested
whole, including versions the peer lists in its own `need`.  Concrete input: we know actor 2 up to
version 1; the peer advertises head 3 for actor 2 and needs version 2 itself.  The code asks the
peer for versions 2..=3. -/
theorem full_requests_held_counterexample :
    ∃ us peer : SyncState, us.WF ∧ peer.WF ∧
      ∃ a ns lo hi x, (a, ns) ∈ computeAvailableNeeds us peer ∧ Need.full lo hi ∈ ns ∧
        lo ≤ x ∧ x ≤ hi ∧ ¬ Holds peer a x :=
  ⟨⟨1, [(2, 1)], [], []⟩, ⟨9, [(2, 3)], [(2, [(2, 2)])], []⟩, by decide, by decide,
    2, [Need.full 2 3], 2, 3, 2, by decide, by decide, by decide, by decide, by decide⟩

/-- What does hold for every `Full` request: each requested version is either held by the peer and
listed in our `need`, or lies in `our_head+1 ..= peer's head` (where the peer may or may not hold
it). -/
theorem full_requests_held_partial (us peer : SyncState) (hp : peer.WF) :
    ∀ a ns, (a, ns) ∈ computeAvailableNeeds us peer → ∀ lo hi, Need.full lo hi ∈ ns →
      ∀ x, lo ≤ x → x ≤ hi →
        (Holds peer a x ∧ Mem (needOf us a) x) ∨ (headOf us a < x ∧ x ≤ headOf peer a) := by
  intro a ns hmem lo hi hn x h1 h2
  obtain ⟨head, hhm, _, hh0, rfl, _⟩ := mem_computeAvailableNeeds.mp hmem
  obtain ⟨hks, _, _, _, hneed, _⟩ := hp
  have hhead : headOf peer a = head := by simp [headOf, aget_of_mem hks hhm]
  have hfw : ∀ r ∈ needOf peer a, r.1 ≤ r.2 := by
    intro r hr
    obtain ⟨rs, hrs, hr2⟩ := needOf_mem hr
    exact (hneed _ hrs r hr2).2.1
  rcases mem_needsFor.mp hn with h | h | h
  · obtain ⟨r, hr, p, hp, heq⟩ := mem_fullFromNeed.mp h
    cases heq
    have := (mem_clip_overlapping _ r x).mp ⟨p, hp, h1, h2⟩
    have hm := (mem_otherHaves head (by omega) _ _ hfw x).mp this.2
    exact Or.inl ⟨⟨hm.1.1, by rw [hhead]; exact hm.1.2, hm.2.1, aget_eq_none.mpr hm.2.2⟩, r, hr, this.1⟩
  · obtain ⟨q, _, h⟩ := mem_partialNeeds.mp h
    rcases h with ⟨_, h⟩ | ⟨_, _, _, _, h⟩ <;> cases h
  · rcases mem_missing.mp h with ⟨hnone, heq⟩ | ⟨oh, hsome, _, heq⟩
    · cases heq; right; rw [hhead]; simp only [headOf, hnone, Option.getD_none]; omega
    · cases heq; right; rw [hhead]; simp only [headOf, hsome, Option.getD_some]; omega

/-! ### (3) never our own actor -/

/-- **C04, sentence 3.**  No request is ever made for the versions we authored ourselves, whatever
the peer advertises about them.  (No hypothesis needed.) -/
theorem never_own_actor (us peer : SyncState) :
    ∀ a ns, (a, ns) ∈ computeAvailableNeeds us peer → a ≠ us.actor := by
  intro a ns hmem
  obtain ⟨_, _, ha, _⟩ := mem_computeAvailableNeeds.mp hmem
  exact ha

/-! ### (4) request chunking and de-duplication on the client (`parallel_sync`)

`syncSession k d us peers` is everything put on the wire, as `(server, actor, need)`, in one
session with the peers whose handshake succeeded: the needs computed per peer are cut with
`chunk_range(_, k)`, queued per server, popped `d` at a time from the back, server after server,
and filtered through `req_full` / `req_partials`, which are shared by all servers of the session
(`k = d = 10` in the code as it stands; the theorems hold for all `k, d ≥ 1`, so a retune of either
constant to any positive value changes neither proof nor correspondence).

Tie to the code.  The code is inline in a task spawned by `parallel_sync`, so it is exercised through
`parallel_sync` itself: the harness (`harness/src/c04.rs`, op `session`) calls the real
`parallel_sync(agent, transport, members, our_sync_state)` of a real `Agent` + `Transport` against
1–4 fake peers on real QUIC endpoints, each answering the handshake with a crafted `State` and
recording every `SyncMessageV1::Request` it receives; the driver prints `codeSession us peers`, i.e.
`syncSession k d us peers` at the `k`, `d` that `tools/extract_c04.py` reads off peer/mod.rs at the start of every
check (`Corro/Gen/SyncConsts.lean`; `code_consts_admissible`, `code_session_sound` below).
The order of the servers (handshake completion order in the code, list order here) and the order of
the `Partial` needs of one actor (iteration order of our inner `HashMap`; ascending version here) are
forced by the harness; the whole sending order `(server, actor, need)` is compared whenever no server
has needs for two or more actors.  The order of the ACTORS in one server's queue (iteration order of
the `HashMap` that `compute_available_needs` returns; ascending here) cannot be forced: then the
comparison is per server and actor when every such server is drained in its first turn (≤ `d` items),
and of the order-independent unions otherwise.  The three theorems below are additionally checked as
an oracle on the real messages of every session.  Peers whose handshake fails are simply not in
`peers`.  Not modelled and not exercised: a failing `encode_sync_msg` / `write_buf` in the sending
task (the server is dropped for the session while its ranges stay in `req_full`/`req_partials`). -/

/-- **C04, observation "Request messages sent by parallel_sync".**  The union of what is actually
sent over a session equals the union of the computed needs — per actor for versions, per actor and
version for seqs: nothing computed is dropped by the chunking or the de-duplication, and nothing
outside the computed needs is sent. -/
theorem dedup_preserves_union (k d : Nat) (hk : 1 ≤ k) (hd : 1 ≤ d) (us : SyncState)
    (peers : List SyncState) (hu : us.WF) (hp : ∀ p ∈ peers, p.WF) :
    (∀ a x, (∃ srv lo hi, (srv, a, Need.full lo hi) ∈ syncSession k d us peers ∧ lo ≤ x ∧ x ≤ hi) ↔
        ∃ p ∈ peers, ∃ ns lo hi, (a, ns) ∈ computeAvailableNeeds us p ∧ Need.full lo hi ∈ ns ∧
          lo ≤ x ∧ x ≤ hi) ∧
    (∀ a v s, (∃ srv sq, (srv, a, Need.part v sq) ∈ syncSession k d us peers ∧ Mem sq s) ↔
        ∃ p ∈ peers, ∃ ns sq, (a, ns) ∈ computeAvailableNeeds us p ∧ Need.part v sq ∈ ns ∧
          Mem sq s) := by
  have hfw : ∀ p ∈ peers, ∀ a ns, (a, ns) ∈ computeAvailableNeeds us p → ∀ n ∈ ns, n.Forward := by
    intro p hpp a ns hm n hn
    have := requests_within_head us p hu (hp p hpp) a ns hm n hn
    cases n with
    | full lo hi => exact this.2.1
    | part v sq => exact this.2.2.1
  obtain ⟨h1, h2, _⟩ := session_spec k d hk hd us peers hfw
  exact ⟨h1, h2⟩

/-- Each server is only ever asked for (a sub-range of) something that was computed as available
from *that* server; so sentences 2 and 3 of the property carry over from the computed needs to the
messages on the wire. -/
theorem dedup_within_server (k d : Nat) (hk : 1 ≤ k) (hd : 1 ≤ d) (us : SyncState)
    (peers : List SyncState) (hu : us.WF) (hp : ∀ p ∈ peers, p.WF) :
    ∀ srv a n, (srv, a, n) ∈ syncSession k d us peers →
      ∃ p ∈ peers, p.actor = srv ∧ ∃ ns n0, (a, ns) ∈ computeAvailableNeeds us p ∧ n0 ∈ ns ∧
        n.SubOf n0 := by
  have hfw : ∀ p ∈ peers, ∀ a ns, (a, ns) ∈ computeAvailableNeeds us p → ∀ n ∈ ns, n.Forward := by
    intro p hpp a ns hm n hn
    have := requests_within_head us p hu (hp p hpp) a ns hm n hn
    cases n with
    | full lo hi => exact this.2.1
    | part v sq => exact this.2.2.1
  exact (session_spec k d hk hd us peers hfw).2.2

/-- Within one session nothing is asked for twice, from whichever server: any two entries on the
wire for the same actor are disjoint (`Full` ranges share no version; `Partial` needs of the same
version share no seq).  In particular the one-version overlap of consecutive `chunk_range` blocks
never reaches the wire. -/
theorem dedup_no_duplicates (k d : Nat) (hk : 1 ≤ k) (hd : 1 ≤ d) (us : SyncState)
    (peers : List SyncState) (hu : us.WF) (hp : ∀ p ∈ peers, p.WF) :
    (syncSession k d us peers).Pairwise DisjointReq := by
  apply session_pairwise k d hk hd us peers
  intro p hpp a ns hm n hn
  have := requests_within_head us p hu (hp p hpp) a ns hm n hn
  cases n with
  | full lo hi => exact this.2.1
  | part v sq => exact this.2.2.1

/-! ### the constants the code has today (regenerated: `Corro/Gen/SyncConsts.lean`) -/

/-- the session exactly as the code runs it: chunk size and drain count as extracted from
`parallel_sync` (`chunk_range(versions, k)`, `while drained < d`).  This is what the driver prints. -/
def codeSession (us : SyncState) (peers : List SyncState) : List (Actor × Actor × Need) :=
  syncSession Corro.Gen.SyncConsts.syncChunkSize Corro.Gen.SyncConsts.syncDrainPerRound us peers

/-- The side conditions `k ≥ 1`, `d ≥ 1` of the three theorems above hold for the constants found in
the source (re-checked on every run against the regenerated file; a retune to `0` — `step_by(0)`
panics, `while drained < 0` never sends — is the only retune that fails here). -/
theorem code_consts_admissible :
    1 ≤ Corro.Gen.SyncConsts.syncChunkSize ∧ 1 ≤ Corro.Gen.SyncConsts.syncDrainPerRound := by decide

/-- Instantiation of `dedup_preserves_union`, `dedup_within_server`, `dedup_no_duplicates` at the
code's own constants, with no hypothesis left on them. -/
theorem code_session_sound (us : SyncState) (peers : List SyncState) (hu : us.WF)
    (hp : ∀ p ∈ peers, p.WF) :
    ((∀ a x, (∃ srv lo hi, (srv, a, Need.full lo hi) ∈ codeSession us peers ∧ lo ≤ x ∧ x ≤ hi) ↔
        ∃ p ∈ peers, ∃ ns lo hi, (a, ns) ∈ computeAvailableNeeds us p ∧ Need.full lo hi ∈ ns ∧
          lo ≤ x ∧ x ≤ hi) ∧
     (∀ a v s, (∃ srv sq, (srv, a, Need.part v sq) ∈ codeSession us peers ∧ Mem sq s) ↔
        ∃ p ∈ peers, ∃ ns sq, (a, ns) ∈ computeAvailableNeeds us p ∧ Need.part v sq ∈ ns ∧
          Mem sq s)) ∧
    (∀ srv a n, (srv, a, n) ∈ codeSession us peers →
      ∃ p ∈ peers, p.actor = srv ∧ ∃ ns n0, (a, ns) ∈ computeAvailableNeeds us p ∧ n0 ∈ ns ∧
        n.SubOf n0) ∧
    (codeSession us peers).Pairwise DisjointReq :=
  ⟨dedup_preserves_union _ _ code_consts_admissible.1 code_consts_admissible.2 us peers hu hp,
   dedup_within_server _ _ code_consts_admissible.1 code_consts_admissible.2 us peers hu hp,
   dedup_no_duplicates _ _ code_consts_admissible.1 code_consts_admissible.2 us peers hu hp⟩

/-! ### non-vacuity: concrete well-formed states exercising every branch -/

/-- we: actor 1; know actor 2 up to 3, need its version 1, hold version 3 partially. -/
def exUs : SyncState :=
  ⟨1, [(1, 5), (2, 3)], [(2, [(1, 1)])], [(2, [(3, [(0, 1), (3, 3)])])]⟩
/-- peer 9: lists our own actor, actor 2 up to 6 (needs 5, partial 3 and 4), actor 3 (unknown to us). -/
def exPeer : SyncState :=
  ⟨9, [(1, 7), (2, 6), (3, 2)], [(2, [(5, 5)])], [(2, [(3, [(1, 4)]), (4, [(0, 0)])])]⟩
/-- peer 8: holds all of actor 2 up to 25. -/
def exPeer2 : SyncState := ⟨8, [(2, 25)], [], []⟩

example : exUs.WF ∧ exPeer.WF ∧ exPeer2.WF := by decide
example : computeAvailableNeeds exUs exPeer =
    [(2, [Need.full 1 1, Need.part 3 [(0, 0)], Need.full 4 6]), (3, [Need.full 1 2])] := by decide
example : Holds exPeer 2 1 ∧ Lacks exUs 2 1 ∧ Holds exPeer 2 6 ∧ Lacks exUs 2 6 ∧
    Holds exPeer 3 2 ∧ Lacks exUs 3 2 := by decide
example : computeAvailableNeeds exUs exPeer2 =
    [(2, [Need.full 1 1, Need.part 3 [(0, 1), (3, 3)], Need.full 4 25])] := by decide
/-- a session with both peers (at `k = d = 10`): the second server is asked only for what the first was not. -/
example : syncSession 10 10 exUs [exPeer, exPeer2] =
    [(9, 3, Need.full 1 2), (9, 2, Need.full 4 6), (9, 2, Need.part 3 [(0, 0)]), (9, 2, Need.full 1 1),
     (8, 2, Need.full 24 25), (8, 2, Need.full 14 23), (8, 2, Need.full 7 13),
     (8, 2, Need.part 3 [(1, 1), (3, 3)])] := by decide

end Corro.Needs
