/-
C17 — the HTTP API enforces its token on every route; read endpoints cannot write.
Property theorems only; the model is `Corro/Model/Authz.lean`, the route table
`Corro/Gen/Routes.lean` is regenerated from util.rs at the start of every check.

Statement (properties.jsonl): "When an API token is configured, every API route rejects a request
that does not carry exactly that bearer token with a client-error status and performs no action; with
no token configured all routes are open.  Whatever statement is submitted to the query or subscription
endpoints, the node's database and bookkeeping are left unchanged."

What is NOT proved here (trusted, exercised by the harness on a live listener): axum's layering
semantics (`serve`), `TypedHeader<Authorization<Bearer>>` parsing (`parseHeader` is a model of it),
`sqlite3_stmt_readonly`, the read-only open flag of the pooled connection, and that a statement that
passes the gates does not write (that half of the last sentence is only checked by the harness oracle).
-/
import Corro.Model.Authz
import Corro.Gen.Routes

namespace Corro.Authz

/-- **Sentence 1, the decision.** With a token configured a request is authorized iff its header
parsed to exactly that bearer token; with none configured every request is. -/
theorem authz_exact (t : Token) (h : HeaderShape) :
    (authorize (some t) h = true ↔ h = .bearer t) ∧ authorize none h = true := by
  refine ⟨?_, rfl⟩
  cases h <;> simp [authorize, HeaderShape.token?]

/-- **Sentence 1, "rejects … with a client-error status and performs no action".** With a token
configured, for every handler (any state type) and every state: a request whose header is not exactly
`Bearer token` is answered 4xx, the state is unchanged, and the answer is the same whatever the inner
handler is (it was not invoked). -/
theorem denied_runs_nothing {σ : Type} (t : Token) (h : HeaderShape) (next next' : Handler σ) (st : σ)
    (hne : h ≠ .bearer t) :
    (middleware (some t) h next st).2 = st ∧
    400 ≤ (middleware (some t) h next st).1 ∧ (middleware (some t) h next st).1 < 500 ∧
    middleware (some t) h next st = middleware (some t) h next' st := by
  have hna : authorize (some t) h = false := by
    cases hb : authorize (some t) h with
    | false => rfl
    | true => exact absurd ((authz_exact t h).1.1 hb) hne
  cases h <;> simp [middleware, hna]

/-- The right token reaches the handler unchanged. -/
theorem authorized_runs_handler {σ : Type} (t : Token) (next : Handler σ) (st : σ) :
    middleware (some t) (.bearer t) next st = next st := by
  simp [middleware, authorize, HeaderShape.token?]

/-- **Sentence 1, "with no token configured all routes are open"** — as far as the code goes: a request
without an Authorization header, or with any well-formed bearer header, reaches the handler. -/
theorem open_when_unconfigured {σ : Type} (h : HeaderShape) (next : Handler σ) (st : σ)
    (hm : h ≠ .malformed) : middleware none h next st = next st := by
  cases h <;> simp_all [middleware, authorize]

/-- … and the part of "all routes are open" that the code does NOT deliver: an Authorization header
that is present but not a well-formed `Bearer …` (e.g. `Basic …`) is answered 400 by the extractor
even when no token is configured (nothing runs; a rejection, not a leak). -/
theorem malformed_rejected_even_unconfigured {σ : Type} (cfg : Option Token) (next : Handler σ) (st : σ) :
    middleware cfg .malformed next st = (400, st) := rfl

/-- **Sentence 1, "every API route".** Over the table regenerated from util.rs: there is exactly one
authz layer and every `.route(..)` precedes it. -/
theorem all_routes_guarded :
    Corro.Gen.Routes.authzLayers = 1 ∧ Corro.Gen.Routes.routes ≠ [] ∧
    ∀ r ∈ Corro.Gen.Routes.routes, r.guarded = true := by
  decide

/-- The two together: every extracted route, served as axum serves it, rejects without running. -/
theorem every_route_denies {σ : Type} (r : Corro.Gen.Routes.Route) (hr : r ∈ Corro.Gen.Routes.routes)
    (t : Token) (h : HeaderShape) (handler : Handler σ) (st : σ) (hne : h ≠ .bearer t) :
    (serve r.guarded (some t) h handler st).2 = st ∧
    400 ≤ (serve r.guarded (some t) h handler st).1 ∧ (serve r.guarded (some t) h handler st).1 < 500 := by
  have hg : r.guarded = true := all_routes_guarded.2.2 r hr
  have := denied_runs_nothing t h handler handler st hne
  simp only [serve, hg, if_true]
  exact ⟨this.1, this.2.1, this.2.2.1⟩

/-- **Sentence 2, the gates.** A statement that sqlite classifies as not read-only is answered 400
without being executed, and so is one that does not prepare; a subscription whose SQL is not a single
SELECT is refused without the matcher running.  (That a statement which *passes* the gate leaves the
database unchanged is sqlite's `stmt_readonly` + the read-only connection: trusted, and what the
harness oracle checks on ≈ 300 statement texts.) -/
theorem read_gate {σ : Type} (exec exec' : Handler σ) (st : σ) :
    queryHandler (.ok false) exec st = (400, st) ∧
    queryHandler .error exec st = (400, st) ∧
    subHandler false exec st = (500, st) ∧
    (∀ p, p ≠ Prep.ok true → queryHandler p exec st = queryHandler p exec' st) := by
  refine ⟨rfl, rfl, rfl, ?_⟩
  intro p hp
  cases p with
  | error => rfl
  | ok ro => cases ro <;> simp_all [queryHandler, readGate]

/-- The header model accepts exactly the canonical spelling `Bearer <tok>` as that token
(for a token of visible ASCII that does not start with whitespace). -/
theorem parse_canonical (tok : List Char) (hv : tok.all isStrByte = true)
    (hw : ∀ c, tok.head? = some c → isWs c = false) :
    parseHeader [['B', 'e', 'a', 'r', 'e', 'r', ' '] ++ tok] = .bearer (String.ofList tok) := by
  have hdw : tok.dropWhile isWs = tok := by
    cases tok with
    | nil => rfl
    | cons c cs => simp [List.dropWhile, hw c rfl]
  have hlow : "bearer".toList = ['b', 'e', 'a', 'r', 'e', 'r'] := by decide
  have hc : (decide ((['B', 'e', 'a', 'r', 'e', 'r', ' '] ++ tok).length > 6)
      && (['B', 'e', 'a', 'r', 'e', 'r', ' '] ++ tok).getD 6 'x' == ' '
      && ((['B', 'e', 'a', 'r', 'e', 'r', ' '] ++ tok).take 6).map asciiLower == "bearer".toList
      && (['B', 'e', 'a', 'r', 'e', 'r', ' '] ++ tok).all isStrByte) = true := by
    have e1 : asciiLower 'B' = 'b' := by decide
    have e2 : asciiLower 'e' = 'e' := by decide
    have e3 : asciiLower 'a' = 'a' := by decide
    have e4 : asciiLower 'r' = 'r' := by decide
    have s1 : isStrByte 'B' = true := by decide
    have s2 : isStrByte 'e' = true := by decide
    have s3 : isStrByte 'a' = true := by decide
    have s4 : isStrByte 'r' = true := by decide
    have s5 : isStrByte ' ' = true := by decide
    have hv' : ∀ x ∈ tok, isStrByte x = true := by simpa using hv
    simp [hlow, e1, e2, e3, e4, s1, s2, s3, s4, s5]
    exact hv'
  show parseValue (['B', 'e', 'a', 'r', 'e', 'r', ' '] ++ tok) = _
  unfold parseValue
  rw [if_pos hc]
  simp [hdw]

/-! ### non-vacuity / concrete behaviour -/

-- a handler that counts its invocations: denied requests leave the counter alone, the right token bumps it
example : middleware (some "s3cr3t") (.bearer "s3cr3") (fun n => (200, n + 1)) 0 = (401, 0) := by decide
example : middleware (some "s3cr3t") (.bearer "s3cr3tx") (fun n => (200, n + 1)) 0 = (401, 0) := by decide
example : middleware (some "s3cr3t") (.bearer "S3CR3T") (fun n => (200, n + 1)) 0 = (401, 0) := by decide
example : middleware (some "s3cr3t") .missing (fun n => (200, n + 1)) 0 = (401, 0) := by decide
example : middleware (some "s3cr3t") .malformed (fun n => (200, n + 1)) 0 = (400, 0) := by decide
example : middleware (some "s3cr3t") (.bearer "s3cr3t") (fun n => (200, n + 1)) 0 = (200, 1) := by decide
example : middleware none .missing (fun n => (200, n + 1)) 0 = (200, 1) := by decide
example : middleware none .malformed (fun n => (200, n + 1)) 0 = (400, 0) := by decide
-- header parsing: scheme is case-insensitive, extra spaces before the token are dropped, only the first
-- header counts, `Basic`, a bare token and `Bearer` without a space are malformed
example : parseHeader ["Bearer abc".toList] = .bearer "abc" := by decide
example : parseHeader ["bEARER   abc".toList] = .bearer "abc" := by decide
example : parseHeader ["Bearer abc def".toList] = .bearer "abc def" := by decide
example : parseHeader ["Bearer wrong".toList, "Bearer abc".toList] = .bearer "wrong" := by decide
example : parseHeader ["Basic YWJjOmRlZg==".toList] = .malformed := by decide
example : parseHeader ["abc".toList] = .malformed := by decide
example : parseHeader ["Bearerabc".toList] = .malformed := by decide
example : parseHeader ["Bearer\tabc".toList] = .malformed := by decide
example : parseHeader [] = .missing := by decide
-- the route table is not empty and contains the write endpoint
example : (Corro.Gen.Routes.routes.map (·.path)).contains "/v1/transactions" = true := by decide
-- gates
example : queryHandler (.ok true) (fun n => (200, n + 1)) 0 = (200, 1) := by decide
example : queryHandler (.ok false) (fun n => (200, n + 1)) 0 = (400, 0) := by decide
example : subHandler true (fun n => (200, n + 1)) 0 = (200, 1) := by decide

end Corro.Authz
