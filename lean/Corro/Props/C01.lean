/-
C01 — replicas converge under any delivery order, duplication, chunking and loss: the CRDT-level
theorems, about the executable model `Corro/Model/Crdt.lean` of the cr-sqlite cell store.
Property theorems only; definitions (`spec`, `view`, `Chg.WF`, `Complete`, `Inv`) and the
work-horse `merge_fold_inv` are in `Corro/Lemmas/Crdt*.lean`.

Reading guide.  `spec S` is the merge of a *set* of changes defined without `merge`
(`Lemmas/CrdtSpec.lean`): per row the largest causal length `cl*`; if `cl*` is odd, per column the
`(colv, value, site)`-maximum of the changes that carry `cl*`.  `view db` is what the property
compares (per row `cl`, per cell value and column version; not the attribution).  `Inv db P` says
"`db` is a merge of the set `P`".  Everything below follows from `Inv (mergeAll ∅ P) P`
(`inv_mergeAll_empty`), which needs NO side condition on the changes.
-/
import Corro.Lemmas.CrdtView
import Corro.Lemmas.CrdtLocal

namespace Corro.Crdt

/-! ### the merge order is a strict total order -/

/-- **C01 ("equal to the merge of all transactions").**  The order `wins` decides by is a strict
total order on the key `(col_version, value, site)`, so "the winner" of a cell is well defined. -/
theorem wins_order_strict_total :
    (∀ a : Key, keyLt a a = false) ∧
    (∀ a b c : Key, keyLt a b = true → keyLt b c = true → keyLt a c = true) ∧
    (∀ a b : Key, keyLt a b = false → keyLt b a = false → a = b) ∧
    (∀ (c : Chg) (l : Cell), wins c l = keyLt l.key c.key) :=
  ⟨keyLt_irrefl, fun _ _ _ => keyLt_trans, fun _ _ => keyLt_total, wins_eq_keyLt⟩

/-- the value order used at equal column versions is a strict total order -/
theorem val_order_strict_total :
    (∀ a : Val, a.lt a = false) ∧
    (∀ a b c : Val, a.lt b = true → b.lt c = true → a.lt c = true) ∧
    (∀ a b : Val, a.lt b = false → b.lt a = false → a = b) :=
  ⟨Val.lt_irrefl, fun _ _ _ => Val.lt_trans, fun _ _ => Val.lt_total⟩

/-! ### convergence -/

/-- **C01 ("same per-cell CRDT versions … causal length").**  After merging any list of changes in
any order with any duplication, the causal length of every row is the largest one delivered for
that row.  No side condition. -/
theorem row_cl_is_max (s : Nat) (P : List Chg) (t p : String) :
    (view (mergeAll (Db.empty s) P) t p).cl = specCl P t p :=
  (inv_mergeAll_empty s P).cl_eq t p

/-- **C01 ("all nodes end up with byte-identical contents … and the same per-cell CRDT versions,
equal to the merge of all transactions … no matter how the change messages were reordered,
duplicated …").**  Two replicas that merged the same *set* of well-formed changes — in any two
orders, each change any number of times — show the same view, and it is the specification of that
set, provided the set is incarnation-complete (`Complete`: every column the set mentions for a live
row has a change in the row's final incarnation; histories of local transactions are, because an
INSERT writes every non-key column). -/
theorem merge_order_irrelevant (s s' : Nat) (P Q : List Chg) (hsame : ∀ c, c ∈ P ↔ c ∈ Q)
    (hwf : ∀ c ∈ P, c.WF) (hc : Complete P) :
    view (mergeAll (Db.empty s) P) = spec P ∧ view (mergeAll (Db.empty s') Q) = spec P := by
  have hcs := hc.strong hwf
  refine ⟨(inv_mergeAll_empty s P).view_eq hcs, ?_⟩
  exact ((inv_mergeAll_empty s' Q).congr (fun c => (hsame c).symm)).view_eq hcs

/-- the same without `Chg.WF`: it is enough that the change of the final incarnation carries a
positive column version.  This covers sets that contain re-exported zeroed leftovers
(`Db.changes` of a relay shows them with `col_version = 0`). -/
theorem merge_order_irrelevant_strong (s s' : Nat) (P Q : List Chg) (hsame : ∀ c, c ∈ P ↔ c ∈ Q)
    (hc : CompleteStrong P) :
    view (mergeAll (Db.empty s) P) = spec P ∧ view (mergeAll (Db.empty s') Q) = spec P :=
  ⟨(inv_mergeAll_empty s P).view_eq hc,
    ((inv_mergeAll_empty s' Q).congr (fun c => (hsame c).symm)).view_eq hc⟩

/-- **C01 (convergence).**  The two replicas agree. -/
theorem replicas_converge (s s' : Nat) (P Q : List Chg) (hsame : ∀ c, c ∈ P ↔ c ∈ Q)
    (hwf : ∀ c ∈ P, c.WF) (hc : Complete P) :
    view (mergeAll (Db.empty s) P) = view (mergeAll (Db.empty s') Q) := by
  have := merge_order_irrelevant s s' P Q hsame hwf hc
  rw [this.1, this.2]

/-- **C01 without `Complete`.**  For ANY two delivery orders of the same set of well-formed
changes: every row has the same causal length `cl*` (the maximum); a row whose `cl*` is even, and
the sentinel column, show no cell; every cell that has a change in the final incarnation shows the
specification's winner on both replicas; and whatever else a replica shows is a zeroed leftover
(`col_version = 0`).  The zeroed leftovers are the only order-dependent part of the view
(`leftover_depends_on_order` below). -/
theorem merge_order_irrelevant_partial (s s' : Nat) (P Q : List Chg) (hsame : ∀ c, c ∈ P ↔ c ∈ Q)
    (hwf : ∀ c ∈ P, c.WF) :
    let A := mergeAll (Db.empty s) P
    let B := mergeAll (Db.empty s') Q
    (∀ t p, (view A t p).cl = specCl P t p ∧ (view B t p).cl = specCl P t p) ∧
    (∀ t p x, specCl P t p % 2 = 0 ∨ x = sentinel →
      (view A t p).cell x = none ∧ (view B t p).cell x = none) ∧
    (∀ t p x, specCl P t p % 2 = 1 → x ≠ sentinel → (∃ d ∈ P, d.atCell t p x (specCl P t p)) →
      (view A t p).cell x = specCell P t p x ∧ (view B t p).cell x = specCell P t p x) ∧
    (∀ t p x, (∀ d ∈ P, ¬ d.atCell t p x (specCl P t p)) →
      (∀ v n, (view A t p).cell x = some (v, n) → n = 0) ∧
      (∀ v n, (view B t p).cell x = some (v, n) → n = 0)) := by
  intro A B
  have hA : Inv A P := inv_mergeAll_empty s P
  have hB : Inv B P := (inv_mergeAll_empty s' Q).congr (fun c => (hsame c).symm)
  have hzero : ∀ (D : Db), Inv D P → ∀ t p x, (∀ d ∈ P, ¬ d.atCell t p x (specCl P t p)) →
      ∀ v n, (view D t p).cell x = some (v, n) → n = 0 := by
    intro D hD t p x hno v n hv
    change (D.cell t p x).map _ = _ at hv
    cases hl : D.cell t p x with
    | none => rw [hl] at hv; cases hv
    | some l =>
      rw [hl] at hv
      simp only [Option.map_some, Option.some.injEq, Prod.mk.injEq] at hv
      rw [← hv.2]
      exact hD.leftover_zero hl hno
  refine ⟨fun t p => ⟨hA.cl_eq t p, hB.cl_eq t p⟩, ?_, ?_, ?_⟩
  · intro t p x h
    constructor
    · show (A.cell t p x).map _ = none
      rw [hA.cell_none h]; rfl
    · show (B.cell t p x).map _ = none
      rw [hB.cell_none h]; rfl
  · intro t p x hodd hx ⟨d, hd, hat⟩
    have hd' : ∃ d ∈ P, d.atCell t p x (specCl P t p) ∧ 1 ≤ d.colv :=
      ⟨d, hd, hat, hwf d hd (by rw [hat.2.2.1]; exact hx)⟩
    exact ⟨hA.cell_eq hodd hx hd', hB.cell_eq hodd hx hd'⟩
  · intro t p x hno
    exact ⟨hzero A hA t p x hno, hzero B hB t p x hno⟩

/-! ### duplication, re-delivery, dominated changes -/

/-- **C01 ("duplicated").**  Delivering a list a second time changes nothing — not only in the
view: the database is literally the same.  `db` is any database reachable from the empty one
(`hreach`; e.g. `mergeAll ∅ P₀`). -/
theorem merge_idempotent (db : Db) (P₀ P : List Chg) (hreach : Inv db P₀) :
    mergeAll (mergeAll db P) P = mergeAll db P :=
  (merge_fold_inv hreach P).absorbAll (fun c hc => by simp [hc])

/-- the statement asked for, on views -/
theorem merge_idempotent_view (db : Db) (P₀ P : List Chg) (hreach : Inv db P₀) :
    view (mergeAll (mergeAll db P) P) = view (mergeAll db P) := by
  rw [merge_idempotent db P₀ P hreach]

/-- **C01 ("duplicated, delayed").**  Re-delivering, at any later time and in any order, any
changes that were already merged leaves the database unchanged. -/
theorem merge_redelivery (s : Nat) (P R : List Chg) (hR : ∀ c ∈ R, c ∈ P) :
    mergeAll (mergeAll (Db.empty s) P) R = mergeAll (Db.empty s) P :=
  (inv_mergeAll_empty s P).absorbAll hR

/-- **C01 ("split into partial chunks").**  Delivering a history chunk by chunk is the fold over
the concatenation, so every statement above about lists covers every chunking (and, with
`hsame`, every interleaving of chunks of different versions). -/
theorem merge_chunks_flatten (db : Db) (chunks : List (List Chg)) :
    chunks.foldl mergeAll db = mergeAll db chunks.flatten := by
  induction chunks generalizing db with
  | nil => rfl
  | cons ch chs ih =>
    simp only [List.foldl_cons, List.flatten_cons, ih]
    unfold mergeAll
    rw [List.foldl_append]

/-- **C01 (a change below the row's causal length is ignored).**  Any database, any change. -/
theorem merge_ignores_lower_cl (db : Db) (c : Chg) (h : c.cl < db.cl c.tbl c.pk) :
    merge db c = db := by
  rw [merge_eq]
  suffices hs : mergeRow (db.findRow c.tbl c.pk) c = none by rw [hs]; rfl
  unfold mergeRow
  exact if_pos h

/-- **C01 (a dominated change is ignored).**  A column change of the row's current incarnation
whose key `(col_version, value, site)` is not above the stored cell's leaves the database
literally unchanged.  Any database, any change. -/
theorem merge_ignores_dominated (db : Db) (c : Chg) (r : Row) (l : Cell)
    (hr : db.findRow c.tbl c.pk = some r) (hcl : c.cl = r.cl) (hl : r.findCell c.cid = some l)
    (hdom : keyLt l.key c.key = false) : merge db c = db := by
  rw [merge_eq, hr]
  suffices hs : mergeRow (some r) c = none by rw [hs]; rfl
  refine mergeRow_elim (Q := fun x => x = none) (some r) c ?_ ?_ ?_ ?_ ?_ ?_ ?_ ?_ ?_
  · intro _; rfl
  · intro _ _; rfl
  · intro _ hgt; simp [lclOf] at hgt; omega
  · intro _ _ _; rfl
  · intro _ _ hgt; simp [lclOf] at hgt; omega
  · intro _ _ hgt; simp [lclOf] at hgt; omega
  · intro _ _ r' hr' _ hf; cases hr'; rw [hl] at hf; cases hf
  · intro _ _ r' l' hr' _ hf hw
    cases hr'; rw [hl] at hf; cases hf
    rw [wins_eq_keyLt, hdom] at hw; cases hw
  · intro _ _ _ _ _ _ _ _; rfl

/-- a delete or a sentinel carrying the row's current causal length is ignored -/
theorem merge_ignores_same_cl_sentinel (db : Db) (c : Chg) (hcl : c.cl = db.cl c.tbl c.pk)
    (h : c.cl % 2 = 0 ∨ c.cid = sentinel) : merge db c = db := by
  rw [merge_eq]
  suffices hs : mergeRow (db.findRow c.tbl c.pk) c = none by rw [hs]; rfl
  have hcl' : c.cl = lclOf (db.findRow c.tbl c.pk) := hcl
  refine mergeRow_elim (Q := fun x => x = none) (db.findRow c.tbl c.pk) c ?_ ?_ ?_ ?_ ?_ ?_ ?_ ?_ ?_
  · intro _; rfl
  · intro _ _; rfl
  · intro _ hgt; omega
  · intro _ _ _; rfl
  · intro _ _ hgt; omega
  · intro _ _ hgt; omega
  · intro ho hns _ _ _ _
    rcases h with h | h
    · omega
    · exact absurd h hns
  · intro ho hns _ _ _ _ _ _
    rcases h with h | h
    · omega
    · exact absurd h hns
  · intro _ _ _ _ _ _ _ _; rfl

/-! ### nothing is invented, nothing is hidden -/

/-- keys stay unique in every reachable database, hence the lookups `view` is made of see every
stored row and cell (`findRow_of_mem`, `findCell_of_mem`) -/
theorem reachable_noDup (s : Nat) (P : List Chg) : (mergeAll (Db.empty s) P).NoDup :=
  mergeAll_noDup P ⟨List.Pairwise.nil, fun _ h => by cases h⟩

/-- **C01 ("a node never shows a value that no acknowledged transaction produced").**  Every stored
row of `mergeAll ∅ P` carries the causal length of a change of `P` for that row, and every stored
cell carries the value — and the attribution `(site, db_version, seq)` — of a change of `P` for that
row and column. -/
theorem no_invented_values (s : Nat) (P : List Chg) :
    ∀ r ∈ (mergeAll (Db.empty s) P).rows,
      (∃ c ∈ P, c.tbl = r.tbl ∧ c.pk = r.pk ∧ c.cl = r.cl) ∧
      ∀ l ∈ r.cells, ∃ c ∈ P, c.tbl = r.tbl ∧ c.pk = r.pk ∧ c.cid = l.cid ∧ l.cid ≠ sentinel ∧
        c.val = l.val ∧ c.site = l.clk.site ∧ c.dbv = l.clk.dbv ∧ c.seq = l.clk.seq := by
  intro r hr
  have hnd := reachable_noDup s P
  have hi := inv_mergeAll_empty s P
  have hf := findRow_of_mem hnd hr
  refine ⟨hi.row_prov hf, ?_⟩
  intro l hl
  have hfc := findCell_of_mem (hnd.2 r hr) hl
  exact hi.cell_prov (by rw [Db.cell_eq hf]; exact hfc)

/-! ### local writes produce incarnation-complete histories -/

/-- **An INSERT emits a change for every non-key column** (the reason histories of local
transactions are incarnation-complete): the change list of a local transaction consisting of one
INSERT contains, for every non-key column of the table, a change of column version 1 that carries
the row's new (odd) causal length and is attributed to the writing site and the new version. -/
theorem localTx_insert_emits_all_columns {db : Db} {tbl pk : String}
    {assigns : List (String × Val)} {cols : List String} {db' : Db} {ver : Nat} {chs : List Chg}
    (hc : tableCols tbl = some cols)
    (h : localTx db [.ins tbl pk assigns] = .ok (db', some (ver, chs))) :
    db'.cl tbl pk % 2 = 1 ∧ ver = db.dbv + 1 ∧
    ∀ col ∈ cols, ∃ c ∈ chs, c.tbl = tbl ∧ c.pk = pk ∧ c.cid = col ∧ c.cl = db'.cl tbl pk ∧
      c.colv = 1 ∧ c.site = db.site ∧ c.dbv = ver := by
  unfold localTx at h
  simp only [applyStmts] at h
  cases happ : applyStmt db (db.dbv + 1) 0 (.ins tbl pk assigns) with
  | error e => rw [happ] at h; cases h
  | ok res =>
    obtain ⟨db1, seq1⟩ := res
    rw [happ] at h
    simp only [] at h
    split at h
    · cases h
    · simp only [Except.ok.injEq, Prod.mk.injEq, Option.some.injEq] at h
      obtain ⟨h1, h2, h3⟩ := h
      subst h1; subst h2; subst h3
      obtain ⟨r, hr, ht, hp, hodd, hsite, hcells⟩ := applyStmt_ins_row hc happ
      have hcl : Db.cl { db1 with dbv := db.dbv + 1 } tbl pk = r.cl := by
        show lclOf (db1.findRow tbl pk) = r.cl
        rw [hr]; rfl
      refine ⟨by rw [hcl]; exact hodd, rfl, ?_⟩
      intro col hcol
      obtain ⟨l, hl, h4, h5, h6, h7⟩ := hcells col hcol
      have hmem := mem_changes_of_cell (findRow_some hr).2.2 hl
      refine ⟨_, mem_sortBySeq.mpr (List.mem_filter.mpr ⟨hmem, ?_⟩), ht, hp, h4, hcl.symm, h5, h6, h7⟩
      have := le_foldl_max hmem 0
      simp only [decide_eq_true_eq]
      exact ⟨h6, h7, Nat.zero_le _, this⟩

/-- the version and change list a local transaction produced (for the example below) -/
def Ex.produced : Except WErr (Db × Option (Nat × List Chg)) → Option (Nat × List Chg)
  | .ok (_, out) => out
  | .error _ => none

/-- the INSERT of the correspondence table `t` (columns `a`, `b`) with only `a` assigned emits
changes for `a` and for `b` (NULL) -/
example : Ex.produced (localTx (Db.empty 1) [.ins "t" "1" [("a", .int 1)]]) = some (1,
    [⟨"t", "1", "a", .int 1, 1, 1, 1, 1, 0⟩, ⟨"t", "1", "b", .null, 1, 1, 1, 1, 1⟩]) := by decide

/-! ### concrete histories (non-vacuity of the hypotheses, and the reason for `Complete`)

Field order of `Chg`: `tbl pk cid val colv cl site dbv seq`. -/

namespace Ex

def e1 : Db := Db.empty 1
def e2 : Db := Db.empty 2

/-- site 1 and site 2 write cell `t/1/a` with the same column version -/
def wA : Chg := ⟨"t", "1", "a", .int 5, 1, 1, 1, 1, 0⟩
def wB : Chg := ⟨"t", "1", "a", .int 7, 1, 1, 2, 1, 0⟩

/-- equal column versions: the larger value wins in both orders -/
example : (view (mergeAll e1 [wA, wB]) "t" "1").cell "a" = some (.int 7, 1) ∧
    (view (mergeAll e2 [wB, wA]) "t" "1").cell "a" = some (.int 7, 1) ∧
    (spec [wA, wB] "t" "1").cell "a" = some (.int 7, 1) := by decide

/-- the same text written by two sites -/
def tA : Chg := ⟨"t", "1", "a", .text [104, 105], 1, 1, 1, 1, 0⟩
def tB : Chg := ⟨"t", "1", "a", .text [104, 105], 1, 1, 2, 1, 0⟩

/-- equal column versions and equal values: the larger site id keeps the attribution in both
orders (the view does not even show it) -/
example : ((mergeAll e1 [tA, tB]).cell "t" "1" "a").map (·.clk.site) = some 2 ∧
    ((mergeAll e1 [tB, tA]).cell "t" "1" "a").map (·.clk.site) = some 2 ∧
    (view (mergeAll e1 [tA, tB]) "t" "1").cell "a" = (view (mergeAll e1 [tB, tA]) "t" "1").cell "a" := by
  decide

/-- site 1 inserts row `t/1` (columns `a`, `b`) -/
def insA : Chg := ⟨"t", "1", "a", .int 1, 1, 1, 1, 1, 0⟩
def insB : Chg := ⟨"t", "1", "b", .int 2, 1, 1, 1, 1, 1⟩
/-- site 1 deletes it -/
def del : Chg := ⟨"t", "1", "-1", .null, 2, 2, 1, 2, 0⟩
/-- concurrently site 2 updates column `a` -/
def upd : Chg := ⟨"t", "1", "a", .int 9, 2, 1, 2, 1, 0⟩

/-- a delete racing an update: the row is deleted (cl 2, no cells) in every order -/
example : (view (mergeAll e1 [insA, insB, del, upd]) "t" "1").cl = 2 ∧
    (view (mergeAll e2 [insA, upd, insB, del]) "t" "1").cl = 2 ∧
    (view (mergeAll e2 [upd, del, insB, insA]) "t" "1").cl = 2 ∧
    (mergeAll e1 [insA, insB, del, upd]).cell "t" "1" "a" = none ∧
    (mergeAll e2 [insA, upd, insB, del]).cell "t" "1" "a" = none ∧
    (mergeAll e2 [upd, del, insB, insA]).cell "t" "1" "a" = none ∧
    (mergeAll e2 [upd, del, insB, insA]).cell "t" "1" "b" = none := by decide

/-- site 1 re-inserts the row: third incarnation -/
def reS : Chg := ⟨"t", "1", "-1", .null, 3, 3, 1, 3, 0⟩
def reA : Chg := ⟨"t", "1", "a", .int 10, 1, 3, 1, 3, 1⟩
def reB : Chg := ⟨"t", "1", "b", .int 20, 1, 3, 1, 3, 2⟩

def hist : List Chg := [insA, insB, del, reS, reA, reB]
/-- the delete is delayed and the chunks of the re-insert arrive column-first -/
def histColumnFirst : List Chg := [insA, insB, reB, reA, reS, del, insA]

example : (∀ c ∈ hist, c.WF) ∧ Complete hist ∧ (∀ c, c ∈ hist ↔ c ∈ histColumnFirst) := by
  refine ⟨by decide, by decide, ?_⟩
  intro c; simp only [hist, histColumnFirst, List.mem_cons]; grind

/-- after `reB` the replica that missed the delete shows column `a` as a zeroed leftover
(old value, column version 0) … -/
example : (view (mergeAll e2 [insA, insB, reB]) "t" "1").cl = 3 ∧
    (view (mergeAll e2 [insA, insB, reB]) "t" "1").cell "a" = some (.int 1, 0) ∧
    (view (mergeAll e2 [insA, insB, reB]) "t" "1").cell "b" = some (.int 20, 1) := by decide

/-- that replica would re-export the leftover with `col_version = 0`: `Chg.WF` is not closed under
relaying, which is why `merge_fold_inv` and `merge_order_irrelevant_strong` do not assume it -/
example : ∃ c ∈ (mergeAll e2 [insA, insB, reB]).changes, ¬ c.WF := by decide

/-- … which the rest of the re-insert overwrites: both orders end in the same view -/
example : (view (mergeAll e1 hist) "t" "1").cl = 3 ∧
    (view (mergeAll e2 histColumnFirst) "t" "1").cl = 3 ∧
    (view (mergeAll e1 hist) "t" "1").cell "a" = some (.int 10, 1) ∧
    (view (mergeAll e2 histColumnFirst) "t" "1").cell "a" = some (.int 10, 1) ∧
    (view (mergeAll e1 hist) "t" "1").cell "b" = some (.int 20, 1) ∧
    (view (mergeAll e2 histColumnFirst) "t" "1").cell "b" = some (.int 20, 1) ∧
    (spec hist "t" "1").cl = 3 ∧ (spec hist "t" "1").cell "a" = some (.int 10, 1) := by decide

end Ex

/-- **Why `Complete` is a hypothesis.**  The set `{insert of a at cl 1, sentinel of cl 3}` is
well-formed but not incarnation-complete (column `a` has no change at `cl* = 3`).  Delivered in the
two possible orders it gives two different views: the replica that saw the old incarnation first
keeps `a` as a zeroed leftover `(5, col_version 0)`, the other one has no cell for `a`.  (Both have
`cl = 3`, and the leftover has column version 0, as `merge_order_irrelevant_partial` says.)  In a
real history this state is transient: the re-insert that produced the sentinel also produced a change
for `a` at `cl = 3`, and once it is delivered both replicas show it. -/
theorem leftover_depends_on_order :
    let S : List Chg := [Ex.wA, ⟨"t", "1", "-1", .null, 3, 3, 2, 2, 0⟩]
    (∀ c ∈ S, c.WF) ∧ ¬ Complete S ∧
    (view (mergeAll Ex.e1 S) "t" "1").cell "a" = some (.int 5, 0) ∧
    (view (mergeAll Ex.e1 S.reverse) "t" "1").cell "a" = none ∧
    (view (mergeAll Ex.e1 S) "t" "1").cl = 3 ∧ (view (mergeAll Ex.e1 S.reverse) "t" "1").cl = 3 := by
  decide

end Corro.Crdt
