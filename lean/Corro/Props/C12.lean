/-
C12 — attaching or resuming a subscription never skips or repeats a change silently.
Property theorems only; the model is `Corro/Model/CatchUp.lean`, helper lemmas (the invariants of
`catch_up_sub` and their preservation) are in `Corro/Lemmas/CatchUp.lean`, `CatchUpSnap.lean`,
`CatchUpPause.lean`.

A run is `run cfg (e0, attach e0 mode) acts`: the subscriber has just called `tx.subscribe()` in an
arbitrary matcher/pipe/log state `e0` (anything may have happened before), `acts` is an arbitrary
interleaving of matcher sends, matcher commits, pipe deliveries, purges, steps of `catch_up_sub`'s
main task and of its buffering task — for any capacities `cfg`.  Other subscribers do not appear:
they share nothing with this one but the matcher and the broadcast stream, which the schedule
already drives arbitrarily, so every statement holds for each of any number of subscribers.
-/
import Corro.Lemmas.CatchUpPause

namespace Corro.CatchUp

/-- **C12, "receives a consistent snapshot".**  For EVERY schedule (no side condition) the output
of an attach from scratch is: nothing yet, or the rows of one version `v` of the materialised
query, or those rows followed by the end-of-query event carrying the SAME `v` (rows and
`EndOfQuery.change_id` come from one log state) and then no further snapshot item; a resume or a
`skip_rows` attach never sends snapshot items. -/
theorem snapshot_consistent (cfg : Cfg) (e0 : Env) (mode : Mode) (acts : List Act) :
    let s := (run cfg (e0, attach e0 mode) acts).2
    (mode = .anew →
        s.out = [] ∨ (∃ v, s.out = [.rows v]) ∨
        (∃ v rest, s.out = .rows v :: .eoq v :: rest ∧ snapPart rest = [])) ∧
    (mode ≠ .anew → snapPart s.out = []) := by
  intro s
  have h := run_snapInv cfg acts (e0, attach e0 mode) (snapInv_attach e0 mode)
  have hm : s.mode = mode := by
    have : ∀ (acts : List Act) (st : State), (run cfg st acts).2.mode = st.2.mode := by
      intro acts
      induction acts with
      | nil => intro st; rfl
      | cons a as ih =>
        intro st
        simp only [run]
        rw [ih]
        obtain ⟨e, s⟩ := st
        obtain ⟨mode, pc, cur, qHead, qTail, qt, cancelled, last, minId, pending, target, base, handed, out⟩ := s
        cases a <;> simp only [step]
        case main => cases pc <;> simp only [stepMain] <;> (repeat' split) <;> rfl
        case qrecv => simp only [stepQRecv]; (repeat' split) <;> rfl
        case qcancel => simp only [stepQCancel]; (repeat' split) <;> rfl
    exact this acts _
  obtain ⟨h1, h2, h3⟩ := h
  by_cases hp : Post s.pc
  · obtain ⟨ha, hn⟩ := h3 hp
    exact ⟨fun hmode => Or.inr (Or.inr (ha (hm.trans hmode))), fun hmode => hn (fun h => hmode (hm.symm.trans h))⟩
  · have hcase : s.pc = .start ∨ ∃ v, s.pc = .readEoq v := by
      unfold Post at hp
      cases hpc : s.pc with
      | start => exact Or.inl rfl
      | readEoq v => exact Or.inr ⟨v, rfl⟩
      | _ => exact absurd ⟨by simp [hpc], by simp [hpc]⟩ hp
    rcases hcase with h0 | ⟨v, hv⟩
    · have ho := h1 h0
      exact ⟨fun _ => Or.inl ho, fun _ => by rw [ho]; rfl⟩
    · obtain ⟨ho, hma⟩ := h2 v hv
      exact ⟨fun _ => Or.inr (Or.inl ⟨v, ho⟩), fun hne => absurd (hm.symm.trans hma) hne⟩

/-- **C12, "change events whose ids are strictly increasing, start right after the snapshot's or N,
and contain no duplicates, however its attachment races with changes being produced … when
continuity cannot be provided the stream stops, with an error event or by closing".**

For EVERY schedule whose log reads start inside the retained log (`SchedOk`: the property's
"every resume point within the retained change log"), for the code since cb48448 (`cfg.fixed`),
through ALL phases — subscribe/buffer, snapshot or `changes_since`, reconcile with its re-reads,
pending event, buffer drain, join, the hand-over and live forwarding; including queue overflow, a
lagged receiver, uncommitted batches, events in flight at the hand-over:

* once the first read is done there is a base `b` — the snapshot's id (`anew`; it is the `v` of
  `snapshot_consistent`), `N` (`since N`) or `max_change_id` (`skip`) — and the change ids delivered
  are exactly `b+1, b+2, …` in this order: no gap, no repeat, starting right after `b`;
* before that no change has been delivered;
* `error` is followed by `closed` only and `closed` by nothing (the stream ends, it never continues
  past a gap), and a stream that has ended is never written to again (`done_frozen`). -/
theorem ids_strictly_increasing_from (cfg : Cfg) (hf : cfg.fixed = true) (e0 : Env) (mode : Mode)
    (acts : List Act) (he : EnvOk e0) (hs : SchedOk cfg (e0, attach e0 mode) acts) :
    let s := (run cfg (e0, attach e0 mode) acts).2
    (∀ b, s.base = some b → chg s.out = idsFrom b (b + (chg s.out).length)) ∧
    (s.base = none → chg s.out = []) ∧
    TermOk s.out := by
  intro s
  have hpt : ((s.base = none ∧ chg s.out = []) ∨ Pre s) ∧ TermOk s.out := by
    rcases run_inv_full cfg hf acts (e0, attach e0 mode) he (inv_attach e0 mode) (joinQt_attach e0 mode)
      (qinv_attach e0 mode) hs with h | h
    · obtain ⟨q1, q2, q3, nh, term, pcs⟩ := h
      constructor
      · unfold PcInv at pcs
        cases hpc : s.pc <;> simp only [s] at hpc <;> rw [hpc] at pcs <;> dsimp only at pcs
        case start => left; exact ⟨pcs.2, by simp [s, pcs.1, chg]⟩
        case readEoq v => left; exact ⟨pcs.2.1, by simp [s, pcs.1, chg]⟩
        case tryRecv => right; exact pcs
        case loop => right; exact pcs.1
        case afterLoop => right; exact pcs.1
        case sendPending => right; exact pcs.1
        case cancel => right; exact pcs.1
        case drain => right; exact pcs.1
        case join => right; exact pcs.1
        case done => right; exact pcs
      · by_cases hd : s.pc = .done
        · simpa [s, hd] using term
        · have : NoTerm s.out := by simpa [s, hd] using term
          exact TermOk.of_noTerm this
    · obtain ⟨_, _, _, term, hpre, _, _⟩ := h
      refine ⟨Or.inr hpre, ?_⟩
      by_cases hd : s.pc = .done
      · simpa [s, hd] using term
      · have : NoTerm s.out := by simpa [s, hd] using term
        exact TermOk.of_noTerm this
  obtain ⟨hpre, hterm⟩ := hpt
  refine ⟨?_, ?_, hterm⟩
  · intro b hb
    rcases hpre with ⟨hn, _⟩ | ⟨b', hb', hle, hc⟩
    · rw [hn] at hb; cases hb
    · rw [hb'] at hb; cases hb
      rw [hc, idsFrom_length]
      congr 1; omega
  · intro hn
    rcases hpre with ⟨_, h⟩ | ⟨b', hb', _, _⟩
    · exact h
    · rw [hb'] at hn; cases hn

/-- The base of a resume is its `from`: with `ids_strictly_increasing_from`, the ids delivered after
`from = N` are exactly `N+1, N+2, …`. -/
theorem resume_base (cfg : Cfg) (e0 : Env) (n : Nat) (acts : List Act) :
    let s := (run cfg (e0, attach e0 (.since n)) acts).2
    s.base = none ∨ s.base = some n := by
  intro s
  have key : ∀ (acts : List Act) (st : State), st.2.mode = .since n →
      (st.2.base = none ∧ st.2.pc = .start ∨ st.2.base = some n ∧ Post st.2.pc) →
      ((run cfg st acts).2.base = none ∨ (run cfg st acts).2.base = some n) := by
    intro acts
    induction acts with
    | nil => intro st _ h; rcases h with h | h; exact Or.inl h.1; exact Or.inr h.1
    | cons a as ih =>
      intro st hmode h
      simp only [run]
      obtain ⟨e, s⟩ := st
      obtain ⟨mode, pc, cur, qHead, qTail, qt, cancelled, last, minId, pending, target, base, handed, out⟩ := s
      dsimp only at hmode h
      subst hmode
      apply ih
      · cases a <;> simp only [step]
        case main => cases pc <;> simp only [stepMain] <;> (repeat' split) <;> rfl
        case qrecv => simp only [stepQRecv]; (repeat' split) <;> rfl
        case qcancel => simp only [stepQCancel]; (repeat' split) <;> rfl
      · cases a <;> simp only [step]
        case main =>
          rcases h with ⟨hb, hp⟩ | ⟨hb, hp⟩
          · subst hb hp
            simp [stepMain, Post]
          · subst hb
            right
            obtain ⟨hp1, hp2⟩ := hp
            cases pc <;> simp only [stepMain] <;> (repeat' split) <;>
              first | exact absurd rfl hp1 | exact absurd rfl (hp2 _) | simp [Post]
        case qrecv => simp only [stepQRecv]; (repeat' split) <;> exact h
        case qcancel => simp only [stepQCancel]; (repeat' split) <;> exact h
        all_goals exact h
  exact key acts _ (by simp [attach]) (Or.inl ⟨rfl, rfl⟩)

/-- The same statement for the phases BEFORE the hand-over holds for the code before cb48448 as well
(any `cfg`): what `handover_duplicate_before_fix` shows is a defect of the hand-over only. -/
theorem ids_strictly_increasing_before_handover (cfg : Cfg) (e0 : Env) (mode : Mode) (acts : List Act)
    (he : EnvOk e0) (hs : SchedOk cfg (e0, attach e0 mode) acts) :
    let s := (run cfg (e0, attach e0 mode) acts).2
    s.handed = false →
      (∀ b, s.base = some b → chg s.out = idsFrom b (b + (chg s.out).length)) ∧
      (s.base = none → chg s.out = []) ∧ TermOk s.out := by
  intro s hh
  have hinv := run_inv cfg acts (e0, attach e0 mode) he (inv_attach e0 mode) (joinQt_attach e0 mode) hs
  have hinv' : Inv (run cfg (e0, attach e0 mode) acts).1 s := by
    rcases hinv with h | h
    · exact h
    · rw [h] at hh; cases hh
  obtain ⟨q1, q2, q3, nh, term, pcs⟩ := hinv'
  have hterm : TermOk s.out := by
    by_cases hd : s.pc = .done
    · simpa [s, hd] using term
    · have : NoTerm s.out := by simpa [s, hd] using term
      exact TermOk.of_noTerm this
  have hpre : (s.base = none ∧ chg s.out = []) ∨ Pre s := by
    unfold PcInv at pcs
    cases hpc : s.pc <;> simp only [s] at hpc <;> rw [hpc] at pcs <;> dsimp only at pcs
    case start => left; exact ⟨pcs.2, by simp [s, pcs.1, chg]⟩
    case readEoq v => left; exact ⟨pcs.2.1, by simp [s, pcs.1, chg]⟩
    case tryRecv => right; exact pcs
    case loop => right; exact pcs.1
    case afterLoop => right; exact pcs.1
    case sendPending => right; exact pcs.1
    case cancel => right; exact pcs.1
    case drain => right; exact pcs.1
    case join => right; exact pcs.1
    case done => right; exact pcs
  refine ⟨?_, ?_, hterm⟩
  · intro b hb
    rcases hpre with ⟨hn, _⟩ | ⟨b', hb', hle, hc⟩
    · rw [hn] at hb; cases hb
    · rw [hb'] at hb; cases hb
      rw [hc, idsFrom_length]
      congr 1; omega
  · intro hn
    rcases hpre with ⟨_, h⟩ | ⟨b', hb', _, _⟩
    · exact h
    · rw [hb'] at hn; cases hn

/-- **C12, "the stream stops … instead of continuing past a gap".**  A stream that has ended is
never written to again, whatever is scheduled. -/
theorem done_frozen (cfg : Cfg) (acts : List Act) (e : Env) (s : Sub) (h : s.pc = .done) :
    (run cfg (e, s) acts).2.out = s.out ∧ (run cfg (e, s) acts).2.pc = .done := by
  induction acts generalizing e s with
  | nil => exact ⟨rfl, h⟩
  | cons a as ih =>
    simp only [run]
    obtain ⟨mode, pc, cur, qHead, qTail, qt, cancelled, last, minId, pending, target, base, handed, out⟩ := s
    dsimp only at h
    subst h
    cases a <;> simp only [step]
    case main => simpa [stepMain] using ih e _ rfl
    case qrecv =>
      simp only [stepQRecv]
      (repeat' split) <;> exact ih e _ rfl
    case qcancel =>
      simp only [stepQCancel]
      (repeat' split) <;> exact ih e _ rfl
    all_goals exact ih _ _ rfl

/-! ### a batch sent and not yet committed (the matcher held before `tx.commit()`; harness op `wpause`) -/

/-- The environment step added with the pause hook — the driver's `wpause` (a batch of ANY size `n`
sent, the matcher held before its commit) and the `commit` that lets it go — is not a new behaviour
of the model: wherever it occurs in a run it IS the schedule `emit × n` (resp. `[commit]`) of the
`Act`s over which `snapshot_consistent`, `ids_strictly_increasing_from`, `resume_base`,
`ids_strictly_increasing_before_handover` and `done_frozen` quantify (all lists of `Act`), so those
theorems cover every run in which a subscriber subscribes, reads, reconciles, is released or goes
live before, during and after such a batch. -/
theorem paused_batch_is_schedule (cfg : Cfg) (st : State) (before after : List Act) (n : Nat) :
    run cfg st (before ++ List.replicate n .emit ++ after)
      = run cfg (sendBatch cfg (run cfg st before).1 n, (run cfg st before).2) after ∧
    run cfg st (before ++ [.commit] ++ after)
      = run cfg (commitBatch cfg (run cfg st before).1, (run cfg st before).2) after ∧
    (∀ e : Env, sendBatch cfg e n = { e with sent := e.sent + n }) ∧
    (∀ e : Env, commitBatch cfg e = { e with committed := e.sent }) := by
  refine ⟨?_, ?_, sendBatch_eq cfg n, fun e => rfl⟩
  · rw [run_append, run_append, run_replicate_emit]
  · rw [run_append, run_append]
    rfl

/-- **C12, "however its attachment races with changes being produced", the window between the
matcher's send and its commit.**  A subscriber subscribes in ANY state in which at least one change
is sent and not committed (`committed < sent`, any number of them, any part of them already
broadcast) — snapshot, `skip_rows`, or a resume point up to the head of the log — and then runs
alone, in any interleaving of its two tasks, while the matcher stays before its commit and the pipe
delivers nothing more.  Then it is NEVER declared caught up: it never reaches the pending-event /
drain / hand-over phases or live forwarding, it delivers no change above `committed`, and when it
ends, it ends with the error event followed by the end of the stream (`ok ended` of the harness).
In particular `last_change_id_sent = last + 1` with nothing buffered is not "nothing missed". -/
theorem never_caught_up_between_send_and_commit (cfg : Cfg) (e : Env) (mode : Mode) (acts : List Act)
    (hun : e.committed < e.sent) (hm : ∀ n, mode = .since n → n ≤ e.committed)
    (ha : ∀ a ∈ acts, SubOnly a) :
    let s := (run cfg (e, attach e mode) acts).2
    s.pc ≠ .sendPending ∧ s.pc ≠ .cancel ∧ s.pc ≠ .drain ∧ s.pc ≠ .join ∧ s.pc ≠ .live ∧
    s.handed = false ∧ (∀ k ∈ chg s.out, k ≤ e.committed) ∧
    (s.pc = .done → ∃ pre, s.out = pre ++ [.error, .closed]) := by
  intro s
  obtain ⟨_, h⟩ := run_pinv cfg acts e (attach e mode) hun (pinv_attach e mode hm) ha
  have hp := h.pcs
  refine ⟨?_, ?_, ?_, ?_, ?_, h.nh, h.ids, ?_⟩
  all_goals
    intro hpc
    simp only [PausePc, s] at hp hpc
    rw [hpc] at hp
  · exact hp
  · exact hp
  · exact hp
  · exact hp
  · exact hp
  · exact hp

/-- the window of the seeded change C12-1 (corpus/C12/attach_between_send_and_commit.ops): changes
1, 2 committed, change 3 sent and broadcast before the subscriber exists, not committed; resume
from 2 with nothing buffered: the reconcile re-reads the log five times and ends the stream … -/
example : (run {} ({ sent := 3, committed := 2, published := 3 },
      attach { sent := 3, committed := 2, published := 3 } (.since 2)) (List.replicate 9 .main)).2.out
    = [.error, .closed] := by decide

/-- … so does an attach from scratch (after a consistent snapshot at change 2) -/
example : (run {} ({ sent := 3, committed := 2, published := 3 },
      attach { sent := 3, committed := 2, published := 3 } .anew) (List.replicate 10 .main)).2.out
    = [.rows 2, .eoq 2, .error, .closed] := by decide

/-- … and when the commit comes while the first read is still open, the re-read delivers the change:
3 committed, 4 sent and broadcast before the subscriber exists; resume from 0, commit after the first
read; one re-read fetches 4, hand-over, then change 5 arrives live: 1, 2, 3, 4, 5 -/
example : (run {} ({ sent := 4, committed := 3, published := 4 },
      attach { sent := 4, committed := 3, published := 4 } (.since 0))
      [.main, .commit, .main, .main, .main, .main, .main, .main, .main, .qcancel, .main, .main,
       .emit, .commit, .publish, .main]).2.out
    = [.change 1, .change 2, .change 3, .change 4, .change 5] := by decide

example : SubOnly .main ∧ SubOnly .qrecv ∧ SubOnly .qcancel := by simp [SubOnly]

/-- the F9 schedule: one change sent and committed but still in the pipe; resume from 0 reads it
from the log, reconciles (queue empty, `last_change_id_sent = 1 ≤ last`), cancels the buffering
task, hands over; then the pipe delivers change 1. -/
def f9Schedule : List Act :=
  [.emit, .commit, .main, .main, .main, .main, .qcancel, .main, .main, .publish, .main]

/-- **F9 (DESIGN §6), confirmed on the real code before cb48448** (corpus/C12/f9_handover_duplicate.ops):
a schedule inside the property's quantifier on which the code before the fix delivered change 1
twice (regression witness: `fixed := false`). -/
theorem handover_duplicate_before_fix :
    SchedOk { fixed := false } ({}, attach {} (.since 0)) f9Schedule ∧
    (run { fixed := false } ({}, attach {} (.since 0)) f9Schedule).2.out = [.change 1, .change 1] := by
  refine ⟨?_, by decide⟩
  simp [SchedOk, f9Schedule, step, stepEnv, stepMain, stepQCancel, ReadOk, attach, logRead, idsFrom]

/-- … and the code since cb48448 delivers it once on the same schedule. -/
theorem handover_duplicate_fixed :
    (run {} ({}, attach {} (.since 0)) f9Schedule).2.out = [.change 1] ∧
    (run {} ({}, attach {} (.since 0)) f9Schedule).2.pc = .live := by
  exact ⟨by decide, by decide⟩

/-- broadcast capacity 2; after the reconcile found nothing to wait for, a burst of three changes
is published before the buffering task runs: its `recv` returns `Lagged`. -/
def lagSchedule : List Act :=
  [.emit, .commit, .main, .main, .emit, .emit, .emit, .commit, .publish, .publish, .publish, .publish,
   .qrecv, .main, .main, .qcancel, .main, .main, .main, .main]

/-- Before cb48448 the lag was swallowed by the buffering task (it waited for the cancellation and
returned the receiver positioned at the oldest retained change): 1, 3, 4 were delivered — change 2
skipped, stream continued (regression witness). -/
theorem lag_swallowed_gap_before_fix :
    SchedOk { bcap := 2, fixed := false } ({}, attach {} (.since 0)) lagSchedule ∧
    (run { bcap := 2, fixed := false } ({}, attach {} (.since 0)) lagSchedule).2.out
      = [.change 1, .change 3, .change 4] := by
  refine ⟨?_, by decide⟩
  simp [SchedOk, lagSchedule, step, stepEnv, stepMain, stepQCancel, stepQRecv, ReadOk, attach, logRead,
    idsFrom, lagging]

/-- … since cb48448 the same schedule ends the stream with the error event. -/
theorem lag_swallowed_gap_fixed :
    (run { bcap := 2 } ({}, attach {} (.since 0)) lagSchedule).2.out = [.change 1, .error, .closed] := by
  decide

/-- **F14 (observation; outside the property's quantifier).**  A resume point older than the
retained log: `changes_since` simply starts at the oldest retained id.  The first step of the
catch-up delivers `pruned+1 ..= committed`, no error event, and the catch-up goes on. -/
theorem resume_outside_log (cfg : Cfg) (e : Env) (n : Nat) (hn : n < e.pruned) :
    let s := stepMain cfg e (attach e (.since n))
    s.out = (idsFrom e.pruned e.committed).map Item.change ∧ s.pc = .tryRecv ∧ s.base = some n := by
  simp [stepMain, attach, logRead, Nat.max_eq_right (Nat.le_of_lt hn)]

/-- … and the client library does report it: the first change it is handed is not `n + 1`. -/
theorem resume_outside_log_reported (e : Env) (n : Nat) (hn : n < e.pruned) (hc : e.pruned < e.committed) :
    (clientRun (some n) (idsFrom e.pruned e.committed)).head? = some (some (n + 1, e.pruned + 1)) := by
  obtain ⟨k, hk⟩ : ∃ k, e.committed = e.pruned + (k + 1) := ⟨e.committed - e.pruned - 1, by omega⟩
  rw [hk, idsFrom_cons]
  simp only [clientRun, handleChange]
  have : ¬ n = e.pruned := by omega
  simp [this]

/-- **C12, "the client library reports any gap it does observe".**  `handle_change` over any id
sequence, starting after `s`: nothing is reported iff the sequence is exactly `s+1, s+2, …`. -/
theorem client_detects (s : Nat) (ids : List Nat) :
    (∀ r ∈ clientRun (some s) ids, r = none) ↔ ids = idsFrom s (s + ids.length) := by
  constructor
  · exact clientRun_silent ids s
  · intro h r hr
    rw [h, clientRun_good] at hr
    exact (List.mem_replicate.mp hr).2

/-- … and the first report is made exactly at the first id that is not `last + 1`
(`MissedChange { expected, got }`), for every sequence: a well-formed prefix of any length, then an
id `x` that does not continue it, then anything. -/
theorem client_detects_first (s k x : Nat) (rest : List Nat) (hx : x ≠ s + k + 1) :
    clientRun (some s) (idsFrom s (s + k) ++ x :: rest) =
      List.replicate k none ++ some (s + k + 1, x) :: clientRun (some (s + k)) rest := by
  rw [clientRun_good_append]
  simp only [clientRun, handleChange]
  have : s + k + 1 ≠ x := fun h => hx h.symm
  simp [this]

/-! ### the hypotheses are satisfiable, the statements say something -/

/-- a schedule with a race: two changes sent, committed and published right after the snapshot
read (both buffered; the first buffered id is `last + 1`, so the log is re-read); reads inside the
log, hand-over, then live forwarding of a third change -/
def demoSchedule : List Act :=
  [.main, .main, .emit, .emit, .commit, .publish, .publish, .qrecv, .qrecv, .main, .main, .main, .main, .main,
   .main, .qcancel, .main, .main, .main, .emit, .commit, .publish, .main]

example : SchedOk {} ({}, attach {} .anew) demoSchedule := by
  simp [SchedOk, demoSchedule, step, stepEnv, stepMain, stepQCancel, stepQRecv, ReadOk, attach,
    logRead, idsFrom, lagging]

example : (run {} ({}, attach {} .anew) demoSchedule).2.out
    = [.rows 0, .eoq 0, .change 1, .change 2, .change 3] := by decide

example : (run {} ({}, attach {} .anew) demoSchedule).2.handed = true := by decide

example : EnvOk {} := by simp [EnvOk]

/-- an uncommitted batch: the first buffered change is `last + 1` and never committed → five
re-reads, then the error event and the end of the stream -/
example : (run {} ({ sent := 3, committed := 3, published := 3 }, attach { sent := 3, committed := 3, published := 3 } .anew)
    [.main, .main, .emit, .publish, .qrecv, .main, .main, .main, .main, .main, .main, .main, .main]).2.out
    = [.rows 3, .eoq 3, .error, .closed] := by decide

/-- the queue overflows (capacity 2 here): the buffered changes are delivered, then the error -/
example : (run { qcap := 2 } ({}, attach {} .skip)
    [.main, .emit, .emit, .emit, .commit, .publish, .publish, .publish, .qrecv, .qrecv, .qrecv,
     .main, .main, .main, .main, .main, .main, .main, .main, .main]).2.out
    = [.change 1, .change 2, .change 3, .error, .closed] := by decide

example : clientRun (some 3) [4, 5, 7, 8, 6] = [none, none, some (6, 7), some (6, 8), none] := by decide
example : clientRun (some 5) [6, 6, 7] = [none, some (7, 6), none] := by decide

end Corro.CatchUp
