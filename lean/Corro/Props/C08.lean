/-
C08 — changeset chunks tile the sequence range exactly, whatever the size limit.
Property theorems only; the model is `Corro/Model/Chunker.lean`.
-/
import Corro.Model.Chunker

namespace Corro.Chunker

/-- Well-formed input of the property's quantifier: sequence numbers strictly increasing,
all inside `[lb, last]` (holes allowed, may end before `last`, may be empty). -/
def Incr (last : Nat) : Nat → List Chg → Prop
  | _, [] => True
  | lb, c :: r => lb ≤ c.seq ∧ c.seq ≤ last ∧ Incr last (c.seq + 1) r

/-- The ranges are contiguous: first starts at `s`, each next one right after the previous end,
the last one ends at `l`, none is inverted. -/
def Tiles : Nat → Nat → List Chunk → Prop
  | _, _, [] => False
  | s, l, [c] => c.lo = s ∧ c.hi = l ∧ s ≤ l
  | s, l, c :: c2 :: r => c.lo = s ∧ s ≤ c.hi ∧ c.hi < l ∧ Tiles (c.hi + 1) l (c2 :: r)

/-- Every change of a chunk lies inside the chunk's range. -/
def Inside (ch : Chunk) : Prop := ∀ c ∈ ch.changes, ch.lo ≤ c.seq ∧ c.seq ≤ ch.hi

theorem incr_last_nil {last lb : Nat} {r : List Chg} (h : Incr last lb r) (hlb : last < lb) :
    r = [] := by
  cases r with
  | nil => rfl
  | cons c r => simp [Incr] at h; omega

/-! ### contiguity -/

theorem go_tiles (last : Nat) (lim : Nat → Nat) :
    ∀ (rest : List Chg) (k start lb : Nat) (acc : List Chg) (buf : Nat),
      start ≤ lb → lb ≤ last → Incr last lb rest →
      Tiles start last (go last lim k start acc buf rest) := by
  intro rest
  induction rest with
  | nil => intro k start lb acc buf h1 h2 _; simp [go, Tiles]; omega
  | cons c rest ih =>
    intro k start lb acc buf h1 h2 hi
    simp only [Incr] at hi
    obtain ⟨hc1, hc2, hr⟩ := hi
    unfold go
    split
    · simp [Tiles]; omega
    · split
      · cases rest with
        | nil => simp [Tiles]; omega
        | cons r rs =>
          simp only []
          have ht := ih (k + 1) (c.seq + 1) (c.seq + 1) [] 0 (Nat.le_refl _) (by omega) hr
          -- the recursive call returns a non-empty list
          cases hgo : go last lim (k + 1) (c.seq + 1) [] 0 (r :: rs) with
          | nil => rw [hgo] at ht; simp [Tiles] at ht
          | cons d ds =>
            rw [hgo] at ht
            simp only [Tiles]
            refine ⟨trivial, by omega, by omega, ht⟩
      · exact ih k start (c.seq + 1) (c :: acc) (buf + c.size) (by omega) (by omega) hr

/-- **C08 (ranges).** For every strictly increasing change list inside `[start,last]` and every
sequence of limits, the chunk ranges are contiguous from `start` to `last`. -/
theorem chunks_contiguous (start last : Nat) (lim : Nat → Nat) (cs : List Chg)
    (h : start ≤ last) (hi : Incr last start cs) :
    Tiles start last (chunks start last lim cs) :=
  go_tiles last lim cs 0 start start [] 0 (Nat.le_refl _) h hi

/-- Contiguous ranges cover each sequence number of `[s,l]` exactly once. -/
theorem tiles_none_below : ∀ (chs : List Chunk) (s l x : Nat), Tiles s l chs → x < s →
    (chs.filter (fun c => decide (c.lo ≤ x ∧ x ≤ c.hi))).length = 0 := by
  intro chs
  induction chs with
  | nil => intro s l x h; simp [Tiles] at h
  | cons d ds ihd =>
    intro s l x hd hlt
    cases ds with
    | nil =>
      simp only [Tiles] at hd
      have : ¬ (d.lo ≤ x ∧ x ≤ d.hi) := by omega
      rw [List.filter_cons_of_neg (by simpa using this)]; rfl
    | cons d2 ds2 =>
      simp only [Tiles] at hd
      obtain ⟨e1, e2, e3, e4⟩ := hd
      have : ¬ (d.lo ≤ x ∧ x ≤ d.hi) := by omega
      rw [List.filter_cons_of_neg (by simpa using this)]
      exact ihd (d.hi + 1) l x e4 (by omega)

theorem tiles_cover_once : ∀ (chs : List Chunk) (s l : Nat), Tiles s l chs →
    ∀ x, s ≤ x → x ≤ l → (chs.filter (fun c => decide (c.lo ≤ x ∧ x ≤ c.hi))).length = 1 := by
  intro chs
  induction chs with
  | nil => intro s l h; simp [Tiles] at h
  | cons c r ih =>
    intro s l h x hx1 hx2
    cases r with
    | nil =>
      simp only [Tiles] at h
      obtain ⟨h1, h2, _⟩ := h
      have : (c.lo ≤ x ∧ x ≤ c.hi) := by omega
      rw [List.filter_cons_of_pos (by simpa using this)]; rfl
    | cons c2 r2 =>
      simp only [Tiles] at h
      obtain ⟨h1, h2, h3, h4⟩ := h
      by_cases hin : x ≤ c.hi
      · have h0 := tiles_none_below (c2 :: r2) (c.hi + 1) l x h4 (by omega)
        have : (c.lo ≤ x ∧ x ≤ c.hi) := by omega
        rw [List.filter_cons_of_pos (by simpa using this), List.length_cons, h0]
      · have : ¬ (c.lo ≤ x ∧ x ≤ c.hi) := by omega
        rw [List.filter_cons_of_neg (by simpa using this)]
        exact ih (c.hi + 1) l h4 x (by omega) hx2

/-! ### the changes are partitioned in order -/

theorem go_flatten (last : Nat) (lim : Nat → Nat) :
    ∀ (rest : List Chg) (k start lb : Nat) (acc : List Chg) (buf : Nat),
      Incr last lb rest →
      ((go last lim k start acc buf rest).map Chunk.changes).flatten = acc.reverse ++ rest := by
  intro rest
  induction rest with
  | nil => intro k start lb acc buf _; simp [go]
  | cons c rest ih =>
    intro k start lb acc buf hi
    simp only [Incr] at hi
    obtain ⟨hc1, hc2, hr⟩ := hi
    unfold go
    split
    · rename_i heq
      have : rest = [] := incr_last_nil hr (by omega)
      subst this
      simp
    · split
      · cases rest with
        | nil => simp
        | cons r rs =>
          simp only [List.map_cons, List.flatten_cons]
          rw [ih (k + 1) (c.seq + 1) (c.seq + 1) [] 0 hr]
          simp
      · rw [ih k start (c.seq + 1) (c :: acc) (buf + c.size) hr]
        simp

/-- **C08 (changes).** Concatenating the chunks gives back the input: every change appears in
exactly one chunk and order is preserved. -/
theorem chunks_partition_changes (start last : Nat) (lim : Nat → Nat) (cs : List Chg)
    (hi : Incr last start cs) :
    ((chunks start last lim cs).map Chunk.changes).flatten = cs := by
  have := go_flatten last lim cs 0 start start [] 0 hi
  simpa [chunks] using this

theorem go_inside (last : Nat) (lim : Nat → Nat) :
    ∀ (rest : List Chg) (k start lb : Nat) (acc : List Chg) (buf : Nat),
      start ≤ lb → lb ≤ last → Incr last lb rest →
      (∀ a ∈ acc, start ≤ a.seq ∧ a.seq < lb) →
      ∀ ch ∈ go last lim k start acc buf rest, Inside ch := by
  intro rest
  induction rest with
  | nil =>
    intro k start lb acc buf h1 h2 _ hacc ch hch
    simp [go] at hch
    subst hch
    intro a ha
    have := hacc a (by simpa using ha)
    simp; omega
  | cons c rest ih =>
    intro k start lb acc buf h1 h2 hi hacc ch hch
    simp only [Incr] at hi
    obtain ⟨hc1, hc2, hr⟩ := hi
    have hacc' : ∀ a ∈ c :: acc, start ≤ a.seq ∧ a.seq < c.seq + 1 := by
      intro a ha
      cases ha with
      | head => omega
      | tail _ h => have := hacc a h; omega
    have hfin : ∀ hi', c.seq ≤ hi' → Inside ⟨(c :: acc).reverse, start, hi'⟩ := by
      intro hi' hle a ha
      have := hacc' a (List.mem_reverse.mp ha)
      show start ≤ a.seq ∧ a.seq ≤ hi'
      omega
    unfold go at hch
    split at hch
    · rw [List.mem_singleton] at hch; subst hch; exact hfin last hc2
    · split at hch
      · cases rest with
        | nil => rw [List.mem_singleton] at hch; subst hch; exact hfin last hc2
        | cons r rs =>
          simp only [List.mem_cons] at hch
          cases hch with
          | inl h => subst h; exact hfin c.seq (Nat.le_refl _)
          | inr h =>
            exact ih (k + 1) (c.seq + 1) (c.seq + 1) [] 0 (Nat.le_refl _) (by omega) hr
              (by intro a ha; cases ha) ch h
      · exact ih k start (c.seq + 1) (c :: acc) (buf + c.size) (by omega) (by omega) hr hacc' ch hch

/-- **C08 (containment).** Every change lies inside the range of the chunk that carries it. -/
theorem chunks_inside (start last : Nat) (lim : Nat → Nat) (cs : List Chg)
    (h : start ≤ last) (hi : Incr last start cs) :
    ∀ ch ∈ chunks start last lim cs, Inside ch :=
  go_inside last lim cs 0 start start [] 0 (Nat.le_refl _) h hi (by intro a ha; cases ha)

/-- Every chunk except the final one carries at least one change. -/
theorem go_nonfinal_nonempty (last : Nat) (lim : Nat → Nat) :
    ∀ (rest : List Chg) (k start : Nat) (acc : List Chg) (buf : Nat),
      ∀ ch ∈ (go last lim k start acc buf rest).dropLast, ch.changes ≠ [] := by
  intro rest
  induction rest with
  | nil => intro k start acc buf ch hch; simp [go] at hch
  | cons c rest ih =>
    intro k start acc buf ch hch
    unfold go at hch
    split at hch
    · simp at hch
    · split at hch
      · cases rest with
        | nil => simp at hch
        | cons r rs =>
          simp only [] at hch
          cases hgo : go last lim (k + 1) (c.seq + 1) [] 0 (r :: rs) with
          | nil => rw [hgo] at hch; simp at hch
          | cons d ds =>
            rw [hgo] at hch
            simp only [List.dropLast_cons_cons, List.mem_cons] at hch
            cases hch with
            | inl h => subst h; simp
            | inr h => exact ih (k + 1) (c.seq + 1) [] 0 ch (by rw [hgo]; exact h)
      · exact ih k start (c :: acc) (buf + c.size) ch hch

theorem nonfinal_chunk_nonempty (start last : Nat) (lim : Nat → Nat) (cs : List Chg) :
    ∀ ch ∈ (chunks start last lim cs).dropLast, ch.changes ≠ [] :=
  go_nonfinal_nonempty last lim cs 0 start [] 0

/-! ### version-range requests -/

theorem chunkRangeAux_spec (hi k : Nat) (hk : 1 ≤ k) :
    ∀ (f cur : Nat), hi + 1 - cur ≤ f →
      (∀ b ∈ chunkRangeAux hi k f cur, cur ≤ b.1 ∧ b.1 ≤ b.2 ∧ b.2 ≤ hi) ∧
      (∀ x, cur ≤ x → x ≤ hi → ∃ b ∈ chunkRangeAux hi k f cur, b.1 ≤ x ∧ x ≤ b.2) := by
  intro f
  induction f with
  | zero =>
    intro cur hf
    simp [chunkRangeAux]
    intro x h1; omega
  | succ f ih =>
    intro cur hf
    unfold chunkRangeAux
    split
    · rename_i hle
      have ⟨ih1, ih2⟩ := ih (cur + k) (by omega)
      constructor
      · intro b hb
        simp only [List.mem_cons] at hb
        cases hb with
        | inl h => subst h; simp; omega
        | inr h => have := ih1 b h; omega
      · intro x h1 h2
        by_cases hx : x ≤ cur + k
        · exact ⟨(cur, min (cur + k) hi), by simp, by simp; omega⟩
        · obtain ⟨b, hb, hb2⟩ := ih2 x (by omega) h2
          exact ⟨b, by simp [hb], hb2⟩
    · constructor
      · intro b hb; cases hb
      · intro x h1 h2; omega

/-- **C08 (version requests).** For every chunk size `k ≥ 1` the union of the blocks of
`chunk_range(lo..=hi, k)` is exactly `[lo,hi]`, and every block is a forward range inside it. -/
theorem chunkRange_union (lo hi k : Nat) (hk : 1 ≤ k) :
    (∀ b ∈ chunkRange lo hi k, lo ≤ b.1 ∧ b.1 ≤ b.2 ∧ b.2 ≤ hi) ∧
    (∀ x, (∃ b ∈ chunkRange lo hi k, b.1 ≤ x ∧ x ≤ b.2) ↔ (lo ≤ x ∧ x ≤ hi)) := by
  have ⟨h1, h2⟩ := chunkRangeAux_spec hi k hk (hi + 1 - lo) lo (Nat.le_refl _)
  refine ⟨h1, fun x => ⟨?_, fun ⟨a, b⟩ => h2 x a b⟩⟩
  rintro ⟨b, hb, hx1, hx2⟩
  have := h1 b hb
  omega

/-! ### non-vacuity: the hypotheses are met by concrete inputs with holes and a limit change -/

example : Incr 9 2 [⟨2, 10⟩, ⟨3, 10⟩, ⟨5, 100⟩, ⟨9, 1⟩] := by simp [Incr]
example : (chunks 2 9 (fun k => if k = 0 then 15 else 1) [⟨2, 10⟩, ⟨3, 10⟩, ⟨5, 100⟩, ⟨9, 1⟩]).map
    (fun c => (c.lo, c.hi)) = [(2, 3), (4, 5), (6, 9)] := by decide
example : chunkRange 1 25 10 = [(1, 11), (11, 21), (21, 25)] := by decide

end Corro.Chunker
