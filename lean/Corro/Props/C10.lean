/-
C10 — load shedding and duplicate suppression never lose a change for good.
Property theorems only; the model is `Corro/Model/Ingest.lean` (the receive loop `handle_changes`),
helper lemmas are in `Corro/Lemmas/Ingest*.lean`.

Vocabulary (defined in `Corro/Lemmas/Ingest.lean`):
* `pool true s`  — every accepted changeset that was not dropped: running, queued, delivered by a
  successful batch, or contained in a failed batch; `pool false s` leaves the failed ones out.
* `Backs it (a, v)` — changeset `it` is about version `v` of actor `a`;
  `Covers it (a, v) x` — and it carries seq `x`.
* `Inv wf s` — the `seen` cache is well formed (unique keys, canonical seq sets), every key and every
  recorded seq is justified by a changeset of `pool wf s`, queued changesets have forward ranges.
* `CoveredBy D it` — every seq (every version, for `Empty`) of `it` is carried by a changeset of `D`;
  `Fresh P it` — some seq (version) of `it` is carried by nothing in `P`.
* `drain p ok s` — the oldest running batch finishes, again and again (at most
  `queue length + running batches + 1` times): what happens when nothing else arrives.

"Applied" below means: handed to `process_multiple_changes` in a batch that returned `Ok`
(`s.delivered`).  That such a batch stores what it is given is `Node.deliver`'s business (C03) and is
checked here by the correspondence (`held` after `reoffer` on the real node).
-/
import Corro.Lemmas.IngestCover

namespace Corro.Ingest
open Corro Corro.Node

/-- `seen_sound`'s invariant: everything recorded in `seen` is in the queue, in a running batch, was
in a failed batch, or was delivered by a successful batch. -/
def SeenSound (s : State) : Prop := Inv true s

/-- the stronger invariant that holds as long as no batch has failed (since the last full trim):
everything recorded in `seen` is queued, running or delivered. -/
def NoResidue (s : State) : Prop := Inv false s

/-! ### the ingest layer touches bookkeeping only through `deliver` -/

/-- **C10, "the node still does not claim to hold it" (1).**  For ALL event sequences and ALL
parameters: the node state after the run is the node state before it with `Node.deliver` applied
to the batches that finished with `Ok` during the run, in completion order — nothing else ever
writes bookkeeping (not an offer, a drop, a suppression, a tick or a failed batch). -/
theorem bookkeeping_only_through_deliver (p : Params) : ∀ (evs : List Event) (s : State),
    ∃ bs : List (List Item), (run p s evs).delivered = s.delivered ++ bs ∧
      (run p s evs).node = bs.foldl Node.deliver s.node := by
  intro evs
  induction evs with
  | nil => intro s; exact ⟨[], by simp [run], by simp [run]⟩
  | cons ev rest ih =>
    intro s
    obtain ⟨bs, h1, h2⟩ := ih (step p s ev)
    have hrun : run p s (ev :: rest) = run p (step p s ev) rest := by simp [run]
    rw [hrun]
    rcases step_node p s ev with ⟨hd, hn⟩ | ⟨b, _, hd, hn⟩
    · exact ⟨bs, by rw [h1, hd], by rw [h2, hn]⟩
    · exact ⟨b :: bs, by rw [h1, hd]; simp, by rw [h2, hn]; simp⟩

/-- **C10, "the node still does not claim to hold it" (2).**  If no batch finished successfully
during a run, whatever was offered, dropped or suppressed in it, `contains_all` answers exactly as
before: a changeset is never reported as held unless it went through a successful batch. -/
theorem not_claimed_unless_stored (p : Params) (s : State) (evs : List Event) (it : Item)
    (h : (run p s evs).delivered = s.delivered) : held (run p s evs).node it = held s.node it := by
  obtain ⟨bs, h1, h2⟩ := bookkeeping_only_through_deliver p evs s
  have : bs = [] := by
    rw [h] at h1
    exact (List.append_right_eq_self.1 h1.symm)
  subst this
  rw [h2]; rfl

/-- **C10 (3).**  Whatever a successful batch delivered was accepted from an offer of this run (or
was already queued / running before it): batches are made of offered changesets only. -/
theorem delivered_were_offered (p : Params) : ∀ (evs : List Event) (s : State),
    ∀ it ∈ pool true (run p s evs), it ∈ pool true s ∨ ∃ b, Event.offer it b ∈ evs := by
  intro evs
  induction evs with
  | nil => intro s it h; left; simpa [run] using h
  | cons ev rest ih =>
    intro s it hit
    have hrun : run p s (ev :: rest) = run p (step p s ev) rest := by simp [run]
    rw [hrun] at hit
    rcases ih (step p s ev) it hit with h | ⟨b, hb⟩
    · cases ev with
      | offer it' b' =>
        simp only [step, loopTop_pool] at h
        unfold offer at h
        split at h
        · simp only [enqueue, pool, List.mem_append, List.mem_singleton] at h
          have hsf := shed_frame p s it'
          have hsub := hsf.2.2.2.2
          have hfr : (shed p s it').inflight = s.inflight ∧ (shed p s it').delivered = s.delivered ∧
              (shed p s it').failed = s.failed := ⟨hsf.1, hsf.2.1, hsf.2.2.1⟩
          rw [hfr.1, hfr.2.1, hfr.2.2] at h
          by_cases heq : it = it'
          · right; exact ⟨b', by simp [heq]⟩
          · left
            simp only [pool, List.mem_append]
            rcases h with ((h | (h | h)) | h) | h
            · exact Or.inl (Or.inl (Or.inl h))
            · exact Or.inl (Or.inl (Or.inr (hsub _ h)))
            · exact absurd h heq
            · exact Or.inl (Or.inr h)
            · exact Or.inr h
        · left; exact h
      | tick => left; rw [pool_step_tick] at h; exact h
      | batchDone i ok =>
        left
        simp only [step, loopTop_pool] at h
        cases ok with
        | true => exact (batchDone_pool_ok p s i true it).2 h
        | false => exact (batchDone_pool_err p s i it).2 h
    · right; exact ⟨b, by simp [hb]⟩

/-! ### the duplicate cache is justified -/

/-- **C10, `seen_sound`.**  With the eviction keyed by the DROPPED change's actor and emptied entries
removed (the code since repo commit f26a9aa): for every sequence of events whatsoever, from every
state satisfying it, every `(actor, version, seqs)` recorded in `seen` is in the queue, in a running
batch, was in a failed batch, or was delivered by a successful batch. -/
theorem seen_sound_run (p : Params) (hp : p.evictDropped = true) : ∀ (evs : List Event) (s : State),
    SeenSound s → SeenSound (run p s evs) := by
  intro evs
  induction evs with
  | nil => intro s h; simpa [run] using h
  | cons ev rest ih =>
    intro s h
    have hrun : run p s (ev :: rest) = run p (step p s ev) rest := by simp [run]
    rw [hrun]
    apply ih
    exact inv_step p hp true s ev (by simp) h

/-- `seen_sound` from the initial state, all parameters, all event sequences. -/
theorem seen_sound (p : Params) (hp : p.evictDropped = true) (n : Node) (evs : List Event) :
    SeenSound (run p (State.init n) evs) :=
  seen_sound_run p hp evs _ (inv_init true n)

/-! #### the code as it stood before f26a9aa: the eviction keyed with the INCOMING change's actor -/

/-- actors 0 and 1, `processing_queue_len = 1`, the node under test is actor 3 -/
def cxParams : Params := { maxQueueLen := 1, maxChangesChunk := 50 }
def cxX : Item := .full 0 1 0 0 0 []
def cxA : Item := .full 0 2 0 0 0 []
def cxB : Item := .full 1 2 0 0 0 []
/-- `X` is taken into a batch at once; `A` is queued; `B` arrives while the queue is full: `A` is
dropped and the code evicts `seen[(actor of B, 2)]` — which does not exist — instead of `A`'s entry -/
def cxState : State :=
  run cxParams (State.init (Node.fresh 3)) [.offer cxX false, .offer cxA false, .offer cxB false]

/-- **C10, `seen_sound_counterexample` (the eviction rule the code had, `evictDropped = false`).**  After the three offers `A` has
been dropped (it is neither queued nor running nor delivered nor failed), the node does not hold
it, its entry `((0, 2), {0})` is still in `seen`, and offering `A` again is refused. -/
theorem seen_sound_counterexample :
    cxState.seen = [((0, 1), [(0, 0)]), ((0, 2), [(0, 0)]), ((1, 2), [(0, 0)])] ∧
    cxState.queue = [cxB] ∧ cxState.inflight = [[cxX]] ∧ cxState.delivered = [] ∧ cxState.failed = [] ∧
    cxState.droppedItems = [cxA] ∧ held cxState.node cxA = false ∧ accepts cxState cxA = false := by
  decide

/-- consequently `SeenSound` is false of that reachable state under the old eviction rule. -/
theorem seen_sound_fails_as_is : ¬ SeenSound cxState := by
  intro h
  obtain ⟨hseen, hq, hi, hd, hf, _⟩ := seen_sound_counterexample
  have he := h.2.1 ((0, 2), [(0, 0)]) (by rw [hseen]; simp)
  obtain ⟨⟨it, hit, hb⟩, _⟩ := he
  simp only [pool, hq, hi, hd, hf, if_true, List.flatten_cons, List.flatten_nil, List.append_nil,
    List.mem_cons, List.mem_append, List.not_mem_nil, or_false] at hit
  rcases hit with rfl | rfl
  · simp [Backs, cxX, Item.versions] at hb
  · simp [Backs, cxB, Item.site] at hb

/-- the same three offers with the repaired eviction: `A`'s entry is gone and `A` is accepted again -/
theorem repaired_eviction_example :
    let s := run { cxParams with evictDropped := true } (State.init (Node.fresh 3))
      [.offer cxX false, .offer cxA false, .offer cxB false]
    s.seen = [((0, 1), [(0, 0)]), ((1, 2), [(0, 0)])] ∧ accepts s cxA = true := by
  decide

/-! ### a changeset that is not pending is accepted again -/

/-- **C10, `reoffer_accepted`.**  Under `seen_sound`: a changeset of another actor (forward seq range)
that the node does not hold and some part of which is carried by nothing pending, failed or delivered is accepted by
the next offer — it becomes the newest element of the queue and is queued or running when the loop
waits again; if the queue has room, nothing is dropped for it. -/
theorem reoffer_accepted (p : Params) (s : State) (it : Item) (b : Bool)
    (hs : SeenSound s) (hown : it.site ≠ s.node.id) (hfwd : inverted it = false)
    (hheld : held s.node it = false) (hfresh : Fresh (pool true s) it) :
    accepts s it = true ∧ (∃ pre, (offer p s it).queue = pre ++ [it]) ∧
    it ∈ pending (step p s (.offer it b)) ∧
    (s.queue.length < p.maxQueueLen →
      (offer p s it).queue = s.queue ++ [it] ∧ (step p s (.offer it b)).droppedItems = s.droppedItems) := by
  have hsup := not_suppressed_of_fresh hs.2.1 hfresh
  have hacc : accepts s it = true := by
    simp [accepts, hsup, hheld, hown, hfwd]
  refine ⟨hacc, ?_, ?_, ?_⟩
  · unfold offer; rw [if_pos hacc]; exact ⟨_, rfl⟩
  · have hf := loopTop_frame p (offer p s it)
    simp only [step, pending, hf.2.2.2.2.2]
    unfold offer; rw [if_pos hacc]
    simp [enqueue]
  · intro hroom
    have hsh : shed p s it = s := by unfold shed; rw [if_neg (by omega)]
    refine ⟨?_, ?_⟩
    · unfold offer; rw [if_pos hacc, hsh]; rfl
    · have hf := loopTop_frame p (offer p s it)
      simp only [step, hf.2.2.2.2.1]
      unfold offer; rw [if_pos hacc, hsh]; rfl

/-! ### once the overload is over, one more offer suffices -/

/-- **C10, `eventually_applied` (with the bound).**  For all parameters with `MAX_CONCURRENT ≥ 1`,
every state in which no failed batch has left a residue (`NoResidue` — an invariant of ALL runs of
the code since bcbe93d, see `no_residue_run`), and every changeset of another actor: ONE more offer
followed by the overload ending — no more competing offers, the running and queued batches finish
successfully, which takes at most `queue length + running batches + 1` completions (the measure) —
leaves queue and running set empty and the changeset either already held or carried, seq by seq,
by changesets that went through a successful batch, whichever actors the competing traffic came
from.  (A changeset with an inverted seq range carries no seq: the statement is vacuous for it.) -/
theorem eventually_applied (p : Params) (hm : 1 ≤ p.maxConcurrent) (s : State) (it : Item) (b : Bool)
    (hs : NoResidue s) (hown : it.site ≠ s.node.id) :
    Idle (drain p true (step p s (.offer it b))) ∧
    (held s.node it = true ∨ CoveredBy (drain p true (step p s (.offer it b))).delivered.flatten it) ∧
    ∃ evs : List Event,
      evs.length ≤ (step p s (.offer it b)).queue.length + (step p s (.offer it b)).inflight.length + 1 ∧
      (∀ e ∈ evs, e = .batchDone 0 true) ∧
      drain p true (step p s (.offer it b)) = run p (step p s (.offer it b)) evs := by
  have hidle := drain_idle p true hm _ (step_stable p hm s (.offer it b))
  refine ⟨hidle, ?_, drainN_is_run p true _ _⟩
  by_cases hh : held s.node it = true
  · left; exact hh
  · right
    have hcov : CoveredBy (pool false (step p s (.offer it b))) it := by
      simp only [step, loopTop_pool]
      unfold offer
      split
      · apply coveredBy_self it
        simp [enqueue, pool]
      · rename_i hacc
        cases hinv : inverted it with
        | true => exact coveredBy_of_inverted hinv
        | false =>
          have hsup : suppresses s.seen it = true := by
            cases hsup : suppresses s.seen it with
            | true => rfl
            | false =>
              exfalso
              apply hacc
              have hh' : held s.node it = false := by simpa using hh
              simp [accepts, hsup, hh', hown, hinv]
          exact coveredBy_of_suppressed hs.2.1 hsup
    have hcov2 : CoveredBy (pool false (drain p true (step p s (.offer it b)))) it :=
      coveredBy_mono (drainN_pool p false _ _) hcov
    have : pool false (drain p true (step p s (.offer it b))) =
        (drain p true (step p s (.offer it b))).delivered.flatten := by
      simp only [drain] at hidle ⊢
      simp [pool, hidle.1, hidle.2]
    rw [← this]
    exact hcov2

/-- `NoResidue` is an invariant of EVERY run of the code as repaired (a failed batch clears the
cache, bcbe93d) — and, for the code before that, of every run in which no batch fails. -/
theorem no_residue_run (p : Params) (hp : p.evictDropped = true) : ∀ (evs : List Event) (s : State),
    (p.clearOnFail = true ∨ ∀ i, Event.batchDone i false ∉ evs) → NoResidue s → NoResidue (run p s evs) := by
  intro evs
  induction evs with
  | nil => intro s _ h; simpa [run] using h
  | cons ev rest ih =>
    intro s hnf h
    have hrun : run p s (ev :: rest) = run p (step p s ev) rest := by simp [run]
    rw [hrun]
    apply ih
    · rcases hnf with h' | h'
      · left; exact h'
      · right; intro i hi; exact h' i (by simp [hi])
    · apply inv_step p hp false s ev _ h
      intro _
      rcases hnf with h' | h'
      · left; exact h'
      · right; intro i heq; exact h' i (by simp [heq])

/-- **C10, the property's last sentence for the code as repaired.**  In every state reachable by ANY
sequence of offers, ticks, successful and FAILED batches (both repairs in place), one more offer of
a changeset of another actor followed by the overload ending leaves it held or carried by
successfully delivered changesets. -/
theorem eventually_applied_reachable (p : Params) (hp : p.evictDropped = true) (hm : 1 ≤ p.maxConcurrent)
    (n : Node) (evs : List Event) (hnf : p.clearOnFail = true ∨ ∀ i, Event.batchDone i false ∉ evs)
    (it : Item) (b : Bool) (hown : it.site ≠ (run p (State.init n) evs).node.id) :
    Idle (drain p true (step p (run p (State.init n) evs) (.offer it b))) ∧
    (held (run p (State.init n) evs).node it = true ∨
      CoveredBy (drain p true (step p (run p (State.init n) evs) (.offer it b))).delivered.flatten it) := by
  have h := eventually_applied p hm (run p (State.init n) evs) it b
    (no_residue_run p hp evs _ hnf (inv_init false n)) hown
  exact ⟨h.1, h.2.1⟩

/-! ### failed batches -/

/-- **C10, `failed_batch_residue` (true of the code before bcbe93d, `clearOnFail = false`).**  A batch
that fails is only logged: its changesets are gone from queue and running set, nothing was written,
and `seen` is untouched — it still records them. -/
theorem failed_batch_residue (p : Params) (hc : p.clearOnFail = false) (s : State) (i : Nat) (b : List Item)
    (hb : s.inflight[i]? = some b) :
    (step p s (.batchDone i false)).seen = s.seen ∧ (step p s (.batchDone i false)).node = s.node ∧
    (step p s (.batchDone i false)).delivered = s.delivered ∧
    (step p s (.batchDone i false)).failed = s.failed ++ [b] := by
  have hf := loopTop_frame p (batchDone p s i false)
  simp only [step, hf.1, hf.2.1, hf.2.2.1, hf.2.2.2.1]
  unfold batchDone
  simp [hb, hc]

/-- the repaired loop (`clearOnFail = true`): a failed batch empties the duplicate cache, nothing is
written, the batch is recorded as failed. -/
theorem failed_batch_clears (p : Params) (hc : p.clearOnFail = true) (s : State) (i : Nat) (b : List Item)
    (hb : s.inflight[i]? = some b) :
    (step p s (.batchDone i false)).seen = [] ∧ (step p s (.batchDone i false)).node = s.node ∧
    (step p s (.batchDone i false)).delivered = s.delivered ∧
    (step p s (.batchDone i false)).failed = s.failed ++ [b] := by
  have hf := loopTop_frame p (batchDone p s i false)
  simp only [step, hf.1, hf.2.1, hf.2.2.1, hf.2.2.2.1]
  unfold batchDone
  simp [hb, hc]

/-- the consequence: as long as `seen` still covers a changeset, offering it again does nothing — the
loop behaves as if nothing had arrived — however often it is offered. -/
theorem residue_suppresses (p : Params) (s : State) (it : Item) (b : Bool) (h : suppresses s.seen it = true) :
    step p s (.offer it b) = loopTop p s := by
  simp [step, offer, accepts, h]

def rsA : Item := .full 0 1 0 0 0 []
/-- one changeset is offered and its batch fails -/
def rsState : State :=
  run { cxParams with evictDropped := true } (State.init (Node.fresh 3)) [.offer rsA false, .batchDone 0 false]

/-- **C10, the hypothesis of `eventually_applied` cannot be dropped (code before bcbe93d).**  After a
failed batch that is only logged (even with the repaired eviction) the changeset is neither held
nor pending, yet the next offer — and, by `residue_suppresses`, every later one — is refused, and
draining delivers nothing: the conclusion of `eventually_applied` is false.  That loop recovers
only through the trim (`trim_restores`), which runs when `seen` holds more than
`processing_queue_len` (default 20 000) keys. -/
theorem failed_batch_residue_counterexample :
    rsState.queue = [] ∧ rsState.inflight = [] ∧ rsState.failed = [[rsA]] ∧
    held rsState.node rsA = false ∧ accepts rsState rsA = false ∧
    (drain { cxParams with evictDropped := true } true
      (step { cxParams with evictDropped := true } rsState (.offer rsA false))).delivered = [] := by
  decide

/-- the same run with the repaired loop: the cache is cleared and the changeset is accepted again -/
theorem failed_batch_recovers_example :
    let p : Params := { cxParams with evictDropped := true, clearOnFail := true }
    let s := run p (State.init (Node.fresh 3)) [.offer rsA false, .batchDone 0 false]
    s.seen = [] ∧ s.failed = [[rsA]] ∧ accepts s rsA = true ∧
    (drain p true (step p s (.offer rsA false))).delivered = [[rsA]] := by
  decide

/-- the explicit hypothesis for the old loop: after a tick that trims the whole cache (`keep_seen_cache_size = 0`, i.e.
`processing_queue_len ≤ 10`, and more keys than `processing_queue_len`), `NoResidue` holds again
whatever failed before — so `eventually_applied` applies from there. -/
theorem trim_restores (p : Params) (s : State) (hk : p.keepSeen = 0) (hl : s.seen.length > p.maxQueueLen)
    (hq : ∀ it ∈ s.queue, ItemWF it) : NoResidue (step p s .tick) := by
  have hseen : (step p s .tick).seen = [] := by
    show (loopTop p (trim p (flush p s))).seen = []
    rw [(loopTop_frame p _).1, trim_seen, (flush_frame p s).1, if_pos hl, hk]
    simp
  refine ⟨by rw [hseen]; exact ⟨by simp, by simp⟩, by rw [hseen]; intro e he; simp at he, ?_⟩
  intro it hit
  have h1 := loopTop_queue_mem p (tick p s) it hit
  have h2 : ∀ x ∈ (tick p s).queue, x ∈ s.queue := by
    intro x hx
    simp only [tick, trim_queue] at hx
    exact (flush_frame p s).2 x hx
  exact hq it (h2 it h1)

/-! ### cost accounting and bounds (what the drop-oldest rule is for) -/

/-- `buf_cost` is the cost of the queue after every event: the `-=` never underflows. -/
theorem bufCost_is_queue_cost (p : Params) : ∀ (evs : List Event) (s : State), s.bufCost = costs s.queue →
    (run p s evs).bufCost = costs (run p s evs).queue := by
  intro evs
  induction evs with
  | nil => intro s h; simpa [run] using h
  | cons ev rest ih =>
    intro s h
    have hrun : run p s (ev :: rest) = run p (step p s ev) rest := by simp [run]
    rw [hrun]; exact ih _ (step_bufCost p s ev h)

/-- the queue never holds more than `processing_queue_len` changesets. -/
theorem queue_never_exceeds (p : Params) (hq : 1 ≤ p.maxQueueLen) : ∀ (evs : List Event) (s : State),
    s.queue.length ≤ p.maxQueueLen → (run p s evs).queue.length ≤ p.maxQueueLen := by
  intro evs
  induction evs with
  | nil => intro s h; simpa [run] using h
  | cons ev rest ih =>
    intro s h
    have hrun : run p s (ev :: rest) = run p (step p s ev) rest := by simp [run]
    rw [hrun]; exact ih _ (step_queue_le p hq s ev h)

/-- at most `MAX_CONCURRENT` batches run at any time. -/
theorem inflight_never_exceeds (p : Params) : ∀ (evs : List Event) (s : State),
    s.inflight.length ≤ p.maxConcurrent → (run p s evs).inflight.length ≤ p.maxConcurrent := by
  intro evs
  induction evs with
  | nil => intro s h; simpa [run] using h
  | cons ev rest ih =>
    intro s h
    have hrun : run p s (ev :: rest) = run p (step p s ev) rest := by simp [run]
    rw [hrun]; exact ih _ (step_inflight_le p s ev h)

/-! ### the hypotheses are satisfiable, the definitions compute -/

/-- the initial state satisfies both invariants -/
example (n : Node) : SeenSound (State.init n) ∧ NoResidue (State.init n) := ⟨inv_init true n, inv_init false n⟩

/-- `Fresh` / `ItemWF` of a concrete changeset against an empty pool -/
example : Fresh [] cxA ∧ inverted cxA = false := by
  refine ⟨⟨0, by decide, by decide, by simp⟩, by decide⟩

/-- a changeset with an inverted seq range is ignored: no state change at all -/
example :
    let s := run cxParams (State.init (Node.fresh 3)) [.offer (.full 0 1 5 2 7 []) true]
    s.queue = [] ∧ s.inflight = [] ∧ s.seen = [] := by decide

/-- overload with ONE actor (what the existing test samples): the dropped changeset is evicted and
accepted again, in both variants -/
example :
    let s := run cxParams (State.init (Node.fresh 3))
      [.offer cxX false, .offer cxA false, .offer (.full 0 3 0 0 0 []) false]
    s.droppedItems = [cxA] ∧ accepts s cxA = true := by decide

/-- drop-oldest, batches, tick flush and a successful completion on concrete numbers: queue length 2,
chunk 50; the third queued changeset pushes the first out; the tick flushes; the first batch finishes -/
example :
    let s := run { maxQueueLen := 2, maxChangesChunk := 50 } (State.init (Node.fresh 3))
      [.offer cxX true, .offer cxA false, .offer cxB false, .offer (.empty 1 5 6) false, .tick, .batchDone 0 true]
    s.queue = [] ∧ s.inflight = [[cxB, .empty 1 5 6]] ∧ s.delivered = [[cxX]] ∧ s.droppedItems = [cxA] ∧
    held s.node cxX = true ∧ held s.node cxA = false := by decide

/-- the emptied-entry variant of the defect: dropping the only changeset of `(0, 2)` leaves the key
with an empty seq set (code as it stands), which refuses a later `Empty` for that version; the
repaired rule removes the key -/
example :
    let evs := [Event.offer cxX false, .offer cxA false, .offer (.full 0 3 0 0 0 []) false]
    suppresses (run cxParams (State.init (Node.fresh 3)) evs).seen (.empty 0 2 2) = true ∧
    suppresses (run { cxParams with evictDropped := true } (State.init (Node.fresh 3)) evs).seen (.empty 0 2 2) = false := by
  decide

end Corro.Ingest
