/-
C01 — replicas converge under any delivery order, duplication, chunking and loss — the PROTOCOL-level
theorems of `Props/C01Cluster.lean` WITH CRASHES AND RESTARTS: restriction R4 (first half: "no `kill`
/ `restart` in the run") of that file is lifted.  Property theorems only; definitions and lemmas are
in `Corro/Lemmas/ClusterCrash{Inv,Buf,Deliver,Serve,Restart,Step,Live,Session,Conv}.lean`.

Runs (`Crash.ReachC k c`): ANY sequence of steps of `ClusterSys.step` from `k` fresh nodes — `write`,
`deliverOrigin`, `sync`, `kill i`, `restart i`, in any order, any number of crashes — such that every
write step satisfies `OpOK` (R3) and in every SYNC step the SERVER is clean (`Crash.serverClean`: it has
no sequence row of a version without a buffered row of it — what `Cluster.clean`, the second half of
R4, says of every node; necessary: `held_inv_needs_clean_counterexample`; the client, the other nodes
and all other steps are unrestricted).  Every `ReachLive` run is such a run
(`crash_runs_subsume_live_runs`).

What `kill` / `restart` are in the model: after `kill i` node `i` keeps committing deliveries
(buffered rows, sequence rows, bookkeeping; complete changesets and `Empty`s are applied inside the
transaction as always) and keeps serving sync requests, but its apply loop is gone: a version whose
last missing chunk arrives is COMPLETE BUT UNAPPLIED (partial complete, sequence rows still there).
`restart i` = `from_conn` for every discovered actor (head from the db-version row and the row
versions, needed ranges as committed, one partial per version with sequence rows, made of exactly
those rows) followed by one `process_fully_buffered_changes` per version whose rows cover
`0..=last_seq`; the ghost list is extended by what these applies merge (`restartMerged`).

`Held n a v` (definition unchanged, `Lemmas/ClusterInv.lean`): `v` within the head, not needed, and IF
there is a partial THEN it is complete AND its sequence rows are gone (= applied).  So on a killed node
a complete-but-unapplied version is NOT held (`killed_pending_not_held`); it becomes held when a
restart re-applies it (`restart_applies_pending_crash_partial`).  All statements below are about every
reachable state, killed nodes included.

The invariant (`Crash.CInv`) differs from the crash-free `LInv` in three places: a third state of a
partial (complete, rows present) allowed only on a killed node (`partial_states_crash_partial`);
`dbv_le` (durable db-version row ≤ in-memory head); and `rheld` ("everything merged belongs to a
held version") is replaced by `merged_versions_complete_crash_partial` — `rheld` is FALSE in runs
with crashes (`linv_rheld_crash_counterexample`; not a protocol defect, only the reason why the
crash-free proofs could not be reused).

REMAINING RESTRICTIONS (as in `C01Cluster.lean`, all explicit in the statements):
R1 one changeset per batch; R2 `LogOK` (no re-insertion of deleted rows); R3 `OpOK` at write steps;
R4' the server of a sync step is clean; R5 `NoTies` (convergence); R6 fairness is a hypothesis
(liveness): after the last write and the last crash / restart, a schedule of lossless sessions (no
further crashes inside it) containing a session `i ← a` for every alive node `i` and every other node
`a`.  Convergence is claimed for the nodes that are alive then (`eventual_convergence_alive_nodes_…`;
for all nodes if all have been restarted, `AllAlive`); a node that stays killed does not converge
(`eventual_convergence_needs_restart_counterexample`).

Side observation (`restart_sync_state_roundtrip_counterexample`): memory and disk can disagree about
the `last_seq` of a partially held version (after a chunk answered by a relay that lost the tail of the
version), so a restart can change the advertised sync state; harmless for C01.
-/
import Corro.Lemmas.ClusterCrashConv
import Corro.Props.C01Cluster

namespace Corro.ClusterSys
open Corro.Crdt Corro.Node Corro.ClusterSys.Crash

/-! ### 0. the class of runs -/

/-- every run without crashes through clean states (`ReachLive`, the runs of `C01Cluster.lean`) is a
run in the sense of this file -/
theorem crash_runs_subsume_live_runs {k : Nat} {c : Cluster} (h : ReachLive k c) : ReachC k c :=
  reachC_of_reachLive h

/-! ### 1. `held_inv` with crashes -/

/-- **`held_inv`, all reachable runs (R1, R2, R3, R4').**  In EVERY cluster state reachable by any
steps — `kill` and `restart` included, any number of times, the server of every sync step clean — and
for EVERY node `i`, dead or alive: if node `i` books `(a, v)` as held (`Held`: within the head, not
needed, no partial or a complete AND APPLIED one) then every change `ch` of the transaction
`L(a, v)` is in `R i` — merged into the node's store — or is dominated in the log (`Dom`).

Preserved in addition by: `kill` (nothing but the flag changes); deliveries to a killed node (a
chunk that completes a version leaves it complete-but-unapplied = not held; complete changesets and
`Empty`s settle versions as on an alive node); `restart` (a version held after the reload was held
before: the reloaded head is at most the old head, the needed ranges are the committed ones, and a
version with sequence rows has a partial; the re-scheduled applies merge the buffered rows of a
version whose rows cover `0..=last_seq`, and every change of such a version is buffered or dominated);
writes on a killed node.

Full statement (not proved): without R2 and for batches of several changesets. -/
theorem held_inv_crash_partial {k : Nat} {c : Cluster} (h : ReachC k c) (hL : LogOK c.log) (i : Nat)
    (n : Node) (hi : c.nodes[i]? = some n) (a v : Nat) (hh : Held n a v) :
    ∀ ch ∈ c.log.get a v, ch ∈ c.R i ∨ Dom c.log.all ch :=
  ((reachC_inv h hL).node i n hi).2.held a v hh

/-- what `Held` says, spelled out (it is the definition) -/
theorem held_iff (n : Node) (a v : Nat) :
    Held n a v ↔ (n.booked a).containsVersion v = true ∧
      ∀ p, (n.booked a).partial? v = some p → p.complete = true ∧ ¬ HasRows n a v := Iff.rfl

/-- **on a killed node a complete-but-unapplied version is not held**: a version with a partial
whose sequence rows are still there is not held, complete or not (any node) -/
theorem killed_pending_not_held {n : Node} {a v : Nat} {p : Partial} (hp : (n.booked a).partial? v = some p)
    (hr : HasRows n a v) : ¬ Held n a v :=
  fun hh => (hh.2 p hp).2 hr

/-- `kill` changes nothing about what is held -/
theorem kill_keeps_held (n : Node) (a v : Nat) : Held n.kill a v ↔ Held n a v := Iff.rfl

/-- **the states of a partial, all reachable runs.**  In every reachable state every partial of
every node is (A) complete and applied (sequence rows gone — the version is held), or (B) incomplete
with sequence rows that contain every received seq, or (C) complete with its sequence rows still
there — and (C) occurs ONLY ON A KILLED NODE. -/
theorem partial_states_crash_partial {k : Nat} {c : Cluster} (h : ReachC k c) (hL : LogOK c.log) (i : Nat)
    (n : Node) (hi : c.nodes[i]? = some n) (a v : Nat) (p : Partial) (hp : (n.booked a).partial? v = some p) :
    (p.complete = true ∧ ¬ HasRows n a v) ∨
    (p.complete = false ∧ HasRows n a v ∧ ∀ x, RSet.Mem p.seqs x → SeqMem n.seqRows a v x) ∨
    (n.alive = false ∧ p.complete = true ∧ HasRows n a v) :=
  ((reachC_inv h hL).node i n hi).2.part_state a v p hp

/-- **what `restart` does to a node of a reachable state**: the restarted node is alive and NOTHING
is pending on it — every version whose partial is complete has been applied (its sequence rows are
gone), in particular every version that was complete-but-unapplied while the node was killed and
still has rows covering `0..=last_seq` -/
theorem restart_applies_pending_crash_partial {k : Nat} {c : Cluster} (h : ReachC k c) (hL : LogOK c.log)
    (i : Nat) (n : Node) (hi : c.nodes[i]? = some n) :
    (step c (.restart i)).nodes[i]? = some n.restart ∧ (n.restart).alive = true ∧
    ∀ a v p, ((n.restart).booked a).partial? v = some p → p.complete = true → ¬ HasRows n.restart a v := by
  have hn := (reachC_inv h hL).node i n hi
  obtain ⟨h1, h2, _⟩ := cinv_restart hn.2 hL
  refine ⟨?_, h2, h1.noPending⟩
  rw [step_restart]
  simp only [hi]
  exact setNode_nodes_self hi _

/-- **everything merged belongs to a fully merged version** (replaces `rheld` of the crash-free
invariant): in every reachable state, if node `i` has merged a change `e`, then EVERY change of the
transaction `e` belongs to is merged into node `i` or dominated in the log — whether or not the node
still books the version as held (it may have re-buffered a chunk of it while killed) -/
theorem merged_versions_complete_crash_partial {k : Nat} {c : Cluster} (h : ReachC k c) (hL : LogOK c.log)
    (i : Nat) (n : Node) (hi : c.nodes[i]? = some n) (e : Chg) (he : e ∈ c.R i) :
    ∀ ch ∈ c.log.get e.site e.dbv, ch ∈ c.R i ∨ Dom c.log.all ch :=
  ((reachC_inv h hL).node i n hi).2.rgot e he

/-- **the relay lemma, all reachable runs**: what a node — dead or alive — that holds `(a, v)`
serves for it, its live entries attributed to `(a, v)`, contains every change of `L(a, v)` that is
not dominated -/
theorem relay_serves_nondominated_crash_partial {k : Nat} {c : Cluster} (h : ReachC k c) (hL : LogOK c.log)
    (j : Nat) (n : Node) (hj : c.nodes[j]? = some n) (a v : Nat) (hh : Held n a v) :
    ∀ ch ∈ c.log.get a v, ch ∈ n.live a v ∨ Dom c.log.all ch := by
  have := (reachC_inv h hL).node j n hj
  exact fun ch hch => Crash.live_covers this.1 this.2 hL hh hch

/-- everything a server — dead or alive, possibly with complete-but-unapplied versions, which it
serves from its buffered rows — sends in a session from a clean state satisfies `ChunkOK` -/
theorem served_chunks_ok_crash_partial {k : Nat} {c : Cluster} (h : ReachC k c) (hL : LogOK c.log)
    (hcl : c.clean = true) (j : Nat) (nj : Node) (hj : c.nodes[j]? = some nj) (ni : Node) :
    ∀ it ∈ answers ni nj, ChunkOK c.log it := by
  have := (reachC_inv h hL).node j nj hj
  exact fun it hit => Crash.chunkOK_answers this.1 this.2 hL (clean_node hcl hj) hit

/-! ### 2. convergence at quiescence with crashes -/

/-- **`converged_at_quiescence`, one node, all reachable runs (R1, R2, R3, R4', R5).**  In a cluster
state reachable by any steps — kills and restarts included — a node, dead or alive, that holds every
transaction of the log shows the view that is the specification of the set of ALL changes of the log,
provided the log has no ties and is incarnation-complete (whatever the other nodes do or are). -/
theorem converged_node_crash_partial {k : Nat} {c : Cluster} (h : ReachC k c) (hL : LogOK c.log)
    (hnt : NoTies c.log.all) (hcs : CompleteStrong c.log.all) (i : Nat) (n : Node)
    (hi : c.nodes[i]? = some n) (hq : ∀ e ∈ c.log, Held n e.1.1 e.1.2) : view n.db = spec c.log.all := by
  obtain ⟨hN, hI⟩ := (reachC_inv h hL).node i n hi
  have hheld : ∀ ch ∈ c.log.all, ch ∈ c.R i ∨ Dom c.log.all ch := by
    intro ch hch
    obtain ⟨e, he, h1, h2⟩ := hL.entry_of_mem_all hch
    have hh := hq e he
    rw [h1, h2] at hh
    exact hI.held ch.site ch.dbv hh ch (hL.get_of_mem_all hch)
  obtain ⟨hs, hc⟩ := spec_of_held hN.rsub (fun ch hch => hL.chgOK hch) hheld hnt hcs
  rw [hN.store.inv.view_eq hc, hs]

/-- **`converged_at_quiescence`, all reachable runs (R1, R2, R3, R4', R5).**  In a cluster state
reachable by any steps — kills and restarts included — in which every node holds every transaction of
the log (`AllHeld`; on a killed node this says in particular that nothing is complete-but-unapplied),
every node, dead or alive, shows the view that is the specification of the set of ALL changes of the
log, provided the log has no ties and is incarnation-complete. -/
theorem converged_at_quiescence_crash_partial {k : Nat} {c : Cluster} (h : ReachC k c) (hL : LogOK c.log)
    (hnt : NoTies c.log.all) (hcs : CompleteStrong c.log.all) (hq : AllHeld c) (i : Nat) (n : Node)
    (hi : c.nodes[i]? = some n) : view n.db = spec c.log.all :=
  converged_node_crash_partial h hL hnt hcs i n hi (hq i n hi)

/-- **all replicas agree** -/
theorem replicas_agree_at_quiescence_crash_partial {k : Nat} {c : Cluster} (h : ReachC k c)
    (hL : LogOK c.log) (hnt : NoTies c.log.all) (hcs : CompleteStrong c.log.all) (hq : AllHeld c)
    (i j : Nat) (ni nj : Node) (hi : c.nodes[i]? = some ni) (hj : c.nodes[j]? = some nj) :
    view ni.db = view nj.db := by
  rw [converged_at_quiescence_crash_partial h hL hnt hcs hq i ni hi,
    converged_at_quiescence_crash_partial h hL hnt hcs hq j nj hj]

/-- `converged_at_quiescence`, with quiescence read off the bookkeeping ("all heads equal the log's,
no needs, no partial that is incomplete or has sequence rows") -/
theorem converged_when_quiescent_crash_partial {k : Nat} {c : Cluster} (h : ReachC k c) (hL : LogOK c.log)
    (hnt : NoTies c.log.all) (hcs : CompleteStrong c.log.all) (hq : Quiescent c) (i : Nat) (n : Node)
    (hi : c.nodes[i]? = some n) : view n.db = spec c.log.all :=
  converged_at_quiescence_crash_partial h hL hnt hcs (allHeld_of_quiescent hL hq) i n hi

/-! ### 3. liveness under a fairness hypothesis, with crashes -/

/-- **`sync_round_progress`, all reachable runs.**  In a cluster reachable by any steps (kills and
restarts included), one LOSSLESS session of an ALIVE client `i` (not killed since its last restart)
with ANY clean server `j` — dead or alive — leaves `i` alive and holding every version of
every actor other than `i` itself that `j` holds, and everything `i` held before.  (For a killed
client the statement is false: its partials are never applied.) -/
theorem sync_round_progress_crash_partial {k : Nat} {c : Cluster} (h : ReachC k c) (hL : LogOK c.log)
    {i j : Nat} (hij : i ≠ j) {ni nj : Node} (hi : c.nodes[i]? = some ni)
    (hj : c.nodes[j]? = some nj) (hcl : nodeClean nj = true) (hal : ni.alive = true) {keep : List Nat}
    (hkeep : pick (answers ni nj) keep = answers ni nj) :
    ∃ ni', (step c (.sync i j keep)).nodes[i]? = some ni' ∧ ni'.alive = true ∧
      (∀ a v, a ≠ i → 1 ≤ v → Held nj a v → Held ni' a v) ∧ (∀ a v, Held ni a v → Held ni' a v) :=
  sync_step_progress_crash h hL hij hi hj hcl hal hkeep

/-- **every node always holds its own versions — dead or alive, across kills and restarts** (local
writes keep the own db-version row at the own head, which is where `from_conn` takes the head from;
own versions never have a partial) -/
theorem origin_holds_own_crash_partial {k : Nat} {c : Cluster} (h : ReachC k c) (hL : LogOK c.log) (i : Nat)
    (n : Node) (hi : c.nodes[i]? = some n) (v : Nat) (h1 : 1 ≤ v) (h2 : v ≤ c.log.head i) : Held n i v :=
  ((reachC_own h hL).own i n hi v h1 h2).held

/-- **`eventual_convergence` for the alive nodes, with crashes.**  Let `c` be reachable by ANY steps
— writes, chunks, lossy sessions, and any number of kills and restarts, in any order (R1–R3, R4') —
with a well-formed log without ties that is incarnation-complete.  Writes and crashes stop; the
cluster runs ANY schedule `ops` of lossless sync sessions, each from a clean state (`LosslessRun`),
that contains for every ALIVE node `i` and every other node `a` — dead or alive — at least one
session `i ← a`.  Then the log is unchanged and every node that is alive holds every version of it and
shows the specification of all acknowledged changes.  Killed nodes take part as servers (and as
clients, without any claim): they do not block the others. -/
theorem eventual_convergence_alive_nodes_crash_partial {k : Nat} {c : Cluster} (h : ReachC k c)
    (hL : LogOK c.log) (hnt : NoTies c.log.all) (hcs : CompleteStrong c.log.all) (ops : List Op)
    (hrun : LosslessRun c ops)
    (hcov : ∀ i a, i < k → a < k → i ≠ a → AliveAt c i → ∃ keep, Op.sync i a keep ∈ ops) :
    (run c ops).log = c.log ∧
    ∀ (i : Nat) (n : Node), (run c ops).nodes[i]? = some n → n.alive = true →
      (∀ e ∈ c.log, Held n e.1.1 e.1.2) ∧ view n.db = spec c.log.all := by
  have hown := reachC_own h hL
  obtain ⟨hr', hlog, halive, hall⟩ := holds_after_schedule_crash h hL ops hrun (by
    intro i a hi ha hal
    by_cases hia : i = a
    · subst hia
      exact Or.inl (fun n hn v h1 h2 => (hown.own i n hn v h1 h2).held)
    · exact Or.inr ⟨hia, hcov i a hi ha hia hal⟩)
  have hL' : LogOK (run c ops).log := by rw [hlog]; exact hL
  have hown' := reachC_own hr' hL'
  refine ⟨hlog, ?_⟩
  intro i n hi hal
  have hlt : i < k := by
    have := (List.getElem?_eq_some_iff.mp hi).1
    rw [hown'.len] at this; exact this
  have hAt : AliveAt c i := (halive i).mp (fun m hm => by rw [hi] at hm; cases hm; exact hal)
  have hheld : ∀ e ∈ c.log, Held n e.1.1 e.1.2 := by
    intro e he
    have he' : e ∈ (run c ops).log := by rw [hlog]; exact he
    have hv := hL'.ver_le e he'
    exact hall i e.1.1 hlt (hown'.sites e he') hAt n hi e.1.2 hv.1 hv.2
  refine ⟨hheld, ?_⟩
  have := converged_node_crash_partial hr' hL' (by rw [hlog]; exact hnt) (by rw [hlog]; exact hcs) i n hi
    (by rw [hlog]; exact hheld)
  rw [hlog] at this
  exact this

/-- **`eventual_convergence`, with crashes.**  Let `c` be reachable by ANY steps — writes, chunks,
lossy sessions, and any number of kills and restarts, in any order (R1–R3, R4') — with a well-formed
log without ties that is incarnation-complete, and let every node be alive in `c` (`AllAlive`: every
killed node has been restarted; necessary, `eventual_convergence_needs_restart_counterexample`).
Writes and crashes stop; the cluster runs ANY schedule `ops` of lossless sync sessions, each from a
clean state (`LosslessRun`), that contains for every ordered pair of distinct nodes `(i, a)` at least
one session `i ← a`.  Then the log is unchanged, every node holds every version of it, and every node
shows the specification of all acknowledged changes: all replicas agree.

The existence of such a schedule is the fairness ASSUMPTION (R6); it is a hypothesis here. -/
theorem eventual_convergence_crash_partial {k : Nat} {c : Cluster} (h : ReachC k c) (hL : LogOK c.log)
    (hnt : NoTies c.log.all) (hcs : CompleteStrong c.log.all) (hal : AllAlive c) (ops : List Op)
    (hrun : LosslessRun c ops)
    (hcov : ∀ i a, i < k → a < k → i ≠ a → ∃ keep, Op.sync i a keep ∈ ops) :
    (run c ops).log = c.log ∧ AllHeld (run c ops) ∧
    ∀ (i : Nat) (n : Node), (run c ops).nodes[i]? = some n → view n.db = spec c.log.all := by
  obtain ⟨hlog, hall⟩ := eventual_convergence_alive_nodes_crash_partial h hL hnt hcs ops hrun
    (fun i a hi ha hne _ => hcov i a hi ha hne)
  obtain ⟨_, _, halive, _⟩ := holds_after_schedule_crash h hL ops hrun (by
    intro i a hi ha _
    by_cases hia : i = a
    · subst hia
      exact Or.inl (fun n hn v h1 h2 => ((reachC_own h hL).own i n hn v h1 h2).held)
    · exact Or.inr ⟨hia, hcov i a hi ha hia⟩)
  have hal' : ∀ (i : Nat) (n : Node), (run c ops).nodes[i]? = some n → n.alive = true :=
    fun i n hi => (halive i).mpr (fun m hm => hal i m hm) n hi
  refine ⟨hlog, ?_, fun i n hi => (hall i n hi (hal' i n hi)).2⟩
  intro i n hi e he
  rw [hlog] at he
  exact (hall i n hi (hal' i n hi)).1 e he

/-! ### concrete runs (non-vacuity) -/

namespace ExCrash
open Ex

/-- Three nodes.  Node 0 inserts row `t/1` (version 1: `a@0`, `b@1`) and updates `b` (version 2).
Node 1 receives the chunk `[0, 0]` of version 1, is KILLED IN THE MIDDLE OF THE CHUNKED DELIVERY,
then (killed) receives the chunk `[1, 1]` — version 1 is now complete but unapplied — and version 2
whole (applied inside the transaction).  Node 2 syncs with the killed node 1, which serves version 1
from its buffered rows.  Node 1 RESTARTS (re-applies version 1) and deletes the row. -/
def opsD : List Op := [
  .write 0 [.ins "t" "1" [("a", .int 1), ("b", .int 2)]],
  .write 0 [.upd "t" "1" [("b", .int 9)]],
  .deliverOrigin 1 0 1 0 0,
  .kill 1,
  .deliverOrigin 1 0 1 1 1,
  .deliverOrigin 1 0 2 0 0,
  .sync 2 1 [0, 1, 2],
  .restart 1,
  .write 1 [.del "t" "1"]]

def cD (m : Nat) : Cluster := run (Cluster.init 3) (opsD.take m)

theorem cD_reach (m : Nat) (hm : m ≤ 9 := by decide) : ReachC 3 (cD m) := by
  have : ∀ m, m ≤ 9 → runOKC (Cluster.init 3) (opsD.take m) := by decide
  exact reachC_run ReachC.init _ (this m hm)

set_option maxRecDepth 100000 in
set_option synthInstance.maxSize 4096 in
/-- after step 6 (killed, both chunks and version 2 received): node 1 is dead, its partial of
`(0, 1)` is complete with the sequence row `[0, 1]` still there, so `(0, 1)` is NOT held — nothing of
it is merged — while `(0, 2)` is held and merged; the killed node serves version 1 from its
buffered rows as ONE changeset `0..=1` -/
example : (nodeOf (cD 6) 1).alive = false ∧
    (nodeOf (cD 6) 1).book = [(0, { max := 2, needed := [], partials := [(1, ⟨[(0, 1)], 1⟩)] })] ∧
    (nodeOf (cD 6) 1).seqRows = [⟨0, 1, 0, 1, 1⟩] ∧
    ¬ Held (nodeOf (cD 6) 1) 0 1 ∧ Held (nodeOf (cD 6) 1) 0 2 ∧
    ((cD 6).R 1).map (fun c => (c.site, c.dbv, c.seq)) = [(0, 2, 0)] ∧
    (answers (nodeOf (cD 6) 2) (nodeOf (cD 6) 1)).map (fun it => (it.versions, it.seqs)) =
      [((2, 2), some (0, 0)), ((1, 1), some (0, 1))] := by decide

set_option maxRecDepth 100000 in
set_option synthInstance.maxSize 4096 in
/-- the restart (step 8) merges exactly the two buffered changes of version 1, after which node 1 is
alive, holds `(0, 1)`, and has no sequence rows -/
example : (restartMerged (nodeOf (cD 7) 1)).map (fun c => (c.site, c.dbv, c.seq)) = [(0, 1, 0), (0, 1, 1)] ∧
    (nodeOf (cD 8) 1).alive = true ∧ Held (nodeOf (cD 8) 1) 0 1 ∧ (nodeOf (cD 8) 1).seqRows = [] ∧
    ((cD 8).R 1).map (fun c => (c.site, c.dbv, c.seq)) = [(0, 1, 0), (0, 1, 1), (0, 2, 0)] := by decide

set_option maxRecDepth 100000 in
set_option synthInstance.maxSize 4096 in
/-- the hypotheses of `eventual_convergence_crash_partial` hold of the state after the whole run and
ONE round of lossless sessions over all ordered pairs; afterwards the state is quiescent and the row
is deleted (`cl = 2`) everywhere -/
example : LogOK (cD 9).log ∧ NoTies (cD 9).log.all ∧ CompleteStrong (cD 9).log.all ∧ AllAlive (cD 9) ∧
    losslessCheck (cD 9) (allPairs 3 8) = true ∧
    books (cD 9) 0 = [(0, 2, [], [])] ∧
    books (run (cD 9) (allPairs 3 8)) 0 = [(0, 2, [], []), (1, 1, [], [])] ∧
    books (run (cD 9) (allPairs 3 8)) 1 = [(0, 2, [], []), (1, 1, [], [])] ∧
    books (run (cD 9) (allPairs 3 8)) 2 = [(0, 2, [], []), (1, 1, [], [])] ∧
    (view (nodeOf (run (cD 9) (allPairs 3 8)) 0).db "t" "1").cl = 2 ∧
    (view (nodeOf (run (cD 9) (allPairs 3 8)) 2).db "t" "1").cl = 2 := by decide

/-- `held_inv_crash_partial` applied in the middle of the run, to the KILLED node 1 after step 6: the
change of the version it holds, `(0, 2)`, is merged or dominated -/
example : ∀ ch ∈ (cD 6).log.get 0 2, ch ∈ (cD 6).R 1 ∨ Dom (cD 6).log.all ch :=
  held_inv_crash_partial (cD_reach 6) (by decide) 1 (nodeOf (cD 6) 1) (nodes_getD _ 1 (by decide)) 0 2
    (by decide)

/-- `eventual_convergence_crash_partial` applied to that run -/
example : ∀ (i : Nat) (n : Node), (run (cD 9) (allPairs 3 8)).nodes[i]? = some n →
    view n.db = spec (cD 9).log.all :=
  (eventual_convergence_crash_partial (cD_reach 9) (by decide) (by decide) (by decide) (by decide)
    (allPairs 3 8) (losslessRun_of_check (by decide))
    (fun _ _ hi ha hne => ⟨_, allPairs_covers hi ha hne⟩)).2.2

/-- `eventual_convergence_alive_nodes_crash_partial` applied while node 1 is still killed (after
step 6, version `(0, 1)` complete but unapplied on it): the alive nodes 0 and 2 converge -/
example : ∀ (i : Nat) (n : Node), (run (cD 6) (allPairs 3 8)).nodes[i]? = some n → n.alive = true →
    view n.db = spec (cD 6).log.all :=
  fun i n hi hal => ((eventual_convergence_alive_nodes_crash_partial (cD_reach 6) (by decide) (by decide)
    (by decide) (allPairs 3 8) (losslessRun_of_check (by decide))
    (fun _ _ hi ha hne _ => ⟨_, allPairs_covers hi ha hne⟩)).2 i n hi hal).2

/-! #### why the crash-free invariant could not be reused: `rheld` fails

Node 0 writes version 1 = two inserts (`t/1`: `a@0`, `b@1`; `t/2`: `a@2`, `b@3`, so `last_seq = 3`)
and version 2 = an update of both columns of `t/2` (it dominates `a@2`, `b@3` of version 1).  Node 1
receives both whole: its live entries of version 1 are `a@0`, `b@1` and it serves version 1 with
`last_seq = 1`.  Node 2 receives the chunks `[0, 0]` and `[2, 2]` of version 1 from the origin and
asks node 1 for `[1, 1]` and `[3, 3]`; only the first answer (`last_seq = 1`) arrives: the sequence
rows are merged into ONE row `[0, 2]` carrying the chunk's `last_seq = 1`, while the in-memory partial
keeps `last_seq = 3` and stays incomplete.  Node 2 is killed and restarted: `from_conn` builds the
partial from the row — `[0, 2]`, `last_seq = 1`: complete — and applies it.  Node 2 is killed again,
receives the original chunk `[3, 3]` (not covered by the in-memory partial `[0, 2]`, so it is
buffered), and is restarted: the partial is rebuilt from the only row, `[3, 3]` with `last_seq = 3`,
and is incomplete. -/
def opsE : List Op := [
  .write 0 [.ins "t" "1" [("a", .int 1), ("b", .int 2)], .ins "t" "2" [("a", .int 3), ("b", .int 4)]],
  .write 0 [.upd "t" "2" [("a", .int 8), ("b", .int 9)]],
  .deliverOrigin 1 0 1 0 3, .deliverOrigin 1 0 2 0 1,
  .deliverOrigin 2 0 1 0 0, .deliverOrigin 2 0 1 2 2,
  .sync 2 1 [0],
  .kill 2, .restart 2,
  .kill 2, .deliverOrigin 2 0 1 3 3, .restart 2]

def cE : Cluster := run (Cluster.init 3) opsE

end ExCrash

set_option maxRecDepth 100000 in
set_option synthInstance.maxSize 4096 in
/-- **the clause `rheld` of the crash-free invariant (`LInv`: "everything merged belongs to a held
version") is FALSE in runs with crashes.**  The run `ExCrash.opsE` satisfies R1–R3 and R4' (every
sync step from a clean state), its log satisfies R2 and R5; at the end node 2 is ALIVE, has merged
the changes `seq 0, 1, 2` of `(0, 1)`, and does NOT hold `(0, 1)` (its partial, rebuilt from the row
of the chunk it received while killed, is `[3, 3]` of `0..=3`).  Not a protocol defect — every change
of `(0, 1)` is merged into node 2 or dominated (`merged_versions_complete_crash_partial`), and node 2
will ask for `0..=2` again — but it is why the invariant had to be rebuilt. -/
theorem linv_rheld_crash_counterexample :
    Crash.runOKC (Cluster.init 3) ExCrash.opsE ∧ LogOK ExCrash.cE.log ∧ NoTies ExCrash.cE.log.all ∧
    (Ex.nodeOf ExCrash.cE 2).alive = true ∧
    (Ex.nodeOf ExCrash.cE 2).book = [(0, { max := 1, needed := [], partials := [(1, ⟨[(3, 3)], 3⟩)] })] ∧
    (Ex.nodeOf ExCrash.cE 2).seqRows = [⟨0, 1, 3, 3, 3⟩] ∧
    (ExCrash.cE.R 2).map (fun c => (c.site, c.dbv, c.seq)) = [(0, 1, 0), (0, 1, 1), (0, 1, 2)] ∧
    ¬ Held (Ex.nodeOf ExCrash.cE 2) 0 1 ∧
    (∃ e ∈ ExCrash.cE.R 2, ¬ Held (Ex.nodeOf ExCrash.cE 2) e.site e.dbv) := by decide

set_option maxRecDepth 100000 in
set_option synthInstance.maxSize 4096 in
/-- **`eventual_convergence` is FALSE for a node that stays killed (`AllAlive` is necessary).**  Stop
the run `ExCrash.opsD` after step 6: node 1 is killed and version `(0, 1)` is complete but unapplied
on it.  Run one round of lossless sessions over all ordered pairs, each from a clean state.  Nodes 0
and 2 hold everything; node 1 still does not hold `(0, 1)` — a complete partial is not advertised as
a need, so nothing is requested and no session will ever move it — and shows no value for `a`, while
the specification (and nodes 0, 2) say `a = 1`.  Only `restart 1` applies it
(`restart_applies_pending_crash_partial`).  (What `kill` models — transactions still commit, the apply
loop is gone — is the window between the commit of the last chunk and the background apply; a real
crashed agent receives nothing, and then the node is simply not a client of any session.) -/
theorem eventual_convergence_needs_restart_counterexample :
    Crash.runOKC (Cluster.init 3) (ExCrash.opsD.take 6) ∧ LogOK (ExCrash.cD 6).log ∧
    NoTies (ExCrash.cD 6).log.all ∧ CompleteStrong (ExCrash.cD 6).log.all ∧
    ¬ Crash.AllAlive (ExCrash.cD 6) ∧ losslessCheck (ExCrash.cD 6) (allPairs 3 8) = true ∧
    Ex.books (run (ExCrash.cD 6) (allPairs 3 8)) 0 = [(0, 2, [], [])] ∧
    Ex.books (run (ExCrash.cD 6) (allPairs 3 8)) 2 = [(0, 2, [], [])] ∧
    Ex.books (run (ExCrash.cD 6) (allPairs 3 8)) 1 = [(0, 2, [], [1])] ∧
    ¬ Held (Ex.nodeOf (run (ExCrash.cD 6) (allPairs 3 8)) 1) 0 1 ∧
    answers (Ex.nodeOf (run (ExCrash.cD 6) (allPairs 3 8)) 1) (Ex.nodeOf (run (ExCrash.cD 6) (allPairs 3 8)) 0) = [] ∧
    (view (Ex.nodeOf (run (ExCrash.cD 6) (allPairs 3 8)) 1).db "t" "1").cell "a" = none ∧
    (view (Ex.nodeOf (run (ExCrash.cD 6) (allPairs 3 8)) 0).db "t" "1").cell "a" = some (.int 1, 1) ∧
    (spec (ExCrash.cD 6).log.all "t" "1").cell "a" = some (.int 1, 1) := by decide

set_option maxRecDepth 100000 in
set_option synthInstance.maxSize 4096 in
/-- **a restart can CHANGE the advertised sync state (C06's round-trip equality does not extend to
cluster runs with a relay that lost the tail of a version).**  Stop the run `ExCrash.opsE` after step 7
(the lossy session with the relay).  Node 2 is alive; in memory its partial of `(0, 1)` is `[0, 2]` of
`0..=3` (the `last_seq` of the first chunk, from the origin) — incomplete, `generate_sync` asks for
`[3, 3]` — but the durable sequence row is `[0, 2]` with `last_seq = 1` (the `last_seq` of the LAST
chunk, from the relay: `process_incomplete_version` writes the incoming chunk's `last_seq` into the
merged row, `insert_partial` keeps the old one).  Restarting node 2 at this point (no kill needed)
rebuilds the partial from the row: `[0, 2]` of `0..=1`, complete — it is applied, the version becomes
held and the partial need disappears.  Harmless for C01 (the changes beyond the relay's `last_seq` are
dominated, `held_inv_crash_partial`), but memory and disk disagree about `last_seq` until the restart;
C06's theorem excludes such inputs explicitly (`ItemWF`: "a relay that lost the tail … outside"). -/
theorem restart_sync_state_roundtrip_counterexample :
    Crash.runOKC (Cluster.init 3) (ExCrash.opsE.take 7) ∧
    (Ex.nodeOf (run (Cluster.init 3) (ExCrash.opsE.take 7)) 2).alive = true ∧
    (Ex.nodeOf (run (Cluster.init 3) (ExCrash.opsE.take 7)) 2).book =
      [(0, { max := 1, needed := [], partials := [(1, ⟨[(0, 2)], 3⟩)] })] ∧
    (Ex.nodeOf (run (Cluster.init 3) (ExCrash.opsE.take 7)) 2).seqRows = [⟨0, 1, 0, 2, 1⟩] ∧
    (Ex.nodeOf (run (Cluster.init 3) (ExCrash.opsE.take 7)) 2).syncState.partialNeed = [(0, [(1, [(3, 3)])])] ∧
    (Ex.nodeOf (run (Cluster.init 3) (ExCrash.opsE.take 7)) 2).restart.syncState.partialNeed = [] ∧
    (Ex.nodeOf (run (Cluster.init 3) (ExCrash.opsE.take 7)) 2).restart.syncState ≠
      (Ex.nodeOf (run (Cluster.init 3) (ExCrash.opsE.take 7)) 2).syncState ∧
    ¬ Held (Ex.nodeOf (run (Cluster.init 3) (ExCrash.opsE.take 7)) 2) 0 1 ∧
    Held (Ex.nodeOf (run (Cluster.init 3) (ExCrash.opsE.take 7)) 2).restart 0 1 := by decide

end Corro.ClusterSys
