/-
C16 — nodes of different clusters never exchange data.
Property theorems only; the model is `Corro/Model/ClusterGate.lean`, the table of decision sites
`Corro/Gen/ClusterSites.lean` is regenerated from /repo on every run (tools/extract_c16.py).

Quantifier of the property: every pair of cluster ids (equal, different, absent in the frame and
therefore 0), every message type of the broadcast and sync paths, every membership table mixing members
of several clusters.
-/
import Corro.Model.ClusterGate
import Corro.Gen.ClusterSites

namespace Corro.ClusterGate

/-- **C16 (absent id).**  A frame that ends before the `cluster_id` field is treated exactly like a frame
declaring cluster 0, on the broadcast path and on the sync path. -/
theorem missing_id_is_zero (mine : Nat) (permit : Bool) (requested : Nat) :
    decodeCluster none = 0 ∧
    acceptBroadcast mine none = acceptBroadcast mine (some 0) ∧
    serveSync mine none permit requested = serveSync mine (some 0) permit requested := by
  simp [decodeCluster, acceptBroadcast, serveSync]

/-- **C16 (broadcast).**  "A node never applies a change that was sent by a node declaring a different
cluster id … as a broadcast": for every pair (receiver id, declared id or absent) the payload goes on to
`tx_changes` iff the declared id (absent = 0) equals the receiver's. -/
theorem broadcast_accepted_iff_same_cluster (mine : Nat) (payloadCluster : Option Nat) :
    acceptBroadcast mine payloadCluster = true ↔ decodeCluster payloadCluster = mine := by
  unfold acceptBroadcast
  by_cases h : mine = decodeCluster payloadCluster
  · simp [h]
  · have h' : ¬ decodeCluster payloadCluster = mine := fun e => h e.symm
    simp [h, h']

/-- **C16 (sync server).**  "It refuses to serve sync sessions to such a node with an explicit rejection
instead of data": for different ids (absent = 0) everything the server writes is exactly one
`Rejection(DifferentCluster)` — no state, no clock, no changeset, whatever the permit situation and
whatever would have been requested.  For equal ids no `DifferentCluster` rejection is ever written and,
when a permit is free, the session proceeds with `State`, `Clock` and the requested changesets. -/
theorem sync_rejected_first (mine : Nat) (theirs : Option Nat) (permit : Bool) (requested : Nat) :
    (decodeCluster theirs ≠ mine →
        serveSync mine theirs permit requested = [Msg.rejection Rejection.differentCluster] ∧
        Msg.state ∉ serveSync mine theirs permit requested ∧
        changesetCount (serveSync mine theirs permit requested) = 0) ∧
    (decodeCluster theirs = mine →
        Msg.rejection Rejection.differentCluster ∉ serveSync mine theirs permit requested ∧
        firstIsRejection (serveSync mine theirs permit requested) ≠ some Rejection.differentCluster ∧
        (permit = true →
          serveSync mine theirs permit requested =
            Msg.state :: Msg.clock :: List.replicate requested Msg.changeset)) := by
  constructor
  · intro h
    have e : serveSync mine theirs permit requested = [Msg.rejection Rejection.differentCluster] := by
      simp [serveSync, h]
    rw [e]
    simp [changesetCount]
  · intro h
    cases permit with
    | false => simp [serveSync, h, firstIsRejection]
    | true =>
      have e : serveSync mine theirs true requested =
          Msg.state :: Msg.clock :: List.replicate requested Msg.changeset := by
        simp [serveSync, h]
      rw [e]
      refine ⟨?_, ?_, fun _ => rfl⟩
      · simp [List.mem_replicate]
      · simp [firstIsRejection]

/-- **C16 (sync client).**  "…or as an answer in a sync session": a client of one cluster that opens a
session to a server of another cluster gets no changeset at all; between equal ids (and with a free
permit) it gets what it asked for. -/
theorem sync_answer_only_same_cluster (client server : Nat) (permit : Bool) (requested : Nat) :
    (client ≠ server → clientSync client server permit requested = 0) ∧
    (client = server → permit = true → clientSync client server permit requested = requested) := by
  constructor
  · intro h
    simp [clientSync, serveSync, decodeCluster, h, firstIsRejection]
  · intro h hp
    subst h; subst hp
    simp [clientSync, serveSync, decodeCluster, firstIsRejection, changesetCount]

/-- **C16 (sync partners).**  "it only picks same-cluster members as sync partners", for EVERY membership
table (induction over the list): every candidate is a listed member of the node's cluster other than
the node itself, and the filter removes nothing else — every listed same-cluster member other than the
node itself is a candidate. -/
theorem candidates_same_cluster (self mine : Nat) (ms : List Member) :
    (∀ m ∈ syncCandidates self mine ms, m ∈ ms ∧ m.cluster = mine ∧ m.actor ≠ self) ∧
    (∀ m ∈ ms, m.cluster = mine → m.actor ≠ self → m ∈ syncCandidates self mine ms) := by
  induction ms with
  | nil => simp [syncCandidates]
  | cons a r ih =>
    obtain ⟨ih1, ih2⟩ := ih
    have step : syncCandidates self mine (a :: r) =
        if (a.actor != self && a.cluster == mine) = true then a :: syncCandidates self mine r
        else syncCandidates self mine r := by
      simp [syncCandidates, List.filter_cons]
    constructor
    · intro m hm
      rw [step] at hm
      split at hm
      · rename_i hc
        simp only [List.mem_cons] at hm
        cases hm with
        | inl h =>
          subst h
          simp at hc
          exact ⟨List.mem_cons_self, hc.2, hc.1⟩
        | inr h =>
          have := ih1 m h
          exact ⟨List.mem_cons_of_mem _ this.1, this.2⟩
      · have := ih1 m hm
        exact ⟨List.mem_cons_of_mem _ this.1, this.2⟩
    · intro m hm hc hs
      rw [step]
      simp only [List.mem_cons] at hm
      cases hm with
      | inl h =>
        subst h
        have : (m.actor != self && m.cluster == mine) = true := by simp [hc, hs]
        rw [if_pos this]
        exact List.mem_cons_self
      | inr h =>
        have := ih2 m h hc hs
        split
        · exact List.mem_cons_of_mem _ this
        · exact this

/-- **C16 (broadcast targets).**  "…and broadcast targets", for EVERY membership table: every address a
pending broadcast may go to belongs to a listed member of the node's cluster other than the node itself;
and the cluster filter removes nothing else — a same-cluster member other than the node itself stays
eligible unless one of the two non-cluster exclusions of the code applies (ring-0 member already served
by the local broadcast, or already sent to). -/
theorem targets_same_cluster (self mine : Nat) (isLocal : Bool) (ring0 sentTo : List Nat) (ms : List Member) :
    (∀ a ∈ broadcastTargets self mine isLocal ring0 sentTo ms,
        ∃ m ∈ ms, m.addr = a ∧ m.cluster = mine ∧ m.actor ≠ self) ∧
    (∀ m ∈ ms, m.cluster = mine → m.actor ≠ self →
        ¬ (isLocal = true ∧ m.addr ∈ ring0) → m.addr ∉ sentTo →
        m.addr ∈ broadcastTargets self mine isLocal ring0 sentTo ms) := by
  induction ms with
  | nil => simp [broadcastTargets]
  | cons x r ih =>
    obtain ⟨ih1, ih2⟩ := ih
    have step : broadcastTargets self mine isLocal ring0 sentTo (x :: r) =
        if (x.actor == self || x.cluster != mine || (isLocal && ring0.contains x.addr)
              || sentTo.contains x.addr) = true
        then broadcastTargets self mine isLocal ring0 sentTo r
        else x.addr :: broadcastTargets self mine isLocal ring0 sentTo r := by
      unfold broadcastTargets
      rw [List.filterMap_cons]
      split <;> rename_i h <;> split at h <;> simp_all
    constructor
    · intro a ha
      rw [step] at ha
      split at ha
      · obtain ⟨m, hm, h⟩ := ih1 a ha
        exact ⟨m, List.mem_cons_of_mem _ hm, h⟩
      · rename_i hc
        simp only [List.mem_cons] at ha
        cases ha with
        | inl h =>
          subst h
          simp at hc
          exact ⟨x, List.mem_cons_self, rfl, hc.1.1.2, hc.1.1.1⟩
        | inr h =>
          obtain ⟨m, hm, h'⟩ := ih1 a h
          exact ⟨m, List.mem_cons_of_mem _ hm, h'⟩
    · intro m hm hc hs hr hst
      rw [step]
      simp only [List.mem_cons] at hm
      cases hm with
      | inl h =>
        subst h
        have : ¬ (m.actor == self || m.cluster != mine || (isLocal && ring0.contains m.addr)
              || sentTo.contains m.addr) = true := by
          simp [hc, hs, hst]
          intro hl
          exact fun hin => hr ⟨hl, hin⟩
        rw [if_neg this]
        exact List.mem_cons_self
      | inr h =>
        have := ih2 m h hc hs hr hst
        split
        · exact this
        · exact List.mem_cons_of_mem _ this

/-- **C16 (ring-0 targets).**  The immediate targets of a local broadcast, for EVERY membership table:
exactly the addresses of the listed members that are in the node's cluster and in ring 0. -/
theorem ring0_targets_same_cluster (mine : Nat) (ms : List Member) (a : Nat) :
    a ∈ ring0Targets mine ms ↔ ∃ m ∈ ms, m.addr = a ∧ m.cluster = mine ∧ m.ring = some 0 := by
  induction ms with
  | nil => simp [ring0Targets]
  | cons x r ih =>
    have step : ring0Targets mine (x :: r) =
        if x.cluster = mine ∧ x.ring = some 0 then x.addr :: ring0Targets mine r
        else ring0Targets mine r := by
      unfold ring0Targets
      rw [List.filterMap_cons]
      cases hr : x.ring with
      | none => simp
      | some k =>
        by_cases h1 : x.cluster = mine <;> by_cases h2 : k = 0 <;> simp [h1, h2]
    rw [step]
    split
    · rename_i hc
      simp only [List.mem_cons, ih]
      constructor
      · rintro (h | ⟨m, hm, h⟩)
        · exact ⟨x, Or.inl rfl, h.symm, hc.1, hc.2⟩
        · exact ⟨m, Or.inr hm, h⟩
      · rintro ⟨m, hm | hm, h⟩
        · subst hm; exact Or.inl h.1.symm
        · exact Or.inr ⟨m, hm, h⟩
    · rename_i hc
      rw [ih]
      constructor
      · rintro ⟨m, hm, h⟩
        exact ⟨m, List.mem_cons_of_mem _ hm, h⟩
      · rintro ⟨m, hm, h⟩
        simp only [List.mem_cons] at hm
        cases hm with
        | inl e => subst e; exact absurd ⟨h.2.1, h.2.2⟩ hc
        | inr hm => exact ⟨m, hm, h⟩

/-- The decision sites the theorems above are about; each must be present in the regenerated table. -/
def requiredSites : List String := [
  "uni.drop_on_mismatch", "uni.captured_is_agent_id",
  "serve_sync.rejects_first", "bi.passes_payload_cluster",
  "handle_sync.candidates_same_cluster",
  "broadcast.targets_same_cluster", "broadcast.ring0_uses_agent_cluster", "members.ring0_same_cluster",
  "payload.uni_default_on_eof", "payload.bi_default_on_eof", "payload.default_cluster_is_zero",
  "sender.uni_declares_own_cluster", "client.declares_own_cluster", "client.rejection_aborts"]

/-- **C16 (every path is gated).**  In the CURRENT source every decision site carries its cluster-id
comparison with the expected polarity (table regenerated by tools/extract_c16.py on every run): the uni
handler drops on mismatch with the id it got from the agent, `serve_sync` rejects before anything else
with the id of the `BiPayload`, the sync-candidate and broadcast-target filters and `ring0` compare the
member's cluster with the agent's, both payloads default the field on EOF to `ClusterId(0)`, senders
declare their own id and the sync client aborts on a rejection. -/
theorem all_sites_guarded :
    requiredSites.all (fun n => (Corro.Gen.ClusterSites.sites.lookup n).map (·.1) == some true) = true ∧
    Corro.Gen.ClusterSites.sites.all (fun s => s.2.1) = true := by
  decide

/-- **C16 (every gate uses the node's CURRENT id).**  In the current source every site reads the node's own
cluster id with `agent.cluster_id()` at the use site (or binds it inside the loop / per call), so a run-time
`cluster set-id` reaches the broadcast loop (frame stamp, both `ring0` calls, the target filter), the
sync-partner choice of every sync round, `serve_sync` of every session and the `SyncStart` of every
client session.  The table's `fresh` flag is `false` for a local bound outside the task's loop (field
shorthand is resolved to its binding).

The only site that is allowed to be not fresh is `uni.drop_on_mismatch`: the uni handler compares with the
value `agent.cluster_id()` had when the connection was accepted (`uni.captured_is_agent_id`), so the
staleness window that remains in the code is exactly one accepted inbound connection — see
`observation_stale_connection_after_set_id`. -/
theorem all_sites_fresh :
    Corro.Gen.ClusterSites.sites.all (fun s => s.2.2 || s.1 == "uni.drop_on_mismatch") = true ∧
    requiredSites.all (fun n => n == "uni.drop_on_mismatch" ||
      (Corro.Gen.ClusterSites.sites.lookup n).map (·.2) == some true) = true := by
  decide

/-- **C16 (run-time change of the id).**  The gate's id is a state component that `set-id` replaces; every
decision of the node uses the current one.  After `setCluster new`, for EVERY membership table (which may
still hold members of the former cluster): every sync candidate, every ring-0 target and every broadcast
target is a listed member of cluster `new`; the frames the node writes declare `new`, so a receiver that is
still in the former cluster drops them; a sync server of the former cluster answers its `SyncStart` with the
rejection only; and connections the node accepts from now on filter with `new`. -/
theorem decisions_follow_current_id (n : Node) (new : Nat) (isLocal : Bool) (ring0 sentTo : List Nat)
    (ms : List Member) :
    (∀ m ∈ (n.setCluster new).candidates ms, m ∈ ms ∧ m.cluster = new ∧ m.actor ≠ n.self) ∧
    (∀ a ∈ (n.setCluster new).ring0 ms, ∃ m ∈ ms, m.addr = a ∧ m.cluster = new ∧ m.ring = some 0) ∧
    (∀ a ∈ (n.setCluster new).targets isLocal ring0 sentTo ms,
        ∃ m ∈ ms, m.addr = a ∧ m.cluster = new ∧ m.actor ≠ n.self) ∧
    (n.setCluster new).stamp = new ∧
    (∀ old, old ≠ new →
        acceptBroadcast old (some (n.setCluster new).stamp) = false ∧
        serveSync old (some (n.setCluster new).stamp) true 1 = [Msg.rejection Rejection.differentCluster]) ∧
    (∀ p, acceptOnConn (n.setCluster new).accept p = true ↔ decodeCluster p = new) := by
  refine ⟨?_, ?_, ?_, rfl, ?_, ?_⟩
  · exact (candidates_same_cluster n.self new ms).1
  · intro a ha
    exact (ring0_targets_same_cluster new ms a).mp ha
  · exact (targets_same_cluster n.self new isLocal ring0 sentTo ms).1
  · intro old h
    have h' : ¬ new = old := fun e => h e.symm
    constructor
    · simp [Node.setCluster, Node.stamp, acceptBroadcast, decodeCluster, h]
    · simp [Node.setCluster, Node.stamp, serveSync, decodeCluster, h']
  · intro p
    exact broadcast_accepted_iff_same_cluster new p

/-- **Observation, outside the property's quantifier** (pairs of ids / message types / membership
tables): the uni handler of an already accepted connection keeps the id it was spawned with (the one site
with `fresh = false` in the unchanged tree), so after a run-time `cluster set-id old → new` that connection
still lets payloads declaring `old` through and drops payloads declaring `new`, until the connection is
re-established.  Within that window the node — whose id is now `new` — applies a change declared for
`old`; the harness op `reconf` reproduces it on the real agent and records it as an observation. -/
theorem observation_stale_connection_after_set_id (old new : Nat) (h : old ≠ new) :
    acceptOnConn ⟨old⟩ (some old) = true ∧ acceptOnConn ⟨old⟩ (some new) = false := by
  simp [acceptOnConn, acceptBroadcast, decodeCluster, h]

/-! ### non-vacuity: mixed-cluster membership tables and id pairs -/

/-- members of clusters 0, 1 and 7, the node itself (actor 9, cluster 1) listed too -/
def exampleTable : List Member := [
  ⟨1, 101, 1, some 0⟩, ⟨2, 102, 0, some 0⟩, ⟨3, 103, 1, none⟩, ⟨4, 104, 7, some 2⟩,
  ⟨9, 109, 1, some 0⟩, ⟨5, 105, 1, some 3⟩, ⟨6, 106, 0, none⟩]

example : (syncCandidates 9 1 exampleTable).map (·.actor) = [1, 3, 5] := by decide
example : ring0Targets 1 exampleTable = [101, 109] := by decide
example : broadcastTargets 9 1 false [] [] exampleTable = [101, 103, 105] := by decide
example : broadcastTargets 9 1 true [101, 109] [] exampleTable = [103, 105] := by decide
example : broadcastTargets 9 1 false [] [103] exampleTable = [101, 105] := by decide
example : syncCandidates 9 2 exampleTable = [] := by decide
example : broadcastTargets 9 0 false [] [] exampleTable = [102, 106] := by decide
example : acceptBroadcast 0 none = true ∧ acceptBroadcast 3 none = false ∧
    acceptBroadcast 3 (some 3) = true ∧ acceptBroadcast 3 (some 259) = false := by decide
example : serveSync 1 (some 2) true 5 = [Msg.rejection Rejection.differentCluster] := by decide
example : serveSync 0 none true 2 = [Msg.state, Msg.clock, Msg.changeset, Msg.changeset] := by decide
example : serveSync 4 none true 2 = [Msg.rejection Rejection.differentCluster] := by decide
example : clientSync 1 2 true 5 = 0 ∧ clientSync 2 2 true 5 = 5 := by decide
-- a node of cluster 1 (actor 9) is moved to cluster 0 while its table still lists both clusters
example : ((Node.mk 9 1).setCluster 0).targets false [] [] exampleTable = [102, 106] := by decide
example : ((Node.mk 9 1).setCluster 0).ring0 exampleTable = [102] := by decide
example : (((Node.mk 9 1).setCluster 0).candidates exampleTable).map (·.actor) = [2, 6] := by decide
example : acceptBroadcast 1 (some ((Node.mk 9 1).setCluster 0).stamp) = false := by decide

end Corro.ClusterGate
