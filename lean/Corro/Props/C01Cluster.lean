/-
C01 — replicas converge under any delivery order, duplication, chunking and loss: the PROTOCOL-level
theorems, about the executable cluster model `Corro/Model/ClusterSys.lean` (a list of `Node`s of
`Corro/Model/Node.lean`, the global log `L` of acknowledged local transactions, and — ghost state — per
node the list `R i` of changes merged into its store so far).  Property theorems only; definitions and
lemmas are in `Corro/Lemmas/Cluster{Crdt,Log,Deliver,Inv,Serve,Step,Live,Conv}.lean`.

Steps of the model (`ClusterSys.step`): `write i stmts` (`Node.localWrite`; the produced change list
is appended to `L`), `deliverOrigin i site ver lo hi` (the chunk `[lo, hi]` of the ORIGINAL change list
of `(site, ver)` with the original `last_seq`; any range inside `0..=last_seq`, any order, any number of
times), `sync i j keep` (client `i` computes `computeAvailableNeeds (syncState i) (syncState j)`,
server `j` answers every need through `Node.serve`; the answers selected by `keep` — any sub-list, any
order, repeats allowed — reach `i`), `kill i`, `restart i`.  So everything a node ever receives is an
original chunk or something another node served from its own state.

RESTRICTIONS under which the theorems below are proved (all explicit in the statements; the full
statements they restrict are quoted in the comments, names carry `_partial`):

(R1 is lifted in `Props/C01ClusterBatch.lean` — arbitrary batches — and the first half of R4 in
`Props/C01ClusterCrash.lean` — any number of `kill` / `restart` steps; the two liftings are separate.)

R1. changesets reach `process_multiple_changes` ONE PER BATCH (`Node.deliver [it]`; the model's
    `step` is built that way);
R2. `LogOK c.log`: the log is what local transactions produce in a history WITHOUT RE-INSERTION of a
    deleted row: per site the versions are `1, 2, 3, …`; every change is attributed to its
    transaction, has causal length 1 or 2, a sentinel is `(-1, NULL, col_version = cl)`, a delete is
    a sentinel, a column change has `col_version ≥ 1`; change lists are strictly sorted by seq.
    (With re-insertions the store also shows zeroed leftovers and implicit sentinels, which are not
    literally changes of the log — not covered here.)
R3. `OpOK`: at every `write` step the local write path agrees with merging its own change list
    (`WriteAgrees`, decidable; the local write path of cr-sqlite is trusted, DESIGN §2);
R4. (`held_inv`, convergence) no `kill` / `restart` in the run (`ReachLive`; the node-level restart
    theorems are C06's), and the run passes only through states in which no node has a sequence row of
    a version without a buffered row of it (`Cluster.clean`).  R4's second half is NECESSARY:
    `held_inv_needs_clean_counterexample`.
R5. (convergence) `NoTies` (a decidable predicate on the log): no two distinct sentinel-only changes
    — deletes, inserts into a key-only table — of the same row with the same causal length (e.g. two
    sites deleting the same row concurrently), and no two changes of a cell and incarnation with
    equal keys `(col_version, value, site)`.  NECESSARY, and the divergence is real (confirmed on the
    real agents by the coordinator): `converged_at_quiescence_ties_counterexample`.
R6. (liveness) fairness is a HYPOTHESIS: the schedule contains, after the last write, a lossless
    session `i ← a` for every ordered pair of distinct nodes (`LosslessRun`, `hcov`).  That the real
    sync loop provides such sessions (peer choice, timeouts) is not shown.
-/
import Corro.Lemmas.ClusterConv
import Corro.Props.C01

namespace Corro.ClusterSys
open Corro.Crdt Corro.Node

/-! ### 1. nothing is invented -/

/-- **C01 ("a node never shows a value that no acknowledged transaction produced"), cluster level,
`store_from_log`.**  In EVERY reachable cluster state (any steps, including kill / restart; R1–R3)
every live entry of every node's `crsql_changes` — `(tbl, pk, cid, val, col_version, cl, site,
db_version, seq)`, sentinel entries included — is literally a change of some transaction of the
global log, and so is every buffered row.

Full statement (not proved): the same for histories with re-insertions, where a live entry may also
be a zeroed leftover (`col_version = 0`, value and attribution of a log change of that cell) or an
implicit sentinel (attributed to the column change that created the incarnation). -/
theorem store_from_log_partial {k : Nat} {c : Cluster} (h : Reach k c) (hL : LogOK c.log) (i : Nat)
    (n : Node) (hi : c.nodes[i]? = some n) :
    (∀ e ∈ n.db.changes, e ∈ c.log.all) ∧ (∀ e ∈ n.buf, e ∈ c.log.all) := by
  have hN := (reach_ninv h hL).node i n hi
  exact ⟨fun e he => hN.rsub e (hN.store.lit.mem he), hN.bufsub⟩

/-- the same, read on the stored rows: the causal length of every stored row is that of a log change
for the row, and every stored cell carries the value, column version and attribution of a log change
of that very cell and incarnation -/
theorem no_invented_values_cluster_partial {k : Nat} {c : Cluster} (h : Reach k c) (hL : LogOK c.log)
    (i : Nat) (n : Node) (hi : c.nodes[i]? = some n) :
    ∀ r ∈ n.db.rows,
      (∃ ch ∈ c.log.all, ch.tbl = r.tbl ∧ ch.pk = r.pk ∧ ch.cl = r.cl) ∧
      ∀ l ∈ r.cells, ∃ ch ∈ c.log.all, ch.tbl = r.tbl ∧ ch.pk = r.pk ∧ ch.cid = l.cid ∧
        ch.val = l.val ∧ ch.colv = l.clk.colv ∧ ch.cl = r.cl ∧ ch.site = l.clk.site ∧
        ch.dbv = l.clk.dbv ∧ ch.seq = l.clk.seq := by
  intro r hr
  have hN := (reach_ninv h hL).node i n hi
  constructor
  · obtain ⟨ch, hch, h1, h2⟩ := hN.store.inv.row_prov (findRow_of_mem hN.store.nodup hr)
    exact ⟨ch, hN.rsub ch hch, h1, h2⟩
  · intro l hl
    exact ⟨_, hN.rsub _ ((hN.store.lit r hr).cells l hl), rfl, rfl, rfl, rfl, rfl, rfl, rfl, rfl, rfl⟩

/-! ### 2. the received set -/

/-- **`received_set`.**  In every reachable cluster state the store of node `i` is a merge of
exactly the set `R i` of changes it has merged so far (`Inv`, the invariant of the CRDT half of
C01: everything `Props/C01.lean` proves about `mergeAll ∅ P` holds of `(node i).db` with `P = R i`),
and `R i` consists of changes of the log. -/
theorem received_set_partial {k : Nat} {c : Cluster} (h : Reach k c) (hL : LogOK c.log) (i : Nat)
    (n : Node) (hi : c.nodes[i]? = some n) :
    Inv n.db (c.R i) ∧ n.db.NoDup ∧ ∀ e ∈ c.R i, e ∈ c.log.all := by
  have hN := (reach_ninv h hL).node i n hi
  exact ⟨hN.store.inv, hN.store.nodup, hN.rsub⟩

/-- the ghost list is exact: one delivery merges `mergedBy n it`, in that order, and nothing else -/
theorem received_set_exact (n : Node) (it : Item) :
    (n.deliver [it]).db = mergeAll n.db (mergedBy n it) :=
  mergedBy_spec n it

/-! ### 3. `held_inv` -/

/-- **`held_inv` (the core).**  In every cluster state reachable under R1–R4: if node `i` books
`(a, v)` as held (`Held`: `v` within the head, not needed, no partial or a complete and applied one)
then every change `ch` of the transaction `L(a, v)` is in `R i` — merged into the node's store — or is
dominated in the log (`Dom`: some OTHER change of the log for the same row has a larger causal
length; or `ch` is a sentinel / delete and the other change carries the same causal length; or `ch`
is a column change and the other is a change of the same cell and incarnation whose key
`(col_version, value, site)` is not below `ch`'s).

Preserved by every step: original chunks in any chunking and order (a version is booked only when
its seq range is covered), relay answers (a relay serves exactly its live entries of `(a, v)`, and a
change of `L(a, v)` missing from them is dominated — `live_covers`), `Empty` answers, answers cut from
buffered rows, any loss / duplication / reordering inside a session (`keep`), later local writes
(domination is monotone in the log).

Full statement (not proved): without R2 (re-insertions), without R4's first half (kill / restart
between the steps), and for batches of several changesets. -/
theorem held_inv_partial {k : Nat} {c : Cluster} (h : ReachLive k c) (hL : LogOK c.log) (i : Nat)
    (n : Node) (hi : c.nodes[i]? = some n) (a v : Nat) (hh : Held n a v) :
    ∀ ch ∈ c.log.get a v, ch ∈ c.R i ∨ Dom c.log.all ch :=
  ((reachLive_inv h hL).node i n hi).2.held a v hh

/-- **the relay lemma** behind it: what a node that holds `(a, v)` serves for it — its live entries
attributed to `(a, v)` — contains every change of `L(a, v)` that is not dominated -/
theorem relay_serves_nondominated_partial {k : Nat} {c : Cluster} (h : ReachLive k c) (hL : LogOK c.log)
    (j : Nat) (n : Node) (hj : c.nodes[j]? = some n) (a v : Nat) (hh : Held n a v) :
    ∀ ch ∈ c.log.get a v, ch ∈ n.live a v ∨ Dom c.log.all ch := by
  have := (reachLive_inv h hL).node j n hj
  exact fun ch hch => live_covers this.1 this.2 hL hh hch

/-- everything a server sends in a session from a clean state satisfies `ChunkOK`: it carries
changes of its version only, every non-dominated change of its seq range, every change beyond its
`last_seq` is dominated, and an `Empty` covers only versions all of whose changes are dominated -/
theorem served_chunks_ok_partial {k : Nat} {c : Cluster} (h : ReachLive k c) (hL : LogOK c.log)
    (hcl : c.clean = true) (j : Nat) (nj : Node) (hj : c.nodes[j]? = some nj) (ni : Node) :
    ∀ it ∈ answers ni nj, ChunkOK c.log it := by
  have := (reachLive_inv h hL).node j nj hj
  exact fun it hit => chunkOK_answers this.1 this.2 hL (clean_node hcl hj) hit

/-! ### 4. convergence at quiescence -/

/-- every node holds every transaction of the log -/
def AllHeld (c : Cluster) : Prop :=
  ∀ (i : Nat) (n : Node), c.nodes[i]? = some n → ∀ e ∈ c.log, Held n e.1.1 e.1.2

/-- **`converged_at_quiescence`.**  In a cluster state reachable under R1–R4 in which every node
holds every transaction of the log, every node shows the view (rows, causal lengths, values, column
versions — `Lemmas/CrdtSpec.lean`) that is the specification of the set of ALL changes of the log —
"equal to the merge of all transactions ever acknowledged by any node" — provided the log has no
ties (R5) and is incarnation-complete (`CompleteStrong`, the hypothesis of the CRDT half of C01; true
of real histories because an INSERT writes every non-key column, `localTx_insert_emits_all_columns`;
kept as an explicit hypothesis here). -/
theorem converged_at_quiescence_partial {k : Nat} {c : Cluster} (h : ReachLive k c) (hL : LogOK c.log)
    (hnt : NoTies c.log.all) (hcs : CompleteStrong c.log.all) (hq : AllHeld c) (i : Nat) (n : Node)
    (hi : c.nodes[i]? = some n) : view n.db = spec c.log.all := by
  obtain ⟨hN, hI⟩ := (reachLive_inv h hL).node i n hi
  have hheld : ∀ ch ∈ c.log.all, ch ∈ c.R i ∨ Dom c.log.all ch := by
    intro ch hch
    obtain ⟨e, he, h1, h2⟩ := hL.entry_of_mem_all hch
    have hh := hq i n hi e he
    rw [h1, h2] at hh
    exact hI.held ch.site ch.dbv hh ch (hL.get_of_mem_all hch)
  obtain ⟨hs, hc⟩ := spec_of_held hN.rsub (fun ch hch => hL.chgOK hch) hheld hnt hcs
  rw [hN.store.inv.view_eq hc, hs]

/-- **all replicas agree** -/
theorem replicas_agree_at_quiescence_partial {k : Nat} {c : Cluster} (h : ReachLive k c)
    (hL : LogOK c.log) (hnt : NoTies c.log.all) (hcs : CompleteStrong c.log.all) (hq : AllHeld c)
    (i j : Nat) (ni nj : Node) (hi : c.nodes[i]? = some ni) (hj : c.nodes[j]? = some nj) :
    view ni.db = view nj.db := by
  rw [converged_at_quiescence_partial h hL hnt hcs hq i ni hi,
    converged_at_quiescence_partial h hL hnt hcs hq j nj hj]

/-- quiescence as the sync states show it: for every actor the head is the log's, nothing is needed,
nothing is partial (a partial that is complete and applied stays in memory until the next restart;
`generate_sync` does not list it) -/
def Quiescent (c : Cluster) : Prop :=
  ∀ (i : Nat) (n : Node), c.nodes[i]? = some n → ∀ a, (n.booked a).max = c.log.head a ∧
    (n.booked a).needed = [] ∧
    ∀ vp ∈ (n.booked a).partials, vp.2.complete = true ∧ ¬ HasRows n a vp.1

theorem allHeld_of_quiescent {c : Cluster} (hL : LogOK c.log) (hq : Quiescent c) : AllHeld c := by
  intro i n hi e he
  obtain ⟨h1, h2, h3⟩ := hq i n hi e.1.1
  have hv := hL.ver_le e he
  refine ⟨(containsVersion_iff _ _).mpr ⟨?_, by omega⟩, ?_⟩
  · rw [h2]; rintro ⟨p, hp, _⟩; cases hp
  · intro p hp
    exact h3 (e.1.2, p) (alook_some_mem hp)

/-- `converged_at_quiescence`, with quiescence read off the bookkeeping ("all heads equal the log's,
no needs, no partials") -/
theorem converged_when_quiescent_partial {k : Nat} {c : Cluster} (h : ReachLive k c) (hL : LogOK c.log)
    (hnt : NoTies c.log.all) (hcs : CompleteStrong c.log.all) (hq : Quiescent c) (i : Nat) (n : Node)
    (hi : c.nodes[i]? = some n) : view n.db = spec c.log.all :=
  converged_at_quiescence_partial h hL hnt hcs (allHeld_of_quiescent hL hq) i n hi

/-! ### 5. liveness under a fairness hypothesis -/

/-- **`sync_round_progress`.**  From a clean state of a cluster reachable under R1–R4, one LOSSLESS
session of client `i` with server `j` (every answer delivered: `pick (answers ni nj) keep = answers
ni nj`) leaves `i` holding every version of every actor other than `i` itself that `j` holds, and
everything `i` held before: `held i ⊇ held j` (a node always holds its own versions, `OwnInv`).
Uses the request computation (C04: the version / the missing seq ranges ARE requested), the server
(C05: a holder answers with one complete changeset, one changeset per requested range, or `Empty`)
and the delivery lemmas (a complete changeset or an `Empty` settles a version; a partial grows by
every delivered range and is applied when covered). -/
theorem sync_round_progress_partial {k : Nat} {c : Cluster} (h : ReachLive k c) (hL : LogOK c.log)
    (hcl : c.clean = true) {i j : Nat} (hij : i ≠ j) {ni nj : Node} (hi : c.nodes[i]? = some ni)
    (hj : c.nodes[j]? = some nj) {keep : List Nat} (hkeep : pick (answers ni nj) keep = answers ni nj) :
    ∃ ni', (step c (.sync i j keep)).nodes[i]? = some ni' ∧
      (∀ a v, a ≠ i → 1 ≤ v → Held nj a v → Held ni' a v) ∧ (∀ a v, Held ni a v → Held ni' a v) :=
  sync_step_progress h hL hcl hij hi hj hkeep

/-- **every node always holds its own versions** (so a session with the origin of a version always
delivers it) -/
theorem origin_holds_own_partial {k : Nat} {c : Cluster} (h : ReachLive k c) (hL : LogOK c.log) (i : Nat)
    (n : Node) (hi : c.nodes[i]? = some n) (v : Nat) (h1 : 1 ≤ v) (h2 : v ≤ c.log.head i) : Held n i v :=
  (reachLive_own h hL).own i n hi v h1 h2

/-- **`eventual_convergence`.**  Let `c` be reachable under R1–R4 with a well-formed log without
ties that is incarnation-complete.  Writes stop; the cluster runs ANY schedule `ops` of lossless sync
sessions, each from a clean state (`LosslessRun`), that contains for every ordered pair of distinct
nodes `(i, a)` at least one session `i ← a` (`hcov` — ONE round of all ordered pairs, in any order,
interleaved with any other lossless sessions, is enough, because every node holds its own versions).
Then the log is unchanged, every node holds every version of it, and every node shows the
specification of all acknowledged changes: all replicas agree.

The existence of such a schedule is the fairness ASSUMPTION of C01's liveness; it is a hypothesis
here and not shown of the real scheduler. -/
theorem eventual_convergence_partial {k : Nat} {c : Cluster} (h : ReachLive k c) (hL : LogOK c.log)
    (hnt : NoTies c.log.all) (hcs : CompleteStrong c.log.all) (ops : List Op) (hrun : LosslessRun c ops)
    (hcov : ∀ i a, i < k → a < k → i ≠ a → ∃ keep, Op.sync i a keep ∈ ops) :
    (run c ops).log = c.log ∧ AllHeld (run c ops) ∧
    ∀ (i : Nat) (n : Node), (run c ops).nodes[i]? = some n → view n.db = spec c.log.all := by
  have hown := reachLive_own h hL
  obtain ⟨hr', hlog, hall⟩ := allHeld_after_schedule h hL ops hrun (by
    intro i a hi ha
    by_cases hia : i = a
    · subst hia
      exact Or.inl (fun n hn v h1 h2 => hown.own i n hn v h1 h2)
    · exact Or.inr ⟨hia, hcov i a hi ha hia⟩)
  have hL' : LogOK (run c ops).log := by rw [hlog]; exact hL
  have hown' := reachLive_own hr' hL'
  have hheld : AllHeld (run c ops) := by
    intro i n hi e he
    have hlt : i < k := by
      have := (List.getElem?_eq_some_iff.mp hi).1
      rw [hown'.len] at this; exact this
    have hv := hL'.ver_le e he
    exact hall i e.1.1 hlt (hown'.sites e he) n hi e.1.2 hv.1 hv.2
  refine ⟨hlog, hheld, ?_⟩
  intro i n hi
  have := converged_at_quiescence_partial hr' hL' (by rw [hlog]; exact hnt) (by rw [hlog]; exact hcs)
    hheld i n hi
  rw [hlog] at this
  exact this

/-! ### concrete runs (non-vacuity) and the two counterexamples

Field order of `Chg`: `tbl pk cid val colv cl site dbv seq`. -/

namespace Ex

def nodeOf (c : Cluster) (i : Nat) : Node := (c.nodes[i]?).getD (Node.fresh i)

/-- what a node's bookkeeping shows: per actor `(head, needed, versions held only partially)` -/
def books (c : Cluster) (i : Nat) : List (Nat × Nat × RSet × List Nat) :=
  (nodeOf c i).book.map (fun e => (e.1, e.2.max, e.2.needed,
    (e.2.partials.filter (fun vp => !vp.2.complete ||
      (nodeOf c i).seqRows.any (fun r => r.site = e.1 ∧ r.ver = vp.1))).map (·.1)))

/-- Three nodes.  Node 0 inserts row `t/1` (two changes, seqs 0..1) and then updates column `b`;
node 1 receives the insert in two chunks, in the wrong order, one of them twice, and the update
whole; node 2 learns everything from node 1 (a relay that has lost the tail `b@1` of version 1 to
version 2: it serves version 1 with `last_seq = 0`), with one answer lost in the first session;
node 1 deletes the row; everybody syncs with everybody. -/
def opsA : List Op := [
  .write 0 [.ins "t" "1" [("a", .int 1), ("b", .int 2)]],
  .write 0 [.upd "t" "1" [("b", .int 9)]],
  .deliverOrigin 1 0 1 1 1, .deliverOrigin 1 0 1 1 1, .deliverOrigin 1 0 1 0 0,
  .deliverOrigin 1 0 2 0 0,
  .sync 2 1 [1], .sync 2 1 [0, 1, 2],
  .write 1 [.del "t" "1"],
  .sync 0 1 [0, 1], .sync 2 0 [0, 1, 2], .sync 2 1 [0, 1]]

def cA : Cluster := run (Cluster.init 3) opsA

set_option maxRecDepth 100000 in
set_option synthInstance.maxSize 4096 in
/-- the run satisfies R3 and R4 at every step, its log satisfies R2 and R5 and is
incarnation-complete, and the final state is quiescent: all hypotheses of
`converged_when_quiescent_partial` hold … -/
example : runOK (Cluster.init 3) opsA ∧ LogOK cA.log ∧ NoTies cA.log.all ∧ CompleteStrong cA.log.all ∧
    books cA 0 = [(0, 2, [], []), (1, 1, [], [])] ∧ books cA 1 = [(0, 2, [], []), (1, 1, [], [])] ∧
    books cA 2 = [(0, 2, [], []), (1, 1, [], [])] := by decide

theorem cA_reach : ReachLive 3 cA := reachLive_run ReachLive.init opsA (by decide)

set_option maxRecDepth 100000 in
set_option synthInstance.maxSize 4096 in
/-- … and indeed the row is deleted (`cl = 2`) on all three nodes -/
example : (view (nodeOf cA 0).db "t" "1").cl = 2 ∧ (view (nodeOf cA 1).db "t" "1").cl = 2 ∧
    (view (nodeOf cA 2).db "t" "1").cl = 2 ∧ (spec cA.log.all "t" "1").cl = 2 := by decide

set_option maxRecDepth 100000 in
set_option synthInstance.maxSize 4096 in
/-- the relay in the middle of that run: node 1 serves version 1 of actor 0 as the single live
change `a@0` with `last_seq = 0` (the original had `last_seq = 1`), and version 2 whole -/
example : answers (nodeOf (run (Cluster.init 3) (opsA.take 6)) 2) (nodeOf (run (Cluster.init 3) (opsA.take 6)) 1) =
    [Item.full 0 2 0 0 0 [⟨"t", "1", "b", .int 9, 2, 1, 0, 2, 0⟩],
     Item.full 0 1 0 0 0 [⟨"t", "1", "a", .int 1, 1, 1, 0, 1, 0⟩]] := by decide

/-- `NoTies` is a decidable predicate on the log: it holds of the log of `opsA` (one delete), … -/
example : NoTies cA.log.all := by decide

/-- … and fails as soon as two sites delete the same row concurrently -/
example : ¬ NoTies [⟨"t", "1", "-1", .null, 2, 2, 1, 1, 0⟩, ⟨"t", "1", "-1", .null, 2, 2, 2, 1, 0⟩] := by
  decide

/-- liveness, concretely: stop `opsA` after the chunks and the first, lossy session (node 1 holds
versions 1 and 2 of actor 0; node 2 has only been given version 1), let node 1
delete the row, then run ONE round of lossless sessions over all ordered pairs … -/
def opsA' : List Op := opsA.take 7 ++ [.write 1 [.del "t" "1"]]

def cA' : Cluster := run (Cluster.init 3) opsA'

theorem cA'_reach : ReachLive 3 cA' := reachLive_run ReachLive.init opsA' (by decide)

set_option maxRecDepth 100000 in
set_option synthInstance.maxSize 4096 in
/-- … the hypotheses of `eventual_convergence_partial` hold (6 sessions, each lossless from a clean
state), before the round node 2 lacks versions, afterwards every node holds everything and shows the
row deleted -/
example : LogOK cA'.log ∧ NoTies cA'.log.all ∧ CompleteStrong cA'.log.all ∧
    losslessCheck cA' (allPairs 3 8) = true ∧
    books cA' 2 = [(0, 1, [], [])] ∧
    books (run cA' (allPairs 3 8)) 0 = [(0, 2, [], []), (1, 1, [], [])] ∧
    books (run cA' (allPairs 3 8)) 1 = [(0, 2, [], []), (1, 1, [], [])] ∧
    books (run cA' (allPairs 3 8)) 2 = [(0, 2, [], []), (1, 1, [], [])] ∧
    (view (nodeOf (run cA' (allPairs 3 8)) 0).db "t" "1").cl = 2 ∧
    (view (nodeOf (run cA' (allPairs 3 8)) 2).db "t" "1").cl = 2 := by decide

/-- the theorem applied to that run -/
example : ∀ (i : Nat) (n : Node), (run cA' (allPairs 3 8)).nodes[i]? = some n →
    view n.db = spec cA'.log.all :=
  (eventual_convergence_partial cA'_reach (by decide) (by decide) (by decide) (allPairs 3 8)
    (losslessRun_of_check (by decide))
    (fun _ _ hi ha hne => ⟨_, allPairs_covers hi ha hne⟩)).2.2

/-! #### counterexample 1: concurrent deletes (ties) -/

/-- Node 0 inserts row `t/1`; nodes 1 and 2 receive it and both delete it (two deletes of causal
length 2: a tie).  Each of them receives the other's delete and ignores it (same causal length), so
node 1's store attributes the tombstone to `(1,1)` and serves `(2,1)` as `Empty`, and vice versa.
Node 0 asks node 2 for everything and the answer for `(2,1)` is lost; it asks node 1 and gets
`Empty` for `(2,1)`. -/
def opsB : List Op := [
  .write 0 [.ins "t" "1" [("a", .int 1)]],
  .deliverOrigin 1 0 1 0 1, .deliverOrigin 2 0 1 0 1,
  .write 1 [.del "t" "1"], .write 2 [.del "t" "1"],
  .deliverOrigin 2 1 1 0 0, .deliverOrigin 1 2 1 0 0,
  .sync 0 2 [0], .sync 0 1 [0]]

def cB : Cluster := run (Cluster.init 3) opsB

end Ex

set_option maxRecDepth 100000 in
set_option synthInstance.maxSize 4096 in
/-- **`converged_at_quiescence` is FALSE without `NoTies` (R5).**  The run `Ex.opsB` satisfies
R1–R4, its log is well formed and incarnation-complete, the final state is quiescent (every node
holds every version: equal heads, no needs, no partials — no further sync session will move
anything), and yet node 0 shows row `t/1` alive (`cl = 1`, `a = 1`) while nodes 1 and 2 show it
deleted (`cl = 2`).  Two sites deleted the same row concurrently; each relay holds both deletes but
serves only the one its tombstone is attributed to, and answers `Empty` for the other. -/
theorem converged_at_quiescence_ties_counterexample :
    runOK (Cluster.init 3) Ex.opsB ∧ LogOK Ex.cB.log ∧ CompleteStrong Ex.cB.log.all ∧
    ¬ NoTies Ex.cB.log.all ∧
    Ex.books Ex.cB 0 = [(0, 1, [], []), (1, 1, [], []), (2, 1, [], [])] ∧
    Ex.books Ex.cB 1 = [(0, 1, [], []), (1, 1, [], []), (2, 1, [], [])] ∧
    Ex.books Ex.cB 2 = [(0, 1, [], []), (1, 1, [], []), (2, 1, [], [])] ∧
    answers (Ex.nodeOf Ex.cB 0) (Ex.nodeOf Ex.cB 1) = [] ∧ answers (Ex.nodeOf Ex.cB 0) (Ex.nodeOf Ex.cB 2) = [] ∧
    (view (Ex.nodeOf Ex.cB 0).db "t" "1").cl = 1 ∧
    (view (Ex.nodeOf Ex.cB 0).db "t" "1").cell "a" = some (.int 1, 1) ∧
    (view (Ex.nodeOf Ex.cB 1).db "t" "1").cl = 2 ∧ (view (Ex.nodeOf Ex.cB 2).db "t" "1").cl = 2 ∧
    (spec Ex.cB.log.all "t" "1").cl = 2 := by decide

namespace Ex

/-! #### counterexample 2: a sequence row without buffered rows -/

/-- Node 0 inserts row `t/1` (version 1) and then, in ONE transaction, updates column `a` twice
(version 2: the first update is overwritten inside the transaction, so the change list is the single
change `a@1` with `last_seq = 1` — seq 0 is a gap).  Node 1 receives version 1 and the chunk `[0, 0]`
of version 2, which carries no change: it now holds version 2 partially, with a sequence row and no
buffered row.  Node 2 receives version 1 and asks node 1 for version 2: the answer is `Empty`. -/
def opsC : List Op := [
  .write 0 [.ins "t" "1" [("a", .int 1)]],
  .write 0 [.upd "t" "1" [("a", .int 5)], .upd "t" "1" [("a", .int 6)]],
  .deliverOrigin 1 0 1 0 1, .deliverOrigin 2 0 1 0 1,
  .deliverOrigin 1 0 2 0 0,
  .sync 2 1 [0],
  .deliverOrigin 1 0 2 1 1]

def cC : Cluster := run (Cluster.init 3) opsC

end Ex

set_option maxRecDepth 100000 in
set_option synthInstance.maxSize 4096 in
/-- **`held_inv` is FALSE without the `clean` half of R4.**  In the run `Ex.opsC` every step is a
no-crash step satisfying R3, the log satisfies R2 and R5; after the fifth step node 1 has a sequence
row of version `(0,2)` without a buffered row (`clean = false`), and in the session that follows it
declares `(0,2)` `Empty`.  At the end node 2 holds `(0,2)`, has merged nothing of it, and its only
change `a = 6` is not dominated: node 2 shows `a = 1` for ever (equal heads, no needs, no partials),
nodes 0 and 1 show `a = 6`.

Reachability in the real system (coordinator's note): an origin's broadcast chunks always carry at
least one change (`ChunkedChanges` only cuts after pushing a change) and a relay's answer to a
`Full` need is one complete chunk, so a real node can receive a change-less INCOMPLETE chunk only as
the answer to a `Partial` need, i.e. when it already holds the version partially with a buffered
row; the model's `deliverOrigin` allows any range, which is what this run uses.  The `clean`
hypothesis (R4) excludes exactly the states in which the wrong `Empty` can be produced. -/
theorem held_inv_needs_clean_counterexample :
    runOKAny (Cluster.init 3) Ex.opsC ∧ LogOK Ex.cC.log ∧ NoTies Ex.cC.log.all ∧
    (run (Cluster.init 3) (Ex.opsC.take 5)).clean = false ∧
    answers (Ex.nodeOf (run (Cluster.init 3) (Ex.opsC.take 5)) 2)
      (Ex.nodeOf (run (Cluster.init 3) (Ex.opsC.take 5)) 1) = [Item.empty 0 2 2] ∧
    Held (Ex.nodeOf Ex.cC 2) 0 2 ∧
    (∃ ch ∈ Ex.cC.log.get 0 2, ch ∉ Ex.cC.R 2 ∧ ¬ Dom Ex.cC.log.all ch) ∧
    Ex.books Ex.cC 0 = [(0, 2, [], [])] ∧ Ex.books Ex.cC 2 = [(0, 2, [], [])] ∧
    (view (Ex.nodeOf Ex.cC 2).db "t" "1").cell "a" = some (.int 1, 1) ∧
    (view (Ex.nodeOf Ex.cC 0).db "t" "1").cell "a" = some (.int 6, 3) ∧
    (view (Ex.nodeOf Ex.cC 1).db "t" "1").cell "a" = some (.int 6, 3) := by decide

end Corro.ClusterSys
