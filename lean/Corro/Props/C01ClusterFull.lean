/-
C01 — replicas converge under any delivery order, duplication, chunking and loss — the PROTOCOL-level
theorems of `Props/C01Cluster.lean` with BOTH liftings AT ONCE: arbitrary BATCHES (restriction R1 of
that file, lifted alone in `Props/C01ClusterBatch.lean`) AND any number of `kill` / `restart` steps
(first half of R4, lifted alone in `Props/C01ClusterCrash.lean`).  Property theorems only;
definitions and lemmas are in `Corro/Lemmas/ClusterFull{GI,Tx,Deliver,Step,Live,Effect,Session,Conv,
Subsume,Reins}.lean`.

THE RUNS (`Full.ReachF k c`): ANY sequence of steps of the batched cluster model `ClusterSys.stepB`
(`Model/ClusterSysBatch.lean`) from `k` fresh nodes —

* `write i stmts` (a local transaction; `OpOK`, R3);
* `deliverOrigins i chunks` — node `i` receives in ONE `process_multiple_changes` call any list of
  original chunks `(site, ver, lo, hi)` of several transactions of several actors;
* `syncB i j batches` — a sync session: the answers of server `j` are computed once, the client runs
  one `process_multiple_changes` per batch, each batch any list of answers (any sub-list, any order,
  repeats) and of original chunks arriving by broadcast at the same time; the SERVER is clean (R4':
  no sequence row of a version without a buffered row of it; necessary,
  `held_inv_needs_clean_counterexample`);
* `kill i`, `restart i` (the ghost list is extended by `restartMerged`, as in `ClusterSys.step`)

— in any order, any number of times.  Every crash-free run of the batched model is such a run
(`full_runs_subsume_batch_runs`), and every run of the one-changeset-per-batch model with crashes is,
node for node, such a run (`full_runs_subsume_crash_runs`).

WHAT A BATCH DOES ON A KILLED NODE (`Node.deliver`): the transactions commit as always (complete
changesets and `Empty`s are applied inside them, chunks are buffered, the bookkeeping is updated, the
clear jobs run), but the applies the batch schedules do NOT run.  A version whose last missing chunk
arrives in the batch is COMPLETE BUT UNAPPLIED: not `Held`, nothing of it merged; the restart re-applies
it.  The invariant that makes this work merges the generalised invariant of the batch proof (pending
clear jobs / applies inside a batch, virtual bookkeeping) with the crash-tolerant one (third state of
a partial "complete, rows present" on a dead node; `rgot` instead of `rheld`; `dbv_le`):
`Full.GI` in `Lemmas/ClusterFullGI.lean`.  NO state was found in which it fails: the combination
exposes no new defect (in particular "a batch on a killed node followed by restart" is covered:
`ExFull.opsG`).

REMAINING RESTRICTIONS (all explicit in the statements; R1 and the first half of R4 are gone):
R2 `LogOK c.log` (no re-insertion of a deleted row) — now PROVED NECESSARY for `held_inv`:
   `held_inv_needs_no_reinsertion_counterexample` (the known finding "relayed-sentinel-shares-seq");
R3 `OpOK` at write steps; R4' the server of a sync step is clean; R5 `NoTies` (convergence);
R6 (liveness) fairness is a HYPOTHESIS: after the last write and the last crash / restart, a schedule
   of sessions, each from a clean state and LOSSLESS (`LosslessB`: the client's batches contain answers
   of the server only — no broadcast chunk, necessary: `empty_after_chunk_dropped_counterexample` — and
   every answer is in at least one batch; any split into batches), containing a session `i ← a` for
   every ALIVE node `i` and every other node `a`.  Convergence is claimed for the nodes alive then
   (for all nodes if all have been restarted; necessary:
   `eventual_convergence_needs_restart_counterexample`).
-/
import Corro.Lemmas.ClusterFullConv
import Corro.Lemmas.ClusterFullSubsume
import Corro.Lemmas.ClusterFullReins
import Corro.Props.C01ClusterBatch
import Corro.Props.C01ClusterCrash

namespace Corro.ClusterSys
open Corro.Crdt Corro.Node Corro.ClusterSys.Full

/-! ### 0. the class of runs; one batch, node level -/

/-- every run of the batched model without crashes through clean states (`ReachLiveB`, the runs of
`C01ClusterBatch.lean`) is a run in the sense of this file -/
theorem full_runs_subsume_batch_runs {k : Nat} {c : Cluster} (h : ReachLiveB k c) : ReachF k c :=
  reachF_of_reachLiveB h

/-- every run with crashes of the ONE-CHANGESET-PER-BATCH model (`Crash.ReachC`, the runs of
`C01ClusterCrash.lean`) is, node for node, a run in the sense of this file: a delivery of one changeset
is the batch `[it]`, a session delivering the answers `keep` one at a time is the session with the
batches `[[ans k₁], [ans k₂], …]` (`Full.liftOp`).  The two runs have the same nodes and the same log;
their ghost lists are different bookkeepings of the same merges and are not compared. -/
theorem full_runs_subsume_crash_runs {k : Nat} {c : Cluster} (h : Crash.ReachC k c) :
    ∃ c', ReachF k c' ∧ c'.nodes = c.nodes ∧ c'.log = c.log :=
  reachF_of_reachC h

/-- **one batch preserves the full node invariant on ANY node, dead or alive.**  Let `n` satisfy the
crash-tolerant node invariant `Crash.FullK L n R` (store = merge of the ghost list `R` ⊆ log;
bookkeeping sound; a partial is complete-and-applied, or incomplete and backed by its sequence rows,
or — only if `n` is dead — complete with its rows still there; `held_inv`; everything merged belongs
to a fully merged version; db-version rows ≤ heads).  Let `batch` be ANY list of changesets each
satisfying `ChunkOK L`.  Then `n.deliver batch` satisfies the invariant with the ghost list extended by
`mergedByBatch n batch` — on a dead node that is what the transactions merged and NOT the buffered rows
of the versions the batch completed (their applies do not run); those versions are not `Held`. -/
theorem batch_preserves_inv_full {L : Log} {n : Node} {R : List Chg} (h : Crash.FullK L n R) (hL : LogOK L)
    (batch : List Item) (hck : ∀ it ∈ batch, ChunkOK L it) :
    Crash.FullK L (n.deliver batch) (mergedByBatch n batch ++ R) ∧ (n.deliver batch).alive = n.alive :=
  ⟨⟨ninv_deliverB h.1 hL (fun it hit => chunkOK_changes hL (hck it hit)), kinv_deliverB h.1 h.2 hL hck⟩,
    deliverB_alive h.1 h.2 hL hck⟩

/-! ### 1. nothing is invented -/

/-- **`store_from_log`, batches and crashes (R2, R3).**  In EVERY state reachable by any steps of the
batched model, kill / restart included, every live entry of every node's `crsql_changes` is literally
a change of some transaction of the global log, and so is every buffered row.

Full statement (not proved, and FALSE as stated — `held_inv_needs_no_reinsertion_counterexample` shows
a ghost list / store entry that is no change of the log): the same for histories with re-insertions. -/
theorem store_from_log_full_partial {k : Nat} {c : Cluster} (h : ReachF k c) (hL : LogOK c.log) (i : Nat)
    (n : Node) (hi : c.nodes[i]? = some n) :
    (∀ e ∈ n.db.changes, e ∈ c.log.all) ∧ (∀ e ∈ n.buf, e ∈ c.log.all) :=
  store_from_log_batch_partial h.reachB hL i n hi

/-- the same, read on the stored rows: the causal length of every stored row is that of a log change
for the row, and every stored cell carries the value, column version and attribution of a log change
of that very cell and incarnation -/
theorem no_invented_values_full_partial {k : Nat} {c : Cluster} (h : ReachF k c) (hL : LogOK c.log)
    (i : Nat) (n : Node) (hi : c.nodes[i]? = some n) :
    ∀ r ∈ n.db.rows,
      (∃ ch ∈ c.log.all, ch.tbl = r.tbl ∧ ch.pk = r.pk ∧ ch.cl = r.cl) ∧
      ∀ l ∈ r.cells, ∃ ch ∈ c.log.all, ch.tbl = r.tbl ∧ ch.pk = r.pk ∧ ch.cid = l.cid ∧
        ch.val = l.val ∧ ch.colv = l.clk.colv ∧ ch.cl = r.cl ∧ ch.site = l.clk.site ∧
        ch.dbv = l.clk.dbv ∧ ch.seq = l.clk.seq :=
  no_invented_values_batch_partial h.reachB hL i n hi

/-! ### 2. the received set -/

/-- **`received_set`, batches and crashes.**  In every reachable state the store of node `i` is a
merge of exactly the set `R i` of changes it has merged so far — inside transactions, by the applies
after a batch, by the re-scheduled applies of a restart — and `R i` consists of changes of the log. -/
theorem received_set_full_partial {k : Nat} {c : Cluster} (h : ReachF k c) (hL : LogOK c.log) (i : Nat)
    (n : Node) (hi : c.nodes[i]? = some n) :
    Inv n.db (c.R i) ∧ n.db.NoDup ∧ ∀ e ∈ c.R i, e ∈ c.log.all :=
  received_set_batch_partial h.reachB hL i n hi

/-! ### 3. `held_inv` -/

/-- **`held_inv`, ALL reachable runs of the batched model with crashes (R2, R3, R4').**  In EVERY
cluster state reachable by any steps — batches of original chunks, sessions processed in batches,
`kill` and `restart`, any order, any number of times, the server of every sync step clean — and for
EVERY node `i`, dead or alive: if node `i` books `(a, v)` as held (`Held`: within the head, not
needed, no partial or a complete AND APPLIED one) then every change `ch` of the transaction `L(a, v)`
is in `R i` — merged into the node's store — or is dominated in the log (`Dom`).

Preserved, beyond what the two separate liftings show, by: a batch of several changesets of several
actors delivered to a KILLED node (complete changesets and `Empty`s settle versions inside the
transactions; chunks — several of one version, in any order — are buffered; a version the batch
completes stays complete-but-unapplied = not held; the clear jobs run); a batch delivered to a node
that already has complete-but-unapplied versions; a restart after such batches (every version whose
rows cover `0..=last_seq` is applied from the buffered rows; every change of it is buffered or
dominated); batches after the restart.

Full statement (not proved, and FALSE: `held_inv_needs_no_reinsertion_counterexample`): without R2. -/
theorem held_inv_full_partial {k : Nat} {c : Cluster} (h : ReachF k c) (hL : LogOK c.log) (i : Nat)
    (n : Node) (hi : c.nodes[i]? = some n) (a v : Nat) (hh : Held n a v) :
    ∀ ch ∈ c.log.get a v, ch ∈ c.R i ∨ Dom c.log.all ch :=
  ((reachF_inv h hL).node i n hi).2.held a v hh

/-- **the states of a partial, all reachable runs.**  In every reachable state every partial of every
node is (A) complete and applied (sequence rows gone — the version is held), or (B) incomplete with
sequence rows that contain every received seq, or (C) complete with its sequence rows still there —
and (C) occurs ONLY ON A KILLED NODE: on an alive node every apply scheduled by a batch has run when
the batch is over. -/
theorem partial_states_full_partial {k : Nat} {c : Cluster} (h : ReachF k c) (hL : LogOK c.log) (i : Nat)
    (n : Node) (hi : c.nodes[i]? = some n) (a v : Nat) (p : Partial) (hp : (n.booked a).partial? v = some p) :
    (p.complete = true ∧ ¬ HasRows n a v) ∨
    (p.complete = false ∧ HasRows n a v ∧ ∀ x, RSet.Mem p.seqs x → SeqMem n.seqRows a v x) ∨
    (n.alive = false ∧ p.complete = true ∧ HasRows n a v) :=
  ((reachF_inv h hL).node i n hi).2.part_state a v p hp

/-- **what `restart` does to a node of a reachable state**: the restarted node is alive and NOTHING
is pending on it — every version whose partial is complete has been applied, in particular every
version that a batch completed while the node was killed -/
theorem restart_applies_pending_full_partial {k : Nat} {c : Cluster} (h : ReachF k c) (hL : LogOK c.log)
    (i : Nat) (n : Node) (hi : c.nodes[i]? = some n) :
    (stepB c (.restart i)).nodes[i]? = some n.restart ∧ (n.restart).alive = true ∧
    ∀ a v p, ((n.restart).booked a).partial? v = some p → p.complete = true → ¬ HasRows n.restart a v := by
  have hn := (reachF_inv h hL).node i n hi
  obtain ⟨h1, h2, _⟩ := Crash.cinv_restart hn.2 hL
  refine ⟨?_, h2, h1.noPending⟩
  rw [stepB_restart, step_restart]
  simp only [hi]
  exact setNode_nodes_self hi _

/-- **everything merged belongs to a fully merged version**: in every reachable state, if node `i`
has merged a change `e`, then EVERY change of the transaction `e` belongs to is merged into node `i`
or dominated in the log — whether or not the node still books the version as held -/
theorem merged_versions_complete_full_partial {k : Nat} {c : Cluster} (h : ReachF k c) (hL : LogOK c.log)
    (i : Nat) (n : Node) (hi : c.nodes[i]? = some n) (e : Chg) (he : e ∈ c.R i) :
    ∀ ch ∈ c.log.get e.site e.dbv, ch ∈ c.R i ∨ Dom c.log.all ch :=
  ((reachF_inv h hL).node i n hi).2.rgot e he

/-- **the relay lemma, all reachable runs**: what a node — dead or alive — that holds `(a, v)` serves
for it, its live entries attributed to `(a, v)`, contains every change of `L(a, v)` that is not
dominated -/
theorem relay_serves_nondominated_full_partial {k : Nat} {c : Cluster} (h : ReachF k c) (hL : LogOK c.log)
    (j : Nat) (n : Node) (hj : c.nodes[j]? = some n) (a v : Nat) (hh : Held n a v) :
    ∀ ch ∈ c.log.get a v, ch ∈ n.live a v ∨ Dom c.log.all ch := by
  have := (reachF_inv h hL).node j n hj
  exact fun ch hch => Crash.live_covers this.1 this.2 hL hh hch

/-- everything a clean server — dead or alive, possibly with versions a batch completed while it was
killed, which it serves from its buffered rows — sends in a session satisfies `ChunkOK` -/
theorem served_chunks_ok_full_partial {k : Nat} {c : Cluster} (h : ReachF k c) (hL : LogOK c.log)
    (j : Nat) (nj : Node) (hj : c.nodes[j]? = some nj) (hcl : nodeClean nj = true) (ni : Node) :
    ∀ it ∈ answers ni nj, ChunkOK c.log it := by
  have := (reachF_inv h hL).node j nj hj
  exact fun it hit => Crash.chunkOK_answers this.1 this.2 hL hcl hit

/-! ### 4. convergence at quiescence -/

/-- **`converged_at_quiescence`, one node, all reachable runs (R2, R3, R4', R5).**  In a cluster state
reachable by any steps of the batched model — kills and restarts included — a node, dead or alive,
that holds every transaction of the log shows the view that is the specification of the set of ALL
changes of the log, provided the log has no ties and is incarnation-complete. -/
theorem converged_node_full_partial {k : Nat} {c : Cluster} (h : ReachF k c) (hL : LogOK c.log)
    (hnt : NoTies c.log.all) (hcs : CompleteStrong c.log.all) (i : Nat) (n : Node)
    (hi : c.nodes[i]? = some n) (hq : ∀ e ∈ c.log, Held n e.1.1 e.1.2) : view n.db = spec c.log.all := by
  obtain ⟨hN, hI⟩ := (reachF_inv h hL).node i n hi
  have hheld : ∀ ch ∈ c.log.all, ch ∈ c.R i ∨ Dom c.log.all ch := by
    intro ch hch
    obtain ⟨e, he, h1, h2⟩ := hL.entry_of_mem_all hch
    have hh := hq e he
    rw [h1, h2] at hh
    exact hI.held ch.site ch.dbv hh ch (hL.get_of_mem_all hch)
  obtain ⟨hs, hc⟩ := spec_of_held hN.rsub (fun ch hch => hL.chgOK hch) hheld hnt hcs
  rw [hN.store.inv.view_eq hc, hs]

/-- **`converged_at_quiescence`, all reachable runs.**  In a reachable state in which every node holds
every transaction of the log (`AllHeld`), every node, dead or alive, shows the specification of the
set of ALL changes of the log -/
theorem converged_at_quiescence_full_partial {k : Nat} {c : Cluster} (h : ReachF k c) (hL : LogOK c.log)
    (hnt : NoTies c.log.all) (hcs : CompleteStrong c.log.all) (hq : AllHeld c) (i : Nat) (n : Node)
    (hi : c.nodes[i]? = some n) : view n.db = spec c.log.all :=
  converged_node_full_partial h hL hnt hcs i n hi (hq i n hi)

/-- **all replicas agree** -/
theorem replicas_agree_at_quiescence_full_partial {k : Nat} {c : Cluster} (h : ReachF k c)
    (hL : LogOK c.log) (hnt : NoTies c.log.all) (hcs : CompleteStrong c.log.all) (hq : AllHeld c)
    (i j : Nat) (ni nj : Node) (hi : c.nodes[i]? = some ni) (hj : c.nodes[j]? = some nj) :
    view ni.db = view nj.db := by
  rw [converged_at_quiescence_full_partial h hL hnt hcs hq i ni hi,
    converged_at_quiescence_full_partial h hL hnt hcs hq j nj hj]

/-- `converged_at_quiescence`, with quiescence read off the bookkeeping ("all heads equal the log's,
no needs, no partial that is incomplete or has sequence rows") -/
theorem converged_when_quiescent_full_partial {k : Nat} {c : Cluster} (h : ReachF k c) (hL : LogOK c.log)
    (hnt : NoTies c.log.all) (hcs : CompleteStrong c.log.all) (hq : Quiescent c) (i : Nat) (n : Node)
    (hi : c.nodes[i]? = some n) : view n.db = spec c.log.all :=
  converged_at_quiescence_full_partial h hL hnt hcs (allHeld_of_quiescent hL hq) i n hi

/-! ### 5. liveness under a fairness hypothesis -/

/-- **`sync_round_progress`, batches and crashes.**  In a cluster reachable by any steps (kills and
restarts included), one LOSSLESS session (`LosslessB`: the client's batches contain answers of the
server only, every answer in at least one batch — ANY split of the session into batches, any order,
repeats) of an ALIVE client `i` (not killed since its last restart) with ANY clean server `j` — dead
or alive — leaves `i` alive and holding every version of every actor other than `i` itself that `j`
holds, and everything `i` held before.  (For a killed client the statement is false: its partials are
never applied.  For batches that also contain broadcast chunks it is false:
`empty_after_chunk_dropped_counterexample`.) -/
theorem sync_round_progress_full_partial {k : Nat} {c : Cluster} (h : ReachF k c) (hL : LogOK c.log)
    {i j : Nat} (hij : i ≠ j) {ni nj : Node} (hi : c.nodes[i]? = some ni)
    (hj : c.nodes[j]? = some nj) (hcl : nodeClean nj = true) (hal : ni.alive = true)
    {batches : List (List Pick)} (hless : LosslessB (answers ni nj) batches) :
    ∃ ni', (stepB c (.syncB i j batches)).nodes[i]? = some ni' ∧ ni'.alive = true ∧
      (∀ a v, a ≠ i → 1 ≤ v → Held nj a v → Held ni' a v) ∧ (∀ a v, Held ni a v → Held ni' a v) :=
  sync_step_progressF h hL hij hi hj hcl hal hless

/-- **every node always holds its own versions — dead or alive, across kills, restarts and batches**:
no batch ever disturbs a version booked without a partial (no chunk of it is ever buffered), local
writes keep the own db-version row at the own head, which is where `from_conn` takes the head from -/
theorem origin_holds_own_full_partial {k : Nat} {c : Cluster} (h : ReachF k c) (hL : LogOK c.log) (i : Nat)
    (n : Node) (hi : c.nodes[i]? = some n) (v : Nat) (h1 : 1 ≤ v) (h2 : v ≤ c.log.head i) : Held n i v :=
  ((reachF_own h hL).own i n hi v h1 h2).held

/-- **`eventual_convergence` for the alive nodes, batches and crashes.**  Let `c` be reachable by ANY
steps of the batched model — writes, batches of chunks, lossy sessions in batches, any number of kills
and restarts, in any order (R2, R3, R4') — with a well-formed log without ties that is
incarnation-complete.  Writes and crashes stop; the cluster runs ANY schedule `ops` of lossless sync
sessions, each from a clean state and each processed by its client in any split into batches
(`LosslessRunB`), that contains for every ALIVE node `i` and every other node `a` — dead or alive — at
least one session `i ← a`.  Then the log is unchanged and every node that is alive holds every version
of it and shows the specification of all acknowledged changes.  Killed nodes take part as servers
(and as clients, without any claim): they do not block the others. -/
theorem eventual_convergence_alive_nodes_full_partial {k : Nat} {c : Cluster} (h : ReachF k c)
    (hL : LogOK c.log) (hnt : NoTies c.log.all) (hcs : CompleteStrong c.log.all) (ops : List OpB)
    (hrun : LosslessRunB c ops)
    (hcov : ∀ i a, i < k → a < k → i ≠ a → Crash.AliveAt c i → ∃ batches, OpB.syncB i a batches ∈ ops) :
    (runB c ops).log = c.log ∧
    ∀ (i : Nat) (n : Node), (runB c ops).nodes[i]? = some n → n.alive = true →
      (∀ e ∈ c.log, Held n e.1.1 e.1.2) ∧ view n.db = spec c.log.all := by
  have hown := reachF_own h hL
  obtain ⟨hr', hlog, halive, hall⟩ := holds_after_scheduleF h hL ops hrun (by
    intro i a hi ha hal
    by_cases hia : i = a
    · subst hia
      exact Or.inl (fun n hn v h1 h2 => (hown.own i n hn v h1 h2).held)
    · exact Or.inr ⟨hia, hcov i a hi ha hia hal⟩)
  have hL' : LogOK (runB c ops).log := by rw [hlog]; exact hL
  have hown' := reachF_own hr' hL'
  refine ⟨hlog, ?_⟩
  intro i n hi hal
  have hlt : i < k := by
    have := (List.getElem?_eq_some_iff.mp hi).1
    rw [hown'.len] at this; exact this
  have hAt : Crash.AliveAt c i := (halive i).mp (fun m hm => by rw [hi] at hm; cases hm; exact hal)
  have hheld : ∀ e ∈ c.log, Held n e.1.1 e.1.2 := by
    intro e he
    have he' : e ∈ (runB c ops).log := by rw [hlog]; exact he
    have hv := hL'.ver_le e he'
    exact hall i e.1.1 hlt (hown'.sites e he') hAt n hi e.1.2 hv.1 hv.2
  refine ⟨hheld, ?_⟩
  have := converged_node_full_partial hr' hL' (by rw [hlog]; exact hnt) (by rw [hlog]; exact hcs) i n hi
    (by rw [hlog]; exact hheld)
  rw [hlog] at this
  exact this

/-- **`eventual_convergence`, batches and crashes.**  As above, with every node alive in `c`
(`AllAlive`: every killed node has been restarted; necessary,
`eventual_convergence_needs_restart_counterexample`) and a session `i ← a` for every ordered pair of
distinct nodes: then the log is unchanged, every node holds every version of it, and every node shows
the specification of all acknowledged changes — all replicas agree.

The existence of such a schedule is the fairness ASSUMPTION (R6); it is a hypothesis here. -/
theorem eventual_convergence_full_partial {k : Nat} {c : Cluster} (h : ReachF k c) (hL : LogOK c.log)
    (hnt : NoTies c.log.all) (hcs : CompleteStrong c.log.all) (hal : Crash.AllAlive c) (ops : List OpB)
    (hrun : LosslessRunB c ops)
    (hcov : ∀ i a, i < k → a < k → i ≠ a → ∃ batches, OpB.syncB i a batches ∈ ops) :
    (runB c ops).log = c.log ∧ AllHeld (runB c ops) ∧
    ∀ (i : Nat) (n : Node), (runB c ops).nodes[i]? = some n → view n.db = spec c.log.all := by
  obtain ⟨hlog, hall⟩ := eventual_convergence_alive_nodes_full_partial h hL hnt hcs ops hrun
    (fun i a hi ha hne _ => hcov i a hi ha hne)
  obtain ⟨_, _, halive, _⟩ := holds_after_scheduleF h hL ops hrun (by
    intro i a hi ha _
    by_cases hia : i = a
    · subst hia
      exact Or.inl (fun n hn v h1 h2 => ((reachF_own h hL).own i n hn v h1 h2).held)
    · exact Or.inr ⟨hia, hcov i a hi ha hia⟩)
  have hal' : ∀ (i : Nat) (n : Node), (runB c ops).nodes[i]? = some n → n.alive = true :=
    fun i n hi => (halive i).mpr (fun m hm => hal i m hm) n hi
  refine ⟨hlog, ?_, fun i n hi => (hall i n hi (hal' i n hi)).2⟩
  intro i n hi e he
  rw [hlog] at he
  exact (hall i n hi (hal' i n hi)).1 e he

/-! ### concrete runs (non-vacuity)

Field order of `Chg`: `tbl pk cid val colv cl site dbv seq`. -/

namespace ExFull
open Ex

/-- Three nodes.  Node 0 inserts row `t/1` (version (0,1): `a@0`, `b@1`) and updates `b` (version
(0,2)); node 2 inserts row `t/2` (version (2,1): `a@0`, `b@1`).  Node 1 is KILLED and then receives,
in ONE `process_multiple_changes` call, a MULTI-ACTOR batch: the chunk `[1,1]` of (0,1), the whole of
(2,1), the whole of (0,2), the chunk `[0,0]` of (0,1).  (2,1) and (0,2) are applied inside their
transactions; (0,1) is completed by the batch, its apply is scheduled — and does not run.  Node 2
syncs with the killed node 1 in one batch (node 1 serves (0,1) from its buffered rows).  Node 1
RESTARTS (re-applies (0,1)) and deletes row `t/2`. -/
def opsG : List OpB := [
  .write 0 [.ins "t" "1" [("a", .int 1), ("b", .int 2)]],
  .write 0 [.upd "t" "1" [("b", .int 9)]],
  .write 2 [.ins "t" "2" [("a", .int 5), ("b", .int 6)]],
  .kill 1,
  .deliverOrigins 1 [(0, 1, 1, 1), (2, 1, 0, 1), (0, 2, 0, 0), (0, 1, 0, 0)],
  .syncB 2 1 [[.ans 0, .ans 1, .ans 2, .ans 3]],
  .restart 1,
  .write 1 [.del "t" "2"]]

def cG (m : Nat) : Cluster := runB (Cluster.init 3) (opsG.take m)

theorem cG_reach (m : Nat) (hm : m ≤ 8 := by decide) : ReachF 3 (cG m) := by
  have : ∀ m, m ≤ 8 → runOKF (Cluster.init 3) (opsG.take m) := by decide
  exact reachF_run ReachF.init _ (this m hm)

set_option maxRecDepth 100000 in
set_option synthInstance.maxSize 4096 in
/-- after step 5 (the multi-actor batch on the killed node): node 1 is dead; the batch merged the two
complete changesets — (0,2), then (2,1), in actor order — and NOTHING of (0,1); the partial of (0,1) is
complete with the merged sequence row `[0, 1]` still there and both rows buffered, so (0,1) is NOT held
while (0,2) and (2,1) are; the killed node serves (0,1) from its buffered rows as ONE changeset
`0..=1` -/
example : (nodeOf (cG 5) 1).alive = false ∧
    (nodeOf (cG 5) 1).book = [(0, { max := 2, needed := [], partials := [(1, ⟨[(0, 1)], 1⟩)] }),
      (2, { max := 1, needed := [], partials := [] })] ∧
    (nodeOf (cG 5) 1).seqRows = [⟨0, 1, 0, 1, 1⟩] ∧
    (nodeOf (cG 5) 1).buf.map (fun c => (c.site, c.dbv, c.seq)) = [(0, 1, 1), (0, 1, 0)] ∧
    ¬ Held (nodeOf (cG 5) 1) 0 1 ∧ Held (nodeOf (cG 5) 1) 0 2 ∧ Held (nodeOf (cG 5) 1) 2 1 ∧
    ((cG 5).R 1).map (fun c => (c.site, c.dbv, c.seq)) = [(0, 2, 0), (2, 1, 0), (2, 1, 1)] ∧
    (answers (nodeOf (cG 5) 2) (nodeOf (cG 5) 1)).map (fun it => (it.site, it.versions, it.seqs)) =
      [(0, (2, 2), some (0, 0)), (0, (1, 1), some (0, 1))] := by decide

set_option maxRecDepth 100000 in
set_option synthInstance.maxSize 4096 in
/-- the restart (step 7) merges exactly the two buffered changes of (0,1), after which node 1 is
alive, holds (0,1), and has no sequence rows and no buffered rows -/
example : (restartMerged (nodeOf (cG 6) 1)).map (fun c => (c.site, c.dbv, c.seq)) = [(0, 1, 0), (0, 1, 1)] ∧
    (nodeOf (cG 7) 1).alive = true ∧ Held (nodeOf (cG 7) 1) 0 1 ∧ (nodeOf (cG 7) 1).seqRows = [] ∧
    (nodeOf (cG 7) 1).buf = [] ∧
    ((cG 7).R 1).map (fun c => (c.site, c.dbv, c.seq)) =
      [(0, 1, 0), (0, 1, 1), (0, 2, 0), (2, 1, 0), (2, 1, 1)] := by decide

/-- `held_inv_full_partial` applied to the KILLED node 1 right after the batch (step 5): the change of
(0,2), which it holds, is merged or dominated -/
example : ∀ ch ∈ (cG 5).log.get 0 2, ch ∈ (cG 5).R 1 ∨ Dom (cG 5).log.all ch :=
  held_inv_full_partial (cG_reach 5) (by decide) 1 (nodeOf (cG 5) 1) (Crash.nodes_getD _ 1 (by decide)) 0 2
    (by decide)

/-- `partial_states_full_partial` applied there: the partial of (0,1) is in state (C) -/
example : (nodeOf (cG 5) 1).alive = false ∧ (⟨[(0, 1)], 1⟩ : Partial).complete = true ∧
    HasRows (nodeOf (cG 5) 1) 0 1 := by decide

set_option maxRecDepth 100000 in
set_option synthInstance.maxSize 4096 in
/-- the hypotheses of `eventual_convergence_full_partial` hold of the state after the whole run and
ONE round of lossless sessions over all ordered pairs, every client processing the answers of its
session in two batches; afterwards the state is quiescent and row `t/2` is deleted (`cl = 2`)
everywhere -/
example : LogOK (cG 8).log ∧ NoTies (cG 8).log.all ∧ CompleteStrong (cG 8).log.all ∧ Crash.AllAlive (cG 8) ∧
    losslessCheckB (cG 8) (allPairsB 3 8) = true ∧
    books (cG 8) 0 = [(0, 2, [], [])] ∧
    books (runB (cG 8) (allPairsB 3 8)) 0 = [(0, 2, [], []), (1, 1, [], []), (2, 1, [], [])] ∧
    books (runB (cG 8) (allPairsB 3 8)) 1 = [(0, 2, [], []), (1, 1, [], []), (2, 1, [], [])] ∧
    books (runB (cG 8) (allPairsB 3 8)) 2 = [(0, 2, [], []), (1, 1, [], []), (2, 1, [], [])] ∧
    (view (nodeOf (runB (cG 8) (allPairsB 3 8)) 0).db "t" "2").cl = 2 ∧
    (view (nodeOf (runB (cG 8) (allPairsB 3 8)) 2).db "t" "2").cl = 2 := by decide

/-- `eventual_convergence_full_partial` applied to that run -/
example : ∀ (i : Nat) (n : Node), (runB (cG 8) (allPairsB 3 8)).nodes[i]? = some n →
    view n.db = spec (cG 8).log.all :=
  (eventual_convergence_full_partial (cG_reach 8) (by decide) (by decide) (by decide) (by decide)
    (allPairsB 3 8) (losslessRunB_of_check (by decide))
    (fun _ _ hi ha hne => ⟨_, allPairsB_covers hi ha hne⟩)).2.2

/-- `eventual_convergence_alive_nodes_full_partial` applied while node 1 is still killed, right after
the batch (step 5; (0,1) complete but unapplied on it): the alive nodes 0 and 2 converge -/
example : ∀ (i : Nat) (n : Node), (runB (cG 5) (allPairsB 3 8)).nodes[i]? = some n → n.alive = true →
    view n.db = spec (cG 5).log.all :=
  fun i n hi hal => ((eventual_convergence_alive_nodes_full_partial (cG_reach 5) (by decide) (by decide)
    (by decide) (allPairsB 3 8) (losslessRunB_of_check (by decide))
    (fun _ _ hi ha hne _ => ⟨_, allPairsB_covers hi ha hne⟩)).2 i n hi hal).2

end ExFull

/-! ### R2 is NECESSARY for `held_inv` -/

/-- what "the log violates ONLY the clause `cl ≤ 2` of `LogOK`" means: `LogOK` is `LogOKre` — the
same definition with `ChgOK` replaced by `ChgOKre`, which omits `cl ≤ 2` — plus `cl ≤ 2` for every
change -/
theorem logOK_is_logOKre_and_cl_le_two (L : Log) : LogOK L ↔ LogOKre L ∧ ∀ c ∈ L.all, c.cl ≤ 2 :=
  logOK_iff L

set_option maxRecDepth 100000 in
set_option synthInstance.maxSize 4096 in
/-- **`held_inv` (and `store_from_log`, and convergence) is FALSE without R2 — no re-insertion of a
deleted row.**  The run `ExR.opsR` (five nodes; the history of the known finding
"relayed-sentinel-shares-seq", `corpus/C01/relayed_sentinel_shares_seq.ops`, step by step in
`Lemmas/ClusterFullReins.lean`) is a run of the ONE-CHANGESET-PER-BATCH model without crashes through
clean states, every write satisfying R3 (`runOK`: it is a `ReachLive` run; the divergence needs no
batches and no crashes).  Its log violates ONLY the clause `cl ≤ 2` of `LogOK` (`LogOKre` holds: two
sites re-insert row `t/i1` after node 0 deleted it, causal length 3).

In the state after step 12 node 4 holds (0,3) partially (`[0,0]` of `0..=2`) and node 3, whose sentinel
of the row is an IMPLICIT one attributed to `(0, 3, seq 1)` — no change of the log — answers the need
`1..=2` with THREE rows of two seqs: the sentinel @1, `a = 'y'` @1, `b = 5` @2.  Buffering keeps the
first row per `(site, db_version, seq)`.  At the end node 4 books (0,3) as `Held`, its ghost list
contains the implicit sentinel (not a change of the log: `store_from_log` fails) and NOT the change
`a = 'y'` of `L(0,3)`, which is not dominated: `held_inv` fails.  Nodes 0 and 4 both hold EVERY version
of the log, and node 4 shows `a = NULL` for row `t/i1` where node 0 — and the specification — show
`a = 'y'`: no further session moves anything (the heads are equal, nothing is needed, nothing is
partial).  (The log also has a tie — the two re-insert sentinels — but `held_inv` does not assume
`NoTies`.) -/
theorem held_inv_needs_no_reinsertion_counterexample :
    runOK (Cluster.init 5) ExR.opsR ∧ LogOKre ExR.cR.log ∧ ¬ LogOK ExR.cR.log ∧
    (answers (Ex.nodeOf ExR.cR12 4) (Ex.nodeOf ExR.cR12 3)).map
        (fun it => (it.site, it.versions, it.seqs, (itemChanges it).map (fun c => (c.cid, c.seq)))) =
      [(0, (1, 1), none, []), (0, (3, 3), some (1, 2), [("-1", 1), ("a", 1), ("b", 2)]), (2, (1, 1), none, [])] ∧
    Held (Ex.nodeOf ExR.cR 4) 0 3 ∧
    (∃ ch ∈ ExR.cR.log.get 0 3, ch.cid = "a" ∧ ch.val = .text [121] ∧ ch ∉ ExR.cR.R 4 ∧
      ¬ Dom ExR.cR.log.all ch) ∧
    (∃ e ∈ ExR.cR.R 4, e ∉ ExR.cR.log.all) ∧
    (∀ e ∈ ExR.cR.log, Held (Ex.nodeOf ExR.cR 4) e.1.1 e.1.2) ∧
    (∀ e ∈ ExR.cR.log, Held (Ex.nodeOf ExR.cR 0) e.1.1 e.1.2) ∧
    Ex.books ExR.cR 0 = [(0, 3, [], []), (2, 1, [], [])] ∧ Ex.books ExR.cR 4 = [(0, 3, [], []), (2, 1, [], [])] ∧
    (view (Ex.nodeOf ExR.cR 4).db "t" "i1").cl = 3 ∧ (view (Ex.nodeOf ExR.cR 4).db "t" "i1").cell "a" = none ∧
    (view (Ex.nodeOf ExR.cR 4).db "t" "i1").cell "b" = some (.int 5, 1) ∧
    (view (Ex.nodeOf ExR.cR 0).db "t" "i1").cell "a" = some (.text [121], 1) ∧
    (spec ExR.cR.log.all "t" "i1").cell "a" = some (.text [121], 1) := by decide

end Corro.ClusterSys
