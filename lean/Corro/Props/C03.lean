/-
C03 — a remote transaction becomes visible atomically, exactly when all chunks arrived.
Property theorems only, about the executable node model `Corro/Model/Node.lean`
(`process_incomplete_version` = `Node.bufferChunk`, `process_multiple_changes` + background loops =
`Node.deliver`, `process_fully_buffered_changes` = `Node.applyBuffered`).  Helper definitions and
lemmas: `Corro/Lemmas/NodeSeq.lean` (`touching`, `mergedLo/Hi`, `rowsOf`, `SeqRowsWF`, `SeqMem`,
`bufAdd`, `sameKey`, `ChunkWF`, `Node.BufCovered`), `NodeBook.lean` (`Node.BookWF`),
`NodeDeliver.lean` (`Item.incomplete`), `NodeApply.lean`, `NodeResolve.lean`.
-/
import Corro.Lemmas.NodeDeliver
import Corro.Lemmas.NodeEx

namespace Corro.Node
open Corro.Crdt

/-! ### 1. merging the stored sequence ranges -/

/-- **C03 (the SQL that merges stored seq ranges; DESIGN §4 `seq_merge_spec`).**  For a node whose
sequence rows of `(site, ver)` are canonical (`SeqRowsWF`: forward, pairwise disjoint and
non-adjacent) and a forward chunk range `lo ≤ hi`, `process_incomplete_version`:

1. deletes exactly the rows of `(site, ver)` that overlap or are adjacent to `[lo, hi]`
   (the six-case predicate `touching` says `r.lo ≤ hi + 1 ∧ lo ≤ r.hi + 1`);
2. writes the single row `[min lo (deleted los), max hi (deleted his)]` carrying the chunk's
   `last_seq`, after the surviving rows, and returns that range;
3. leaves the rows of `(site, ver)` canonical;
4. makes their point set `old ∪ [lo, hi]`;
5. does not touch the rows of any other `(site', ver')`. -/
theorem seq_merge_spec (n : Node) (site ver lo hi last : Nat) (cs : List Chg) (hlh : lo ≤ hi)
    (hw : SeqRowsWF n.seqRows site ver) :
    let n' := (n.bufferChunk site ver lo hi last cs).1
    let m := (n.bufferChunk site ver lo hi last cs).2
    (∀ r ∈ rowsOf n.seqRows site ver,
      touching site ver lo hi r = true ↔ (r.lo ≤ hi + 1 ∧ lo ≤ r.hi + 1)) ∧
    n'.seqRows = n.seqRows.filter (fun r => !touching site ver lo hi r) ++ [⟨site, ver, m.1, m.2, last⟩] ∧
    (m.1 = lo ∨ ∃ r ∈ n.seqRows, touching site ver lo hi r = true ∧ m.1 = r.lo) ∧
    (m.2 = hi ∨ ∃ r ∈ n.seqRows, touching site ver lo hi r = true ∧ m.2 = r.hi) ∧
    (m.1 ≤ lo ∧ hi ≤ m.2 ∧ ∀ r ∈ n.seqRows, touching site ver lo hi r = true → m.1 ≤ r.lo ∧ r.hi ≤ m.2) ∧
    SeqRowsWF n'.seqRows site ver ∧
    (∀ x, SeqMem n'.seqRows site ver x ↔ SeqMem n.seqRows site ver x ∨ (lo ≤ x ∧ x ≤ hi)) ∧
    (∀ s' v', ¬ (s' = site ∧ v' = ver) → rowsOf n'.seqRows s' v' = rowsOf n.seqRows s' v') := by
  refine ⟨?_, rfl, mergedLo_attained _ _ _ _ _, mergedHi_attained _ _ _ _ _,
    ⟨mergedLo_le _ _ _ _ _, le_mergedHi _ _ _ _ _,
      fun r hr ht => ⟨mergedLo_le_touching hr ht, touching_le_mergedHi hr ht⟩⟩,
    seqRowsWF_bufferChunk n site ver lo hi last cs hlh hw,
    seqMem_bufferChunk n site ver lo hi last cs hlh hw.1,
    fun s' v' hne => rowsOf_bufferChunk_other n site ver lo hi last cs s' v' hne⟩
  intro r hr
  have hm := mem_rowsOf.mp hr
  rw [touching_iff hlh (hw.1 r hr)]
  exact ⟨fun h => h.2.2, fun h => ⟨hm.2.1, hm.2.2, h⟩⟩

/-- the new row set of a different `(site', ver')` stays canonical as well -/
theorem seq_merge_spec_other (n : Node) (site ver lo hi last : Nat) (cs : List Chg) (s' v' : Nat)
    (hne : ¬ (s' = site ∧ v' = ver)) (hw : SeqRowsWF n.seqRows s' v') :
    SeqRowsWF (n.bufferChunk site ver lo hi last cs).1.seqRows s' v' :=
  seqRowsWF_bufferChunk_other n site ver lo hi last cs s' v' hne hw

/-- **C03 (`seq_merge_case5_total`).**  The fifth case of the SQL reads
`start_seq = :end + 1 AND end_seq` — a bare column used as a truth value, i.e. `end_seq != 0`.
For a forward row that starts at `hi + 1 ≥ 1` it is implied, so the case is the intended
"adjacent on the right". -/
theorem seq_merge_case5_total (r : SeqRow) (hi : Nat) (hr : r.lo ≤ r.hi) (h : r.lo = hi + 1) :
    (r.lo == hi + 1 && r.hi != 0) = true :=
  case5_total hr h

/-! ### 2. the buffer -/

/-- **C03 (buffering: `INSERT … ON CONFLICT DO NOTHING`).**  After buffering a chunk, every change
of the chunk has a buffered row with its `(site, db_version, seq)`; rows that were buffered before
keep their place (the old buffer is a prefix of the new one) and the row found under a key that
was already present is the old one — the first writer wins; every new row is a change of the
chunk; keys stay unique. -/
theorem buffered_rows_first_writer_wins (n : Node) (site ver lo hi last : Nat) (cs : List Chg) :
    let n' := (n.bufferChunk site ver lo hi last cs).1
    (∀ c ∈ cs, ∃ x ∈ n'.buf, x.site = c.site ∧ x.dbv = c.dbv ∧ x.seq = c.seq) ∧
    n.buf <+: n'.buf ∧
    (∀ k, n.buf.any (sameKey k) = true → n'.buf.find? (sameKey k) = n.buf.find? (sameKey k)) ∧
    (∀ x ∈ n'.buf, x ∈ n.buf ∨ x ∈ cs) ∧
    (BufKeysUnique n.buf → BufKeysUnique n'.buf) :=
  ⟨fun _ hc => bufAdd_has_key n.buf cs hc, bufAdd_prefix n.buf cs,
    fun k hk => bufAdd_find_old n.buf cs k hk, fun _ hx => mem_bufAdd hx,
    fun h => bufAdd_keysUnique n.buf cs h⟩

/-- **C03 (buffered rows lie inside the received ranges).**  If every buffered row lies inside a
sequence row of its `(site, version)` (`Node.BufCovered`), the chunk is well formed (`ChunkWF`:
its changes belong to `(site, ver)` and have `lo ≤ seq ≤ hi`) and the stored rows of `(site, ver)`
are forward, the same holds after buffering the chunk. -/
theorem buffered_seqs_covered (n : Node) (site ver lo hi last : Nat) (cs : List Chg) (hlh : lo ≤ hi)
    (hf : ∀ r ∈ rowsOf n.seqRows site ver, r.lo ≤ r.hi) (hcw : ChunkWF site ver lo hi cs)
    (hb : n.BufCovered) : (n.bufferChunk site ver lo hi last cs).1.BufCovered :=
  bufCovered_bufferChunk n site ver lo hi last cs hlh hf hcw hb

/-! ### 3. nothing is visible before the version is covered -/

/-- **C03 ("none of its changes is visible in the replicated tables until the union of received
chunks covers the whole transaction").**  Delivering ANY batch that consists only of incomplete
chunks (`Item.incomplete`: `lo ≤ hi`, not `0..=last_seq`; any actors, versions, order, duplicates,
overlaps; known versions are simply skipped) to a node whose in-memory partials are canonical
(`Node.BookWF`) leaves the store `n.db` literally unchanged, unless the batch completed a partial:
i.e. whenever no chunk of the batch belongs to a version whose partial in the resulting bookkeeping
is complete. -/
theorem invisible_until_covered (n : Node) (batch : List Item) (hinc : ∀ it ∈ batch, it.incomplete)
    (hwf : n.BookWF)
    (hno : ∀ site ver lo hi last cs, Item.full site ver lo hi last cs ∈ batch →
      ∀ q, ((n.deliver batch).booked site).partial? ver = some q → q.complete = false) :
    (n.deliver batch).db = n.db := by
  rcases deliver_incomplete_alive n batch hinc hwf with h | ⟨site, ver, lo, hi, last, cs, q, hm, hq, hc⟩
  · exact h
  · rw [hno site ver lo hi last cs hm q hq] at hc; cases hc

/-- the same, read the other way: if a batch of incomplete chunks changed the store, then one of
its chunks belongs to a version whose partial is now complete (no gap in `0..=last_seq`) -/
theorem visible_only_if_covered (n : Node) (batch : List Item) (hinc : ∀ it ∈ batch, it.incomplete)
    (hwf : n.BookWF) (hch : (n.deliver batch).db ≠ n.db) :
    ∃ site ver lo hi last cs q, Item.full site ver lo hi last cs ∈ batch ∧
      ((n.deliver batch).booked site).partial? ver = some q ∧
      RSet.gaps q.seqs (0, q.last) = [] := by
  rcases deliver_incomplete_alive n batch hinc hwf with h | ⟨site, ver, lo, hi, last, cs, q, hm, hq, hc⟩
  · exact absurd h hch
  · refine ⟨site, ver, lo, hi, last, cs, q, hm, hq, ?_⟩
    unfold Partial.complete at hc
    exact List.isEmpty_iff.mp hc

/-- **C03 (dead apply loop).**  A node whose background apply loop is not running
(`alive = false`, the state between a crash and the restart) never changes its store on a batch
of incomplete chunks, covered or not. -/
theorem invisible_while_dead (n : Node) (batch : List Item) (hinc : ∀ it ∈ batch, it.incomplete)
    (hd : n.alive = false) : (n.deliver batch).db = n.db :=
  deliver_incomplete_dead n batch hinc hd

end Corro.Node
