/-
C03 — a remote transaction becomes visible atomically, exactly when all chunks arrived.
Property theorems only, about the executable node model `Corro/Model/Node.lean`
(`process_incomplete_version` = `Node.bufferChunk`, `process_multiple_changes` + background loops =
`Node.deliver`, `process_fully_buffered_changes` = `Node.applyBuffered`).  Helper definitions and
lemmas: `Corro/Lemmas/NodeSeq.lean` (`touching`, `mergedLo/Hi`, `rowsOf`, `SeqRowsWF`, `SeqMem`,
`bufAdd`, `sameKey`, `ChunkWF`, `Node.BufCovered`), `NodeBook.lean` (`Node.BookWF`),
`NodeDeliver.lean` (`Item.incomplete`), `NodeResolve.lean`/`NodeCover.lean`/`NodeHolder.lean` (resolution
of a partial), `NodeSingle.lean`/`NodeUnchunked.lean` (`CsOK`, `chunkOf`, `chunkItem`, `Before`, `After`),
`NodeConsistent.lean` (`ItemWF`, `Consistent`, `NoPending`; described in the header of `Props/C06.lean`).
-/
import Corro.Lemmas.NodeExFacts

namespace Corro.Node
open Corro.Crdt

/-! ### 1. merging the stored sequence ranges -/

/-- **C03 (the SQL that merges stored seq ranges; DESIGN §4 `seq_merge_spec`).**  For a node whose
sequence rows of `(site, ver)` are canonical (`SeqRowsWF`: forward, pairwise disjoint and
non-adjacent) and a forward chunk range `lo ≤ hi`, `process_incomplete_version`:

1. deletes exactly the rows of `(site, ver)` that overlap or are adjacent to `[lo, hi]`
   (the six-case predicate `touching` says `r.lo ≤ hi + 1 ∧ lo ≤ r.hi + 1`);
2. writes the single row `[min lo (deleted los), max hi (deleted his)]` carrying the chunk's
   `last_seq`, after the surviving rows, and returns that range;
3. leaves the rows of `(site, ver)` canonical;
4. makes their point set `old ∪ [lo, hi]`;
5. does not touch the rows of any other `(site', ver')`. -/
theorem seq_merge_spec (n : Node) (site ver lo hi last : Nat) (cs : List Chg) (hlh : lo ≤ hi)
    (hw : SeqRowsWF n.seqRows site ver) :
    let n' := (n.bufferChunk site ver lo hi last cs).1
    let m := (n.bufferChunk site ver lo hi last cs).2
    (∀ r ∈ rowsOf n.seqRows site ver,
      touching site ver lo hi r = true ↔ (r.lo ≤ hi + 1 ∧ lo ≤ r.hi + 1)) ∧
    n'.seqRows = n.seqRows.filter (fun r => !touching site ver lo hi r) ++ [⟨site, ver, m.1, m.2, last⟩] ∧
    (m.1 = lo ∨ ∃ r ∈ n.seqRows, touching site ver lo hi r = true ∧ m.1 = r.lo) ∧
    (m.2 = hi ∨ ∃ r ∈ n.seqRows, touching site ver lo hi r = true ∧ m.2 = r.hi) ∧
    (m.1 ≤ lo ∧ hi ≤ m.2 ∧ ∀ r ∈ n.seqRows, touching site ver lo hi r = true → m.1 ≤ r.lo ∧ r.hi ≤ m.2) ∧
    SeqRowsWF n'.seqRows site ver ∧
    (∀ x, SeqMem n'.seqRows site ver x ↔ SeqMem n.seqRows site ver x ∨ (lo ≤ x ∧ x ≤ hi)) ∧
    (∀ s' v', ¬ (s' = site ∧ v' = ver) → rowsOf n'.seqRows s' v' = rowsOf n.seqRows s' v') := by
  refine ⟨?_, rfl, mergedLo_attained _ _ _ _ _, mergedHi_attained _ _ _ _ _,
    ⟨mergedLo_le _ _ _ _ _, le_mergedHi _ _ _ _ _,
      fun r hr ht => ⟨mergedLo_le_touching hr ht, touching_le_mergedHi hr ht⟩⟩,
    seqRowsWF_bufferChunk n site ver lo hi last cs hlh hw,
    seqMem_bufferChunk n site ver lo hi last cs hlh hw.1,
    fun s' v' hne => rowsOf_bufferChunk_other n site ver lo hi last cs s' v' hne⟩
  intro r hr
  have hm := mem_rowsOf.mp hr
  rw [touching_iff hlh (hw.1 r hr)]
  exact ⟨fun h => h.2.2, fun h => ⟨hm.2.1, hm.2.2, h⟩⟩

/-- the new row set of a different `(site', ver')` stays canonical as well -/
theorem seq_merge_spec_other (n : Node) (site ver lo hi last : Nat) (cs : List Chg) (s' v' : Nat)
    (hne : ¬ (s' = site ∧ v' = ver)) (hw : SeqRowsWF n.seqRows s' v') :
    SeqRowsWF (n.bufferChunk site ver lo hi last cs).1.seqRows s' v' :=
  seqRowsWF_bufferChunk_other n site ver lo hi last cs s' v' hne hw

/-- **C03 (`seq_merge_case5_total`).**  The fifth case of the SQL reads
`start_seq = :end + 1 AND end_seq` — a bare column used as a truth value, i.e. `end_seq != 0`.
For a forward row that starts at `hi + 1 ≥ 1` it is implied, so the case is the intended
"adjacent on the right". -/
theorem seq_merge_case5_total (r : SeqRow) (hi : Nat) (hr : r.lo ≤ r.hi) (h : r.lo = hi + 1) :
    (r.lo == hi + 1 && r.hi != 0) = true :=
  case5_total hr h

/-! ### 2. the buffer -/

/-- **C03 (buffering: `INSERT … ON CONFLICT DO NOTHING`).**  After buffering a chunk, every change
of the chunk has a buffered row with its `(site, db_version, seq)`; rows that were buffered before
keep their place (the old buffer is a prefix of the new one) and the row found under a key that
was already present is the old one — the first writer wins; every new row is a change of the
chunk; keys stay unique. -/
theorem buffered_rows_first_writer_wins (n : Node) (site ver lo hi last : Nat) (cs : List Chg) :
    let n' := (n.bufferChunk site ver lo hi last cs).1
    (∀ c ∈ cs, ∃ x ∈ n'.buf, x.site = c.site ∧ x.dbv = c.dbv ∧ x.seq = c.seq) ∧
    n.buf <+: n'.buf ∧
    (∀ k, n.buf.any (sameKey k) = true → n'.buf.find? (sameKey k) = n.buf.find? (sameKey k)) ∧
    (∀ x ∈ n'.buf, x ∈ n.buf ∨ x ∈ cs) ∧
    (BufKeysUnique n.buf → BufKeysUnique n'.buf) :=
  ⟨fun _ hc => bufAdd_has_key n.buf cs hc, bufAdd_prefix n.buf cs,
    fun k hk => bufAdd_find_old n.buf cs k hk, fun _ hx => mem_bufAdd hx,
    fun h => bufAdd_keysUnique n.buf cs h⟩

/-- **C03 (buffered rows lie inside the received ranges).**  If every buffered row lies inside a
sequence row of its `(site, version)` (`Node.BufCovered`), the chunk is well formed (`ChunkWF`:
its changes belong to `(site, ver)` and have `lo ≤ seq ≤ hi`) and the stored rows of `(site, ver)`
are forward, the same holds after buffering the chunk. -/
theorem buffered_seqs_covered (n : Node) (site ver lo hi last : Nat) (cs : List Chg) (hlh : lo ≤ hi)
    (hf : ∀ r ∈ rowsOf n.seqRows site ver, r.lo ≤ r.hi) (hcw : ChunkWF site ver lo hi cs)
    (hb : n.BufCovered) : (n.bufferChunk site ver lo hi last cs).1.BufCovered :=
  bufCovered_bufferChunk n site ver lo hi last cs hlh hf hcw hb

/-! ### 3. nothing is visible before the version is covered -/

/-- **C03 ("none of its changes is visible in the replicated tables until the union of received
chunks covers the whole transaction").**  Delivering ANY batch that consists only of incomplete
chunks (`Item.incomplete`: `lo ≤ hi`, not `0..=last_seq`; any actors, versions, order, duplicates,
overlaps; known versions are simply skipped) to a node whose in-memory partials are canonical
(`Node.BookWF`) leaves the store `n.db` literally unchanged, unless the batch completed a partial:
i.e. whenever no chunk of the batch belongs to a version whose partial in the resulting bookkeeping
is complete. -/
theorem invisible_until_covered (n : Node) (batch : List Item) (hinc : ∀ it ∈ batch, it.incomplete)
    (hwf : n.BookWF)
    (hno : ∀ site ver lo hi last cs, Item.full site ver lo hi last cs ∈ batch →
      ∀ q, ((n.deliver batch).booked site).partial? ver = some q → q.complete = false) :
    (n.deliver batch).db = n.db := by
  rcases deliver_incomplete_alive n batch hinc hwf with h | ⟨site, ver, lo, hi, last, cs, q, hm, hq, hc⟩
  · exact h
  · rw [hno site ver lo hi last cs hm q hq] at hc; cases hc

/-- the same, read the other way: if a batch of incomplete chunks changed the store, then one of
its chunks belongs to a version whose partial is now complete (no gap in `0..=last_seq`) -/
theorem visible_only_if_covered (n : Node) (batch : List Item) (hinc : ∀ it ∈ batch, it.incomplete)
    (hwf : n.BookWF) (hch : (n.deliver batch).db ≠ n.db) :
    ∃ site ver lo hi last cs q, Item.full site ver lo hi last cs ∈ batch ∧
      ((n.deliver batch).booked site).partial? ver = some q ∧
      RSet.gaps q.seqs (0, q.last) = [] := by
  rcases deliver_incomplete_alive n batch hinc hwf with h | ⟨site, ver, lo, hi, last, cs, q, hm, hq, hc⟩
  · exact absurd h hch
  · refine ⟨site, ver, lo, hi, last, cs, q, hm, hq, ?_⟩
    unfold Partial.complete at hc
    exact List.isEmpty_iff.mp hc

/-- **C03 (dead apply loop).**  A node whose background apply loop is not running
(`alive = false`, the state between a crash and the restart) never changes its store on a batch
of incomplete chunks, covered or not. -/
theorem invisible_while_dead (n : Node) (batch : List Item) (hinc : ∀ it ∈ batch, it.incomplete)
    (hd : n.alive = false) : (n.deliver batch).db = n.db :=
  deliver_incomplete_dead n batch hinc hd

/-! ### 4. at the covering step everything becomes visible at once, as if unchunked -/

/-- **C03 ("at that point all of them become visible in one step with the same result as applying
the unchunked transaction … independent of chunk boundaries, arrival order, duplicates, overlap").**
Let `cs` be the change list of version `(site, ver)` (`CsOK`: strictly sorted by seq, attributed to
the version, seqs in `0..=last`), and let the chunk with seq range `r` be
`chunkItem site ver last cs r = Full site ver r last (the changes of cs with seq in r)`.
Deliver ANY list of chunks `chunks` (forward ranges inside `0..=last`; any order, duplicates,
overlaps), one chunk per batch, to an alive, consistent node with nothing pending and unique buffer
keys that does not know the version (no partial, `containsVersion = false`).  Then:

1. after any such list — covering or not — the store is either still literally `n.db` or literally
   `mergeAll n.db cs` (all or nothing);
2. if the ranges cover `0..=last`, the final store is literally `mergeAll n.db cs`, **equal as
   databases** (not only under the CRDT view: the buffered rows are applied sorted by seq, which is
   the order of `cs`);
3. which is the store obtained by delivering the unchunked changeset. -/
theorem apply_eq_unchunked {L : Nat → Nat → Nat} {n : Node} {site ver last : Nat} {cs : List Chg}
    (hc : Consistent L n) (hal : n.alive = true) (hnp : NoPending n) (hk : BufKeysUnique n.buf)
    (hpn : (n.booked site).partial? ver = none) (hcv : (n.booked site).containsVersion ver = false)
    (hcs : CsOK site ver last cs) (hL : L site ver = last) (chunks : List (Nat × Nat))
    (hch : ∀ r ∈ chunks, r.1 ≤ r.2 ∧ r.2 ≤ last) :
    let final := chunks.foldl (fun m r => m.deliver [chunkItem site ver last cs r]) n
    (final.db = n.db ∨ final.db = mergeAll n.db cs) ∧
    ((∀ x, x ≤ last → ∃ r ∈ chunks, r.1 ≤ x ∧ x ≤ r.2) → final.db = mergeAll n.db cs) ∧
    (n.deliver [Item.full site ver 0 last last cs]).db = mergeAll n.db cs := by
  have h0 : Before L site ver cs n.db n := Before.init hc hal hnp hk hpn hcv
  refine ⟨?_, fun hcov => chunks_apply h0 hcs hL chunks hch hcov, ?_⟩
  · rcases chunks_all_or_nothing h0 hcs hL chunks hch with h | h
    · exact Or.inl h.db
    · exact Or.inr h.db
  · have := (h0.step_complete hcs hL).db
    unfold chunkItem at this
    rw [chunkOf_all hcs] at this
    exact this

/-- **C03 (the covering step, spelled out).**  In a state where the version is not applied yet
(`Before`), one more chunk either leaves the store alone and adds its range to the received ranges,
or applies the version: the store becomes `mergeAll db0 cs` — the buffered rows are merged exactly
once, sorted by seq — and from then on every chunk of the version is known and ignored. -/
theorem covered_applied_once {L : Nat → Nat → Nat} {m : Node} {site ver last : Nat} {cs : List Chg}
    {db0 : Db} (h : Before L site ver cs db0 m) (hcs : CsOK site ver last cs) (hL : L site ver = last)
    (r : Nat × Nat) (hlh : r.1 ≤ r.2) (hr : r.2 ≤ last) :
    let m' := m.deliver [chunkItem site ver last cs r]
    (Before L site ver cs db0 m' ∧ m'.db = db0 ∧
      ∀ x, (SeqMem m.seqRows site ver x ∨ (r.1 ≤ x ∧ x ≤ r.2)) → SeqMem m'.seqRows site ver x) ∨
    (m'.db = mergeAll db0 cs ∧
      ∀ r', r'.2 ≤ last → m'.deliver [chunkItem site ver last cs r'] = m') := by
  rcases h.step hcs hL r hlh hr with ⟨hb, hm⟩ | ha
  · exact Or.inl ⟨hb, hb.db, hm⟩
  · exact Or.inr ⟨ha.db, fun r' hr' => ha.step r' hr'⟩

/-- the two-chunk case `[0..k]`, `[k+1..last]`, in both orders -/
theorem apply_eq_unchunked_two {L : Nat → Nat → Nat} {n : Node} {site ver last : Nat} {cs : List Chg}
    (hc : Consistent L n) (hal : n.alive = true) (hnp : NoPending n) (hk : BufKeysUnique n.buf)
    (hpn : (n.booked site).partial? ver = none) (hcv : (n.booked site).containsVersion ver = false)
    (hcs : CsOK site ver last cs) (hL : L site ver = last) (k : Nat) (hkl : k < last) :
    ((n.deliver [chunkItem site ver last cs (0, k)]).deliver [chunkItem site ver last cs (k + 1, last)]).db =
      mergeAll n.db cs ∧
    ((n.deliver [chunkItem site ver last cs (k + 1, last)]).deliver [chunkItem site ver last cs (0, k)]).db =
      mergeAll n.db cs := by
  constructor
  · refine (apply_eq_unchunked hc hal hnp hk hpn hcv hcs hL [(0, k), (k + 1, last)] ?_).2.1 ?_
    · intro r hr
      simp only [List.mem_cons, List.not_mem_nil, or_false] at hr
      rcases hr with rfl | rfl <;> simp only <;> omega
    · intro x hx
      by_cases h : x ≤ k
      · exact ⟨(0, k), by simp, by simp only; omega⟩
      · exact ⟨(k + 1, last), by simp, by simp only; omega⟩
  · refine (apply_eq_unchunked hc hal hnp hk hpn hcv hcs hL [(k + 1, last), (0, k)] ?_).2.1 ?_
    · intro r hr
      simp only [List.mem_cons, List.not_mem_nil, or_false] at hr
      rcases hr with rfl | rfl <;> simp only <;> omega
    · intro x hx
      by_cases h : x ≤ k
      · exact ⟨(0, k), by simp, by simp only; omega⟩
      · exact ⟨(k + 1, last), by simp, by simp only; omega⟩

/-! ### 5. a partial is resolved by what a holder answers -/

/-- **C03 ("every partially received version is eventually applied or discarded (and its buffered
copies removed) once its missing ranges have been answered by a peer that holds the version").**
The receiver `n` (consistent, alive, nothing pending) holds `(site, ver)` as the incomplete partial
`p` and receives, in one batch, exactly what `handleNeed h site (Partial ver (gaps of p in
0..=last))` returns from a holder `h` that holds the version:
* either `h` has live changes of the version whose largest seq is the version's `last_seq`
  (`L site ver`) — it answers one `Full` changeset per gap;
* or every change of the version was overwritten on `h` (no live change, no buffered row, not
  needed) — it answers `Empty ver..=ver`.
Afterwards the version is not partial on the receiver any more (no partial, or a complete one that
has been applied), it has no sequence rows and no buffered rows, and it is not needed. -/
theorem partial_resolved_by_holder {L : Nat → Nat → Nat} {n h : Node} {site ver : Nat} {p : Partial}
    (hc : Consistent L n) (hal : n.alive = true) (hnp : NoPending n)
    (hp : (n.booked site).partial? ver = some p) (hinc : p.complete = false)
    (hholder : ((h.live site ver).isEmpty = false ∧ maxSeq (h.live site ver) = L site ver) ∨
      ((h.live site ver).isEmpty = true ∧ (∀ c ∈ h.buf, ¬ (c.site = site ∧ c.dbv = ver)) ∧
        ¬ RSet.Mem (h.booked site).needed ver)) :
    let n' := n.deliver (handleNeed h site (.part ver (RSet.gaps p.seqs (0, p.last))))
    ((n'.booked site).partial? ver = none ∨
      ∃ q, (n'.booked site).partial? ver = some q ∧ q.complete = true) ∧
    rowsOf n'.seqRows site ver = [] ∧ bufOf n'.buf site ver = [] ∧
    ¬ RSet.Mem (n'.booked site).needed ver := by
  rcases hholder with ⟨hl, hlast⟩ | ⟨hl, hb, hg⟩
  · exact resolved_by_live hc hal hnp hp hl hlast
  · have hbatch : handleNeed h site (.part ver (RSet.gaps p.seqs (0, p.last))) = [Item.empty site ver ver] := by
      apply handleNeed_part_empty h site ver _ hl (hasBuf_false_iff.mpr hb)
      cases hgg : h.inGaps site ver with
      | false => rfl
      | true => exact absurd (inGaps_iff.mp hgg) hg
    rw [hbatch]
    have := resolved_by_empty n site ver p hp hinc (hc.actor site).needed_wf
    exact ⟨Or.inl this.1, this.2.1, this.2.2.1, this.2.2.2⟩

/-- the `Empty` branch needs nothing but a canonical `needed` set on the receiver (dead or alive,
any state): this is the behaviour restored by the fix that made `BookedVersions::contains(v, None)`
false for an incomplete partial — before it the `Empty` was dropped as "already known" and the
partial stayed forever -/
theorem partial_resolved_by_empty (n : Node) (site ver : Nat) (p : Partial)
    (hp : (n.booked site).partial? ver = some p) (hinc : p.complete = false)
    (hw : RSet.WF (n.booked site).needed) :
    (n.booked site).contains ver none = false ∧
    ((n.deliver [Item.empty site ver ver]).booked site).partial? ver = none ∧
    rowsOf (n.deliver [Item.empty site ver ver]).seqRows site ver = [] ∧
    bufOf (n.deliver [Item.empty site ver ver]).buf site ver = [] ∧
    ¬ RSet.Mem ((n.deliver [Item.empty site ver ver]).booked site).needed ver :=
  ⟨contains_none_incomplete _ _ _ hp hinc, resolved_by_empty n site ver p hp hinc hw⟩

/-! ### concrete states (non-vacuity) -/

namespace Ex

/-- `srv` (`Lemmas/NodeEx.lean`) holds seqs 0..1 of version 3 of actor 1 (`last_seq = 3`): its
rows are canonical, its partials canonical, it is consistent with nothing pending -/
example : SeqRowsWF srv.seqRows 1 3 ∧ srv.BookWF ∧ srv.BufCovered ∧ Consistent L srv ∧ NoPending srv ∧
    BufKeysUnique srv.buf :=
  ⟨by decide, srv_consistent.bookWF, srv_consistent.bufCovered, srv_consistent, srv_noPending,
    by unfold BufKeysUnique; decide⟩

/-- a chunk that touches the stored row on the right is merged with it (case 5 of the SQL) -/
example : (srv.bufferChunk 1 3 2 2 3 [ch "4" "a" 1 3 2]).1.seqRows = [⟨1, 3, 0, 2, 3⟩] ∧
    (srv.bufferChunk 1 3 3 3 3 [ch "4" "b" 1 3 3]).1.seqRows = [⟨1, 3, 0, 1, 3⟩, ⟨1, 3, 3, 3, 3⟩] := by
  decide

/-- `invisible_until_covered` on `srv`: the chunk `3..=3` does not complete version 3 (seq 2 is
missing): the hypotheses hold and the store is unchanged; then the chunk `2..=2` completes it and
all four changes appear at once -/
example :
    (∀ it ∈ [Item.full 1 3 3 3 3 [ch "4" "b" 1 3 3]], it.incomplete) ∧
    ((srv.deliver [Item.full 1 3 3 3 3 [ch "4" "b" 1 3 3]]).booked 1).partial? 3 = some ⟨[(0, 1), (3, 3)], 3⟩ ∧
    (srv.deliver [Item.full 1 3 3 3 3 [ch "4" "b" 1 3 3]]).db.rows = srv.db.rows ∧
    ((srv.deliver [Item.full 1 3 3 3 3 [ch "4" "b" 1 3 3]]).deliver
      [Item.full 1 3 2 2 3 [ch "4" "a" 1 3 2]]).live 1 3 = v3 := by decide

/-- `apply_eq_unchunked` on a fresh node: version 3 in two chunks, in both orders, and in four
overlapping / duplicated chunks, gives the rows of the unchunked delivery -/
example : CsOK 1 3 3 v3 ∧
    (((Node.fresh 9).deliver [chunkItem 1 3 3 v3 (2, 3)]).deliver [chunkItem 1 3 3 v3 (0, 1)]).db.rows =
      ((Node.fresh 9).deliver [Item.full 1 3 0 3 3 v3]).db.rows ∧
    ((((Node.fresh 9).deliver [chunkItem 1 3 3 v3 (1, 2)]).deliver [chunkItem 1 3 3 v3 (1, 2)]).deliver
      [chunkItem 1 3 3 v3 (2, 3)]).db.rows = (Node.fresh 9).db.rows ∧
    (((((Node.fresh 9).deliver [chunkItem 1 3 3 v3 (1, 2)]).deliver [chunkItem 1 3 3 v3 (1, 2)]).deliver
      [chunkItem 1 3 3 v3 (2, 3)]).deliver [chunkItem 1 3 3 v3 (0, 1)]).db.rows =
      ((Node.fresh 9).deliver [Item.full 1 3 0 3 3 v3]).db.rows := by
  refine ⟨v3_ok, by decide, by decide, by decide⟩

/-- a holder with the whole version 3 live, and a holder on which it was cleared -/
def holderLive : Node := (Node.fresh 8).deliver [Item.full 1 3 0 3 3 v3]
def holderCleared : Node := (Node.fresh 7).deliver [Item.empty 1 3 3]

/-- `partial_resolved_by_holder` on `srv`: the hypotheses hold for both holders; the live holder
answers the gap `2..=3` and version 3 gets applied, the cleared holder answers `Empty` and the
partial is discarded with its rows -/
example :
    ((srv.booked 1).partial? 3 = some ⟨[(0, 1)], 3⟩) ∧
    (holderLive.live 1 3).isEmpty = false ∧ maxSeq (holderLive.live 1 3) = L 1 3 ∧
    handleNeed holderLive 1 (.part 3 (RSet.gaps [(0, 1)] (0, 3))) = [Item.full 1 3 2 3 3 v3hi] ∧
    (srv.deliver (handleNeed holderLive 1 (.part 3 (RSet.gaps [(0, 1)] (0, 3))))).live 1 3 = v3 ∧
    (srv.deliver (handleNeed holderLive 1 (.part 3 (RSet.gaps [(0, 1)] (0, 3))))).seqRows = [] ∧
    (holderCleared.live 1 3).isEmpty = true ∧
    handleNeed holderCleared 1 (.part 3 (RSet.gaps [(0, 1)] (0, 3))) = [Item.empty 1 3 3] ∧
    ((srv.deliver [Item.empty 1 3 3]).booked 1).partial? 3 = none ∧
    (srv.deliver [Item.empty 1 3 3]).seqRows = [] ∧ (srv.deliver [Item.empty 1 3 3]).buf = [] := by
  decide

end Ex

end Corro.Node
