/-
C18 — the membership view follows the newest identity of each peer.
Property theorems only.  Model, specification fold and the predicates used below:
`Corro/Model/Members.lean`; helper lemmas: `Corro/Lemmas/Members.lean`.

Vocabulary (all defined in the model file):
* `run ops`           the `Members` value after the notification / sample sequence `ops`
                      (`up` → `add_member`, `down` → `remove_member`, `rtt` → `add_rtt`).
* `Admissible ops`    the property's side condition: no `up id … ts` comes after a `down id … ts'`
                      with `ts < ts'`.  Nothing else is assumed about timestamps (equal, out of
                      order), addresses or cluster ids.
* `specRun ops`       fold keeping per actor the newest identity heard of (highest timestamp) and
                      whether the last notification about it was an up; `maxTs`/`lastAbout` say the
                      same with two elementary folds (`spec_newest_is_max`, `spec_up_is_last`).
* `view m id`         `(addr, ts, cluster)` the member table lists for `id`, `none` if not listed.
* `NoSharedAddr ops`  at no point of the sequence two listed members have the same address (the SWIM
                      layer, foca, keeps one identity per address; needed only for the address index).
* `newestSamples a ops` the ≤ 20 newest `rtt` samples for address `a`, `ringOf` the bucket index of
                      their integer average (`none`: no sample or no bucket).
-/
import Corro.Lemmas.Members
import Corro.Gen.MembersGlue

namespace Corro.Members

/- Every theorem below holds for EVERY bucket table and every (positive) sample window `cfg`; the
values in the source (`Corro/Gen/MembersConsts.lean`) only instantiate the driver. -/
variable {cfg : Cfg}

/-- the table the concrete examples and counterexamples below are evaluated with (fixed here, so that a
retune of the source's `RING_BUCKETS` does not touch them) -/
def demoCfg : Cfg := ⟨[(0, 6), (6, 15), (15, 50), (50, 100), (100, 200), (200, 300)], 20, by decide⟩

/-! ### (0) SWIM notifications reach the member table as the `up` / `down` steps the theorems below are about

`Corro.Gen.MembersGlue` is regenerated from `handle_notifications` (handlers.rs) and `impl Identity for
Actor` (actor.rs) at the start of every check; these theorems are about the tables the source gives now. -/

open Corro.Gen.MembersGlue in
/-- **The glue.**  One iteration of `handle_notifications` — for the dispatch table read off the source —
is exactly the model step of the corresponding op: a `MemberUp(actor)` is `add_member(&actor)`, a
`MemberDown(actor)` is `remove_member(&actor)`, and no other notification (`Rename`, `Active`, `Idle`,
`Defunct`, `Rejoin`, anything newer) changes the member table. -/
theorem notifications_are_ops (m : Members) (id a t c : Nat) :
    applyNotif cfg notifTable m .memberUp id a t c = step cfg m (.up id a t c) ∧
    applyNotif cfg notifTable m .memberDown id a t c = step cfg m (.down id a t c) ∧
    ∀ k, k ≠ .memberUp → k ≠ .memberDown → applyNotif cfg notifTable m k id a t c = m := by
  have hu : callOf notifTable .memberUp = .addMember := by decide
  have hd : callOf notifTable .memberDown = .removeMember := by decide
  have ho : ∀ k, k ≠ .memberUp → k ≠ .memberDown → callOf notifTable k = .nothing := by
    intro k; cases k <;> decide
  refine ⟨by simp [applyNotif, hu, step], by simp [applyNotif, hd, step], ?_⟩
  intro k h1 h2
  simp [applyNotif, ho k h1 h2]

/-- A whole stream of notifications through `handle_notifications` is the run of the ops it stands for
(`opOf`: ups and downs; everything else is dropped), whatever the bucket table and the window. -/
def opOf : NotifKind × Nat × Nat × Nat × Nat → Option Op
  | (.memberUp, id, a, t, c) => some (.up id a t c)
  | (.memberDown, id, a, t, c) => some (.down id a t c)
  | _ => none

open Corro.Gen.MembersGlue in
theorem notification_stream_is_run (ns : List (NotifKind × Nat × Nat × Nat × Nat)) (m : Members) :
    ns.foldl (fun m n => applyNotif cfg notifTable m n.1 n.2.1 n.2.2.1 n.2.2.2.1 n.2.2.2.2) m =
      runFrom cfg m (ns.filterMap opOf) := by
  induction ns generalizing m with
  | nil => rfl
  | cons n ns ih =>
    obtain ⟨k, id, a, t, c⟩ := n
    have h := notifications_are_ops (cfg := cfg) m id a t c
    simp only [List.foldl_cons, ih]
    cases k <;> simp [List.filterMap_cons, opOf, runFrom, h.1, h.2.1, h.2.2 _]

open Corro.Gen.MembersGlue in
/-- **Identity renewal.**  With the comparison `win_addr_conflict` has in the source, an identity renewed
at a later wall-clock reading keeps the actor id, address and cluster, wins the address conflict against
the identity it replaces and never loses it back: the renewed identity is the *newest* one in the sense
of sentence 1 (this is what makes the property's side condition — no up older than an identity already
reported down — the behaviour of the SWIM layer; the clock moving forward is the assumption). -/
theorem renewed_identity_wins (a : ActorM) (now : Nat) (h : a.ts < now) :
    ∃ r, renew a now = some r ∧ r.id = a.id ∧ r.addr = a.addr ∧ r.cluster = a.cluster ∧ a.ts < r.ts ∧
      winAddrConflict winCmp r a = true ∧ winAddrConflict winCmp a r = false := by
  refine ⟨{ a with ts := now }, rfl, rfl, rfl, rfl, h, ?_, ?_⟩
  · simp [winAddrConflict, winCmp, Cmp.holds, h]
  · simp [winAddrConflict, winCmp, Cmp.holds]; omega

/-! ### (1) listed exactly if the newest identity's last notification was an up, with its address and cluster -/

/-- **C18, sentence 1.**  For every admissible sequence and every actor, what the member table lists
(`address, identity timestamp, cluster`, or nothing) is exactly what the fold by newest identity
says: listed iff the last notification about the newest identity was an up, and then with that
identity's address and cluster. -/
theorem states_follow_newest (ops : List Op) (h : Admissible ops) (id : Nat) :
    view (run cfg ops) id = specView (specRun ops) id :=
  agree_fold ops init [] (fun _ => rfl) (by intro id e he; simp [get] at he) h id

/-- The record of the specification fold carries the highest identity timestamp any notification of
the sequence has for that actor ("newest identity"). -/
theorem spec_newest_is_max (ops : List Op) (id : Nat) :
    (get (specRun ops) id).map (·.ts) = maxTs id ops :=
  (specInv_fold ops [] (fun _ => none) (fun _ _ => none)
    (fun _ => ⟨rfl, by intro e he; simp [get] at he⟩) id).1

/-- … and its `up` flag says whether the last notification about that newest identity was an up. -/
theorem spec_up_is_last (ops : List Op) (id : Nat) (e : Ident) (he : get (specRun ops) id = some e) :
    lastAbout id e.ts ops = some e.up :=
  (specInv_fold ops [] (fun _ => none) (fun _ _ => none)
    (fun _ => ⟨rfl, by intro e he; simp [get] at he⟩) id).2 e he

/-- **C18, sentence 1 without the fold.**  An actor is listed iff the last notification about its
highest identity timestamp was an up; it is then listed with that timestamp. -/
theorem listed_iff_newest_up (ops : List Op) (h : Admissible ops) (id : Nat) :
    (∃ st, get (run cfg ops).states id = some st) ↔
      ∃ t, maxTs id ops = some t ∧ lastAbout id t ops = some true := by
  have hv := states_follow_newest (cfg := cfg) ops h id
  have hm := spec_newest_is_max ops id
  have hl := spec_up_is_last ops id
  simp only [view, specView] at hv
  cases he : get (specRun ops) id with
  | none =>
    simp only [he, Option.map_none] at hv hm
    cases hs : get (run cfg ops).states id with
    | none => simp [← hm]
    | some st => simp [hs] at hv
  | some e =>
    have hl' := hl e he
    simp only [he, Option.map_some] at hv hm
    cases hs : get (run cfg ops).states id with
    | none =>
      simp only [hs, Option.map_none] at hv
      have : e.up = false := by cases hu : e.up <;> simp_all
      simp [← hm, hl', this]
    | some st =>
      simp only [hs, Option.map_some] at hv
      have : e.up = true := by cases hu : e.up <;> simp_all
      simp [← hm, hl', this]

/-- A listed member carries the highest identity timestamp heard of for it. -/
theorem listed_ts_is_newest (ops : List Op) (h : Admissible ops) (id : Nat) (st : MemberState)
    (hs : get (run cfg ops).states id = some st) : maxTs id ops = some st.ts := by
  have hv := states_follow_newest (cfg := cfg) ops h id
  have hm := spec_newest_is_max ops id
  simp only [view, specView, hs, Option.map_some] at hv
  cases he : get (specRun ops) id with
  | none => simp [he] at hv
  | some e =>
    simp only [he, Option.map_some] at hv hm
    split at hv
    · simp at hv; rw [← hm, hv.2.1]
    · simp at hv

/-- **"listed with that identity's address and cluster".**  When an identity timestamp determines the
identity (`TsDeterminesIdentity`: same actor and timestamp ⇒ same address and cluster), a listed
member's address and cluster are those of every notification about its newest identity. -/
theorem listed_with_newest_identity (ops : List Op) (h : Admissible ops) (hT : TsDeterminesIdentity ops)
    (id : Nat) (st : MemberState) (hs : get (run cfg ops).states id = some st)
    (o : Op) (ho : o ∈ ops) (a c : Nat) (hn : notif o = some (id, st.ts, a, c)) :
    st.addr = a ∧ st.cluster = c := by
  have hv := states_follow_newest (cfg := cfg) ops h id
  simp only [view, specView, hs, Option.map_some] at hv
  cases he : get (specRun ops) id with
  | none => simp [he] at hv
  | some e =>
    simp only [he] at hv
    split at hv
    · simp at hv
      have horig := origin_fold ops [] [] (by intro id e he; simp [get] at he) id e he
      simp only [List.nil_append] at horig
      have key : ∀ o' ∈ ops, notif o' = some (id, e.ts, e.addr, e.cluster) → e.addr = a ∧ e.cluster = c := by
        intro o' ho' hn'
        have := hT o' ho' o ho
        simp only [agreeOnIdentity, hn', hn, hv.2.1] at this
        simpa using this
      obtain ⟨h1, h2, h3⟩ := hv
      rcases horig with hin | hin
      · have := key _ hin rfl; rw [h1, h3]; exact this
      · have := key _ hin rfl; rw [h1, h3]; exact this
    · simp at hv

/-- With timestamps that determine identities the fold coincides with the plain "highest timestamp,
first seen on ties" fold. -/
theorem spec_eq_first_seen (ops : List Op) (hT : TsDeterminesIdentity ops) (id : Nat) :
    get (specRun ops) id = get (specRunFirst ops) id :=
  first_fold ops [] [] [] (fun _ => rfl) (by intro id e he; simp [get] at he) (by simpa using hT) id

/-- Without that assumption the code does *not* keep the first-seen address across a down/up of the
same timestamp: it lists the re-announced address (a design choice of the specification, not a defect:
both notifications claim to be the newest identity). -/
theorem first_seen_tie_counterexample :
    view (run demoCfg [.up 1 1 1 0, .down 1 1 1 0, .up 1 2 1 0]) 1 = some (2, 1, 0) ∧
    specView (specRunFirst [.up 1 1 1 0, .down 1 1 1 0, .up 1 2 1 0]) 1 = some (1, 1, 0) := by decide

/-- The side condition is needed: after `down` about a newer identity the code has forgotten that
identity, so a later (inadmissible) `up` of the older one is listed again. -/
theorem inadmissible_counterexample :
    ¬ Admissible [.up 1 1 1 0, .down 1 1 2 0, .up 1 1 1 0] ∧
    view (run demoCfg [.up 1 1 1 0, .down 1 1 2 0, .up 1 1 1 0]) 1 = some (1, 1, 0) ∧
    specView (specRun [.up 1 1 1 0, .down 1 1 2 0, .up 1 1 1 0]) 1 = none := by decide

/-! ### (2) notifications about older identities never remove or overwrite a newer one -/

/-- **C18, sentence 2.**  In *every* state (hence every reachable one): an up or a down whose identity
timestamp is older than the listed one changes nothing at all — not the member, not the index, not
the rings — and reports `Ignored` / `removed = false`. -/
theorem older_never_overwrites (m : Members) (id a ts c : Nat) (st : MemberState)
    (hs : get m.states id = some st) (hlt : ts < st.ts) :
    addMember cfg m id a ts c = (m, .ignored) ∧ removeMember m id ts = (m, false) ∧
    step cfg m (.up id a ts c) = m ∧ step cfg m (.down id a ts c) = m := by
  have h1 : addMember cfg m id a ts c = (m, .ignored) := by simp [addMember, hs, hlt]
  have h2 : removeMember m id ts = (m, false) := by
    simp only [removeMember, hs]; rw [if_neg (by omega)]
  exact ⟨h1, h2, by simp [step, h1], by simp [step, h2]⟩

/-- … and the specification fold ignores it as well. -/
theorem older_ignored_by_spec (sp : Map Ident) (id a ts c : Nat) (e : Ident)
    (he : get sp id = some e) (hlt : ts < e.ts) :
    specStep sp (.up id a ts c) = sp ∧ specStep sp (.down id a ts c) = sp := by
  simp [specStep, he, hlt]

/-- **C18, sentence 2 over sequences.**  In an admissible sequence, a notification (up or down) whose
identity timestamp is older than the newest one already heard of for that actor — whether that newest
identity is currently up or down — leaves the listing of every actor exactly as it was. -/
theorem older_notification_keeps_view (ops : List Op) (op : Op) (h : Admissible (ops ++ [op]))
    (id t a c T : Nat) (hn : notif op = some (id, t, a, c)) (hT : maxTs id ops = some T) (hlt : t < T)
    (id' : Nat) : view (run cfg (ops ++ [op])) id' = view (run cfg ops) id' := by
  have hA : Admissible ops := (List.pairwise_append.mp h).1
  rw [states_follow_newest _ h, states_follow_newest _ hA]
  have hm := spec_newest_is_max ops id
  rw [hT] at hm
  have hstep : specRun (ops ++ [op]) = specStep (specRun ops) op := by
    simp [specRun, List.foldl_append]
  rw [hstep]
  cases he : get (specRun ops) id with
  | none => simp [he] at hm
  | some e =>
    simp [he] at hm
    have := older_ignored_by_spec (specRun ops) id a t c e he (by omega)
    cases op with
    | up i a' t' c' => simp [notif] at hn; obtain ⟨rfl, rfl, rfl, rfl⟩ := hn; rw [this.1]
    | down i a' t' c' => simp [notif] at hn; obtain ⟨rfl, rfl, rfl, rfl⟩ := hn; rw [this.2]
    | rtt _ _ => simp [notif] at hn
    | ring0 _ => simp [notif] at hn
/-- A notification about one actor never touches the entry of another actor (address, timestamp,
cluster and ring all stay). -/
theorem other_actors_untouched (m : Members) (id a ts c id' : Nat) (hne : id ≠ id') :
    get (step cfg m (.up id a ts c)).states id' = get m.states id' ∧
    get (step cfg m (.down id a ts c)).states id' = get m.states id' :=
  ⟨get_states_addMember_other m id a ts c id' hne, get_states_removeMember_other m id ts id' hne⟩

/-! ### (3) the address index -/

/-- **Index soundness (unconditional).**  After every sequence, every `by_addr` entry points to a
listed member whose *current* address it is: no stale entry survives an address change or a removal. -/
theorem by_addr_points_to_member (ops : List Op) : IndexSound (run cfg ops) :=
  (K_iff _).mp (K_run ops)

/-- **`by_addr_consistent`.**  If at no point of the sequence two listed members share an address,
every listed member is indexed under its current address: `by_addr[its addr] = that actor`. -/
theorem by_addr_consistent (ops : List Op) (h : NoSharedAddr cfg ops) : IndexComplete (run cfg ops) := by
  refine (B'_iff _).mp (B'_runFrom ops init ?_ ?_)
  · intro id v hv; simp [view, init, get] at hv
  · intro k hk; exact D'_of_distinct _ (h k hk)

/-- For admissible sequences "no shared address" can be read off the notifications alone: the listed
members have distinct addresses iff the peers whose newest identity is up have. -/
theorem distinct_addrs_iff_spec (ops : List Op) (h : Admissible ops) :
    DistinctAddrs (run cfg ops) ↔
      ∀ i j vi vj, specView (specRun ops) i = some vi → specView (specRun ops) j = some vj →
        vi.1 = vj.1 → i = j := by
  constructor
  · intro hd i j vi vj hi hj
    rw [← states_follow_newest ops h] at hi hj
    exact D'_of_distinct _ hd i j vi vj hi hj
  · intro hs
    refine distinct_of_D' _ (sorted_run ops) ?_
    intro i j vi vj hi hj
    rw [states_follow_newest ops h] at hi hj
    exact hs i j vi vj hi hj

/-- What the real code does when two different actors are up on one address: the second
`NewMember` takes the index entry over; the first stays listed at that address without being
indexed (`IndexComplete` fails), and when the second goes down the entry disappears altogether. -/
theorem by_addr_shared_addr_counterexample :
    (get (run demoCfg [.up 1 1 1 0, .up 2 1 1 0]).states 1 = some ⟨1, 1, 0, none⟩ ∧
     get (run demoCfg [.up 1 1 1 0, .up 2 1 1 0]).byAddr 1 = some 2) ∧
    (get (run demoCfg [.up 1 1 1 0, .up 2 1 1 0, .down 2 1 1 0]).states 1 = some ⟨1, 1, 0, none⟩ ∧
     get (run demoCfg [.up 1 1 1 0, .up 2 1 1 0, .down 2 1 1 0]).byAddr 1 = none) := by decide

/-! ### (4) the ring follows the samples of the current address -/

/-- The sample buffer of an address holds its (at most 20) newest samples, newest first. -/
theorem rtts_are_newest_samples (ops : List Op) (a : Nat) :
    (get (run cfg ops).rtts a).getD [] = newestSamples cfg a ops := by
  have := rtts_runFrom (cfg := cfg) a ops init (by simp [init, get])
  simpa [run, init, get, newestSamples] using this

/-- **Ring invariant (unconditional).**  After every sequence, a listed member to which the index
attributes its current address has the ring of the newest samples of that address: bucket index of
their average, `none` without samples or outside every bucket.  (The ring is recomputed on every
`add_rtt` for the address and when the member is inserted or changes address; in between the
samples of the address do not change, so "at the time of the last recalculation" is "now".) -/
theorem ring_current_if_indexed (ops : List Op) (id : Nat) (st : MemberState)
    (hs : get (run cfg ops).states id = some st) (hb : get (run cfg ops).byAddr st.addr = some id) :
    st.ring = ringOf cfg (newestSamples cfg st.addr ops) := by
  rw [← rtts_are_newest_samples]
  exact ringCurrent_run ops id st hs hb

/-- **`ring_from_current_addr`.**  With one identity per address, *every* listed member's ring is the
bucket of the average of the ≤ 20 newest samples recorded for its **current** address — samples for
former addresses play no role, and an average outside every bucket gives no ring. -/
theorem ring_from_current_addr (ops : List Op) (h : NoSharedAddr cfg ops) (id : Nat) (st : MemberState)
    (hs : get (run cfg ops).states id = some st) :
    st.ring = ringOf cfg (newestSamples cfg st.addr ops) :=
  ring_current_if_indexed ops id st hs (by_addr_consistent ops h id st hs)

/-- Without "one identity per address" the ring of the member that lost the index entry goes stale:
actor 1 keeps ring `none` although its current address averages 3 ms. -/
theorem ring_shared_addr_counterexample :
    get (run demoCfg [.up 1 1 1 0, .up 2 1 1 0, .down 2 1 1 0, .rtt 1 3]).states 1 = some ⟨1, 1, 0, none⟩ ∧
    ringOf demoCfg (newestSamples demoCfg 1 [.up 1 1 1 0, .up 2 1 1 0, .down 2 1 1 0, .rtt 1 3]) = some 0 := by decide

/-! ### (5) priority broadcast targets -/

/-- **`ring0_targets_sound`.**  After every sequence `ring0(cluster)` returns exactly the addresses of
listed members of that cluster whose ring is 0 — nobody from another cluster, nobody unlisted,
nobody with another or no ring. -/
theorem ring0_targets_sound (ops : List Op) (c a : Nat) :
    a ∈ ring0 (run cfg ops) c ↔
      ∃ id st, get (run cfg ops).states id = some st ∧ st.addr = a ∧ st.cluster = c ∧ st.ring = some 0 := by
  rw [mem_ring0]
  constructor
  · rintro ⟨kv, hkv, h⟩
    exact ⟨kv.1, kv.2, get_of_mem _ _ _ (sorted_run ops) hkv, h⟩
  · rintro ⟨id, st, hs, h⟩
    exact ⟨(id, st), mem_of_get _ _ _ hs, h⟩

/-- **Sentence 3 end to end.**  For admissible sequences with one identity per address, an address is
a priority target for a cluster iff it is the current address of a peer of that cluster whose newest
identity is up and whose newest (≤ `cap`) samples for that address average inside the first bucket of
the table (ring 0; `0 ≤ avg < 6` ms for the table in the source today). -/
theorem ring0_targets_are_near_same_cluster_peers (ops : List Op) (hA : Admissible ops)
    (hN : NoSharedAddr cfg ops) (c a : Nat) :
    a ∈ ring0 (run cfg ops) c ↔
      ∃ id ts, specView (specRun ops) id = some (a, ts, c) ∧
        newestSamples cfg a ops ≠ [] ∧
          inFirstBucket cfg.buckets ((newestSamples cfg a ops).sum / (newestSamples cfg a ops).length) := by
  rw [ring0_targets_sound]
  constructor
  · rintro ⟨id, st, hs, h1, h2, h3⟩
    refine ⟨id, st.ts, ?_, ?_⟩
    · rw [← states_follow_newest (cfg := cfg) ops hA]; simp [view, hs, h1, h2]
    · rw [← ringOf_zero_iff, ← h1, ← ring_from_current_addr ops hN id st hs]; exact h3
  · rintro ⟨id, ts, hv, hr⟩
    rw [← states_follow_newest (cfg := cfg) ops hA] at hv
    simp only [view] at hv
    cases hs : get (run cfg ops).states id with
    | none => simp [hs] at hv
    | some st =>
      simp [hs] at hv
      refine ⟨id, st, hs, hv.1, hv.2.2, ?_⟩
      rw [ring_from_current_addr ops hN id st hs, hv.1]
      exact (ringOf_zero_iff _).mpr hr

/-! ### non-vacuity: concrete sequences meeting the hypotheses, exercising the interesting paths -/

/-- a sequence with a stale up, a down about a newer identity (old F12a), an address change with
samples for the old and the new address (old F12b), equal and out-of-order timestamps, two clusters -/
def demo : List Op :=
  [.up 1 1 2 0, .rtt 1 3, .up 2 2 1 0, .up 1 1 1 0, .rtt 2 250, .up 1 3 3 0, .rtt 3 250, .rtt 1 1,
   .down 2 2 4 1, .up 2 2 4 1, .down 1 1 2 0, .ring0 0]

example : Admissible demo ∧ NoSharedAddr demoCfg demo ∧ TsDeterminesIdentity demo := by decide
example : (run demoCfg demo).states = [(1, ⟨3, 3, 0, some 5⟩), (2, ⟨2, 4, 1, some 5⟩)] ∧
    (run demoCfg demo).byAddr = [(2, 2), (3, 1)] := by decide
example : specView (specRun demo) 1 = some (3, 3, 0) ∧ specView (specRun demo) 2 = some (2, 4, 1) := by decide

/-- old F12a on the code as it is now: a down about a newer identity removes the member -/
example : view (run demoCfg [.up 1 1 1 0, .down 1 1 2 0]) 1 = none ∧ (run demoCfg [.up 1 1 1 0, .down 1 1 2 0]).byAddr = [] := by
  decide

/-- old F12b: after the address change the new address is indexed, the ring of the old address is
dropped and samples for the new address count (250 ms → ring 5, not a priority target) -/
example : (run demoCfg [.up 1 1 1 0, .rtt 1 1, .up 1 2 2 0, .rtt 2 250]).states = [(1, ⟨2, 2, 0, some 5⟩)] ∧
    (run demoCfg [.up 1 1 1 0, .rtt 1 1, .up 1 2 2 0, .rtt 2 250]).byAddr = [(2, 1)] ∧
    ring0 (run demoCfg [.up 1 1 1 0, .rtt 1 1, .up 1 2 2 0, .rtt 2 250]) 0 = [] := by decide

/-- old F12c: twenty 1000 ms samples after a 1 ms one push the average out of every bucket → no ring -/
example : (run demoCfg (.up 1 1 1 0 :: .rtt 1 1 :: List.replicate 20 (.rtt 1 1000))).states = [(1, ⟨1, 1, 0, none⟩)] ∧
    newestSamples demoCfg 1 (.up 1 1 1 0 :: .rtt 1 1 :: List.replicate 20 (.rtt 1 1000)) = List.replicate 20 1000 := by
  decide

/-- ring 0 only for the same cluster -/
example : ring0 (run demoCfg [.up 1 1 1 0, .up 2 2 1 1, .rtt 1 5, .rtt 2 5, .rtt 2 6]) 0 = [1] ∧
    ring0 (run demoCfg [.up 1 1 1 0, .up 2 2 1 1, .rtt 1 5, .rtt 2 5, .rtt 2 6]) 1 = [2] ∧
    ring0 (run demoCfg [.up 1 1 1 0, .up 2 2 1 1, .rtt 1 5, .rtt 2 5, .rtt 2 7]) 1 = [] := by decide

end Corro.Members
