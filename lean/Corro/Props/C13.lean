/-
C13 — subscriptions survive a clean restart and are discarded after an unclean one.
Property theorems only; the model is `Corro/Model/SubLife.lean`, the invariants are in
`Corro/Lemmas/SubLife.lean`.  Every theorem quantifies over ALL sequences `ops` of model operations
from the initial state (creation, initial query, transactions with immediate or deferred match step,
matcher batches, unsubscription, tripwire, `drop_handles`, drain, process stop at ANY point, restart),
i.e. over every history of changes and every stop point of the property's quantifier.
-/
import Corro.Lemmas.SubLife

namespace Corro.SubLife

/-- **"A subscription is restored at start iff its persisted state is `completed`, otherwise its
directory is removed."**  For every reachable stopped node that has the directory: the new process
serves the subscription (same id, state back to `running`) exactly when the state read from
`sub.sqlite` is `completed`; in every other case (`created`, `running`, `cancelled`, no `meta` table)
the directory is gone afterwards and a client asking for the id gets 404. -/
theorem restore_iff_completed (ops : List Op) :
    let s := run init ops
    s.up = false → s.dir = true →
    ∃ r, step s .restart = some r ∧
      (r.served = true ↔ s.state = some .completed) ∧
      (s.state = some .completed → r.dir = true ∧ r.sid = s.sid ∧ r.state = some .running) ∧
      (s.state ≠ some .completed → r.dir = false ∧ r.served = false) := by
  intro s hup hdir
  have hw : WF s := reach_wf ops
  have hreg : s.reg = false := by
    cases h : s.reg with
    | false => rfl
    | true => have := (hw.reg_alive h).1; simp [hup] at this
  by_cases hc : s.state = some .completed
  · have hr : step s .restart
        = some { s with up := true, reg := true, phase := .loop, state := some .running } := by
      simp [step, hup, hdir, hc]
    exact ⟨_, hr, by simp [S.served, hc], by simp [hdir], by simp [hc]⟩
  · have hr : step s .restart
        = some { s with up := true, dir := false, state := none, rows := Tbl.empty, log := [], applied := 0 } := by
      simp [step, hup, hdir, hc]
    exact ⟨_, hr, by simp [S.served, hc, hreg], by simp [hc], by simp [S.served, hreg]⟩

/-- `completed` is written by exactly one step: the end of the drain. -/
theorem completed_only_by_drainEnd (s c : S) (o : Op) (h : step s o = some c)
    (hn : s.state ≠ some .completed) (hc : c.state = some .completed) : o = .drainEnd := by
  cases o <;> simp only [step] at h
  case drainEnd => rfl
  all_goals
    (repeat' split at h) <;> simp at h <;> subst h <;> simp_all
  all_goals (have := flush_fields s; simp_all)

/-- **"Whenever `completed` is written, every batch accepted before the channel closed has been
applied: applied = produced; the log ends with the last produced change."**
First part: in every reachable state whose persisted state is `completed` nothing accepted is
waiting (`produced = applied`), the handle has left the manager (nothing can be accepted any more)
and the matcher task is gone.  Second part, the moment of writing: the step that writes `completed`
(also over a `cancelled` written earlier on the same path) first applies every waiting candidate
(each accepted key now carries the table's value), its change log is the log after the last
produced change, with consecutive ids. -/
theorem completed_implies_drained (ops : List Op) :
    let s := run init ops
    (s.state = some .completed →
        s.pending = [] ∧ s.produced = s.applied ∧ s.reg = false ∧ s.phase = .gone) ∧
    (∀ c, step s .drainEnd = some c →
        c.state = some .completed ∧ c.pending = [] ∧ c.applied = s.produced ∧
        (∀ k ∈ s.pending, c.rows k = s.db k) ∧
        c.log = (applyAll s s.pending).log ∧ Consecutive c.log) := by
  intro s
  have hw : WF s := reach_wf ops
  refine ⟨fun h => ?_, fun c hc => ?_⟩
  · obtain ⟨h1, h2, h3⟩ := hw.completed h
    exact ⟨h3, by simp [S.produced, h3], h2, h1⟩
  · have hw' : WF c := step_wf hw hc
    simp only [step] at hc
    split at hc <;> simp at hc
    subst hc
    obtain ⟨_, _, _, _, _, _, _, _, _, _, _, _, _, _, e_pend, e_app, e_log, e_rows⟩ := flush_fields s
    refine ⟨rfl, e_pend, by simp [e_app, S.produced], ?_, e_log, hw'.ids⟩
    intro k hk
    show s.flush.rows k = s.db k
    rw [e_rows, applyAll_rows]; simp [hk]

/-- **"After a graceful stop + restart: same subscription id, rows = query result at close, next
change id = max + 1."**  From every reachable state in which the subscription is served, the
binary's stop sequence (`gracefulRestart`: trip, the matcher leaves its loop, `drop_handles()`, the
drain ends, exit) followed by a start
* passes through a state `c` (the matcher has finished) marked `completed` in which everything
  accepted has been applied,
* ends in a state `r` that serves the SAME id from the same directory, state `running`, nothing
  waiting, with exactly the rows and the change log of `c` (the log ends with the last change
  produced before the stop) and an unchanged table;
* if no transaction was missed before and no match step is outstanding at the stop
  (`missed = 0`, `held = []`: see `restored_stale_*_counterexample` for what happens otherwise),
  the restored rows equal the table, and the next transaction that changes a key yields exactly one
  new change whose id is the previous maximum + 1. -/
theorem restart_continues_ids (ops : List Op) :
    let s := run init ops
    s.served = true →
    let c := run s (gracefulRestart.take 8)
    let r := run s gracefulRestart
    (c.state = some .completed ∧ c.pending = [] ∧ c.applied = (run s (gracefulRestart.take 3)).produced) ∧
    (r.served = true ∧ r.dir = true ∧ r.sid = s.sid ∧ r.state = some .running ∧ r.pending = [] ∧
      r.log = c.log ∧ r.rows = c.rows ∧ r.db = s.db) ∧
    (s.missed = 0 → s.held = [] →
      (∀ k, r.rows k = s.db k) ∧
      (∀ k v, s.db k ≠ v →
        (run r [.write [(k, v)], .process]).log = (r.lastId + 1) :: r.log ∧
        (run r [.write [(k, v)], .process]).rows k = v)) := by
  intro s hs c r
  have hw : WF s := reach_wf ops
  have hf : Fresh s := reach_fresh ops
  -- stage 1: into the drain
  have e1 : gracefulRestart = [.trip, .initialDone, .ack] ++ ([.unreg false, .dropClone, .initialDone, .ack, .drainEnd] ++ [.stop, .restart]) := rfl
  have e2 : gracefulRestart.take 8 = [.trip, .initialDone, .ack] ++ [.unreg false, .dropClone, .initialDone, .ack, .drainEnd] := rfl
  have e3 : gracefulRestart.take 3 = [.trip, .initialDone, .ack] := rfl
  obtain ⟨d_ph, d_up, d_reg, _, d_dir, d_sid, d_db, d_missed, d_held⟩ := to_drain hw hs
  generalize hd : run s [.trip, .initialDone, .ack] = d at d_ph d_up d_reg d_dir d_sid d_db d_missed d_held
  obtain ⟨c_st, _, c_up, _, c_pend, c_dir, c_sid, c_db, c_missed, c_held, c_app, _, _⟩ :=
    drain_to_completed d_ph d_up d_reg
  have hc : c = run d [.unreg false, .dropClone, .initialDone, .ack, .drainEnd] := by
    show run s (gracefulRestart.take 8) = _
    rw [e2, run_append, hd]
  have hr : r = run c [.stop, .restart] := by
    show run s gracefulRestart = _
    rw [e1, run_append, run_append, hd, ← hc]
  rw [← hc] at c_st c_up c_pend c_dir c_sid c_db c_missed c_held c_app
  obtain ⟨r_srv, r_dir, r_sid, r_st, r_pend, r_held, r_log, r_rows, r_db, r_ph, r_canc, r_missed⟩ :=
    completed_restart c_st c_up (by rw [c_dir]; exact d_dir)
  rw [← hr] at r_srv r_dir r_sid r_st r_pend r_held r_log r_rows r_db r_ph r_canc r_missed
  refine ⟨⟨c_st, c_pend, by rw [e3, hd]; exact c_app⟩,
    ⟨r_srv, r_dir, by rw [r_sid, c_sid, d_sid], r_st, r_pend, r_log, r_rows, by rw [r_db, c_db, d_db]⟩, ?_⟩
  intro hm hh
  -- the restored state is reachable, hence fresh
  have hwr : WF r := run_wf _ hw
  have hfr : Fresh r := run_fresh _ hw hf
  have r_m0 : r.missed = 0 := by
    rw [r_missed, c_held, d_held, hh, c_missed, d_missed, hm]; rfl
  have r_up : r.up = true := by simp only [S.served, Bool.and_eq_true] at r_srv; exact r_srv.1
  have r_reg : r.reg = true := by simp only [S.served, Bool.and_eq_true] at r_srv; exact r_srv.2
  have hrows : ∀ k, r.rows k = r.db k := by
    intro k
    have := hfr r_m0 (by simp [S.onDisk, r_dir, r_st]) (Or.inl r_up) k (by simp [r_pend]) (by simp [r_held])
    simpa [r_ph] using this
  have r_dbs : r.db = s.db := by rw [r_db, c_db, d_db]
  refine ⟨fun k => by rw [hrows k, r_dbs], fun k v hv => ?_⟩
  have hv' : r.rows k ≠ v := by rw [hrows k, r_dbs]; exact hv
  have hdbk : (r.db.apply [(k, v)]) k = v := by simp [Tbl.apply, Tbl.set]
  simp [run, stepD, step, r_up, r_reg, r_ph, r_canc, S.onDisk, r_dir, r_st, r_pend, Tx.keys, S.flush,
    applyAll, applyOne, hdbk, hv', S.lastId, Tbl.set]

/-- the binary's stop sequence with `drop_handles()` reaching the matcher BEFORE the matcher has
looked at the tripwire (it is still inside its initial query, or busy with a batch, or simply was
not polled in between), followed by a start -/
def gracefulRestartOvertaken : List Op :=
  [.trip, .unreg false, .dropClone, .initialDone, .ack, .drainEnd, .stop, .restart]

/-- **A graceful stop restores the subscription also when the cancellation of `drop_handles()`
overtakes the tripwire** — at any point of the subscription's life (creation, initial query,
running, draining).  `drop_handles()` cancels with the same token as an unsubscription and
`cmd_loop`'s biased `select!` looks at the cancellation first: the matcher writes `cancelled`, the
drain runs, `cancelled` is overwritten by `completed`, and the next start serves the same id with
everything accepted applied (and rows equal to the table if nothing was missed).  (Replay `fill 6000
| w 1=1 | sub slow nowait | graceful | restart live | subinfo`; this is the schedule that a repair
of the unsubscription finding must not break: an attempted one, 49b7ba8, did.) -/
theorem graceful_overtaken_restores (ops : List Op) :
    let s := run init ops
    s.served = true →
    let c := run s (gracefulRestartOvertaken.take 6)
    let r := run s gracefulRestartOvertaken
    (c.state = some .completed ∧ c.pending = []) ∧
    (r.served = true ∧ r.dir = true ∧ r.sid = s.sid ∧ r.state = some .running ∧ r.pending = [] ∧
      r.log = c.log ∧ r.rows = c.rows ∧ r.db = s.db) ∧
    (s.missed = 0 → s.held = [] → ∀ k, r.rows k = s.db k) := by
  intro s hs c r
  have hw : WF s := reach_wf ops
  have hf : Fresh s := reach_fresh ops
  have e1 : gracefulRestartOvertaken
      = [.trip, .unreg false, .dropClone, .initialDone, .ack, .drainEnd] ++ [.stop, .restart] := rfl
  have e2 : gracefulRestartOvertaken.take 6 = [.trip, .unreg false, .dropClone, .initialDone, .ack, .drainEnd] := rfl
  obtain ⟨c_st, c_up, c_pend, c_dir, c_sid, c_db, c_missed, c_held⟩ := overtaken_to_completed hw hs
  have hc : c = run s [.trip, .unreg false, .dropClone, .initialDone, .ack, .drainEnd] := by
    show run s (gracefulRestartOvertaken.take 6) = _
    rw [e2]
  have hr : r = run c [.stop, .restart] := by
    show run s gracefulRestartOvertaken = _
    rw [e1, run_append, ← hc]
  rw [← hc] at c_st c_up c_pend c_dir c_sid c_db c_missed c_held
  obtain ⟨r_srv, r_dir, r_sid, r_st, r_pend, r_held, r_log, r_rows, r_db, r_ph, _, r_missed⟩ :=
    completed_restart c_st c_up c_dir
  rw [← hr] at r_srv r_dir r_sid r_st r_pend r_held r_log r_rows r_db r_ph r_missed
  refine ⟨⟨c_st, c_pend⟩,
    ⟨r_srv, r_dir, by rw [r_sid, c_sid], r_st, r_pend, r_log, r_rows, by rw [r_db, c_db]⟩, ?_⟩
  intro hm hh k
  have hfr : Fresh r := run_fresh _ hw hf
  have r_m0 : r.missed = 0 := by
    rw [r_missed, c_held, hh, c_missed, hm]; rfl
  have r_up : r.up = true := by simp only [S.served, Bool.and_eq_true] at r_srv; exact r_srv.1
  have := hfr r_m0 (by simp [S.onDisk, r_dir, r_st]) (Or.inl r_up) k (by simp [r_pend]) (by simp [r_held])
  rw [r_db, c_db] at this
  simpa [r_ph] using this

/-- While the matcher task of the subscription is alive — creation, initial query, running, draining,
cancelled but not yet finished — the persisted state is never `completed`. -/
theorem alive_not_completed (ops : List Op) :
    let s := run init ops
    s.phase ≠ .gone →
    s.state = some .created ∨ s.state = some .running ∨ s.state = some .cancelled := by
  intro s hp
  have hw : WF s := reach_wf ops
  cases h : s.phase with
  | gone => exact absurd h hp
  | init => exact Or.inl (hw.init_state h)
  | loop => exact Or.inr (Or.inl (hw.loop_state h))
  | drain => rcases hw.drain_state h with h' | h' <;> simp [h']

/-- **"Any stop before `completed` is written leaves `created`/`running`/`cancelled` (or no `meta`
table at all), and restart removes the directory, so clients get 404 and must resubscribe."**
For every reachable running node whose directory is not marked `completed` (by
`alive_not_completed`: in particular at every point of the matcher's life): stopping the process
right there leaves the persisted state as last written, and the next start removes the directory
and does not serve the id. -/
theorem abrupt_is_discarded (ops : List Op) :
    let s := run init ops
    s.up = true → s.dir = true → s.state ≠ some .completed →
    let a := stepD s .stop
    let r := stepD a .restart
    a.state = s.state ∧ a.dir = true ∧ a.up = false ∧
    r.up = true ∧ r.dir = false ∧ r.served = false := by
  intro s hup hdir hc
  simp [stepD, step, hup, hdir, hc, S.served]

/-- **"A restored subscription never has unapplied accepted batches."**  Whatever happened before,
a subscription that is served right after a start has nothing waiting, `produced = applied`, and
exactly the rows and the log that were on disk. -/
theorem no_stale_serving (ops : List Op) :
    let s := run init ops
    s.up = false →
    let r := stepD s .restart
    r.served = true →
    r.pending = [] ∧ r.produced = r.applied ∧ r.rows = s.rows ∧ r.log = s.log ∧ Consecutive r.log := by
  intro s hup r hsrv
  have hw : WF s := reach_wf ops
  have hp : s.pending = [] := by
    cases h : s.pending with
    | nil => rfl
    | cons a l =>
      have := (hw.phase_up (hw.pending_alive (by simp [h]))).1
      simp [hup] at this
  have hreg : s.reg = false := by
    cases h : s.reg with
    | false => rfl
    | true => have := (hw.reg_alive h).1; simp [hup] at this
  have hr : r = stepD s .restart := rfl
  clear_value r
  simp only [stepD, step, hup] at hr
  by_cases hd : s.dir = true
  · by_cases hc : s.state = some .completed
    · simp [hd, hc] at hr
      subst hr
      exact ⟨hp, by simp [S.produced, hp], rfl, rfl, hw.ids⟩
    · simp [hd, hc] at hr
      subst hr
      simp [S.served, hreg] at hsrv
  · simp [hd] at hr
    subst hr
    simp [S.served, hreg] at hsrv

/-- **Partial: "a restored subscription's rows equal its query on the database."**
Full statement (FALSE for the code as it is, see the two counterexamples below):
`∀ ops, (run init ops).up = false → (stepD (run init ops) .restart).served → rows = db`.
Proved under the hypothesis that no committed transaction was missed by the subscription
(`missed = 0`: every transaction that committed while the directory existed had its match step run
while the handle was still in the manager). -/
theorem restored_rows_eq_query_partial (ops : List Op) :
    let s := run init ops
    s.up = false →
    let r := stepD s .restart
    r.served = true → s.missed = 0 →
    ∀ k, r.rows k = r.db k := by
  intro s hup r hsrv hm k
  have hwr : WF r := stepD_wf _ (reach_wf ops)
  have hfr : Fresh r := stepD_fresh _ (reach_wf ops) (reach_fresh ops)
  have hw : WF s := reach_wf ops
  have hreg : s.reg = false := by
    cases h : s.reg with
    | false => rfl
    | true => have := (hw.reg_alive h).1; simp [hup] at this
  have hheld : s.held = [] := by
    cases h : s.held with
    | nil => rfl
    | cons a l => have := hw.flags_up (Or.inr (Or.inr (by simp [h]))); simp [hup] at this
  have hp : s.pending = [] := by
    cases h : s.pending with
    | nil => rfl
    | cons a l =>
      have := (hw.phase_up (hw.pending_alive (by simp [h]))).1
      simp [hup] at this
  have hr : r = stepD s .restart := rfl
  simp only [stepD, step, hup] at hr
  by_cases hd : s.dir = true
  · by_cases hc : s.state = some .completed
    · simp [hd, hc] at hr
      have h := hfr (by rw [hr]; exact hm) (by rw [hr]; simp [S.onDisk]) (Or.inl (by rw [hr])) k
        (by rw [hr]; simp [hp]) (by rw [hr]; simp [hheld])
      rw [hr] at h ⊢
      simpa using h
    · simp [hd, hc] at hr
      rw [hr] at hsrv
      simp [S.served, hreg] at hsrv
  · simp [hd] at hr
    rw [hr] at hsrv
    simp [S.served, hreg] at hsrv

/-! ### the code as it is: `completed` although work is lost -/

/-- an unsubscribed subscription (all listeners gone for `MAX_UNSUB_TIME`: `subs.remove` +
`handle.cleanup()`), a later transaction, a stop of any kind, a start -/
def unsubThenWrite : List Op :=
  [.mkdir, .create, .initialDone, .write [(1, some 1)], .process,
   .unreg false, .ack, .drainEnd, .write [(2, some 2)], .stop, .restart]

/-- **Counterexample (replayed on the real code: known finding `unsubscribed-sub-restored-stale`).**
Cancellation writes `cancelled`, the same code path then writes `completed`; the directory is kept;
the transaction that commits afterwards finds no handle (`missed`); at the next start — after a
graceful or an abrupt stop alike — the subscription is restored and served although its rows differ
from the table.  (`restored_rows_eq_query_partial` is the positive statement: with `missed = 0`, in
particular with no transaction between the unsubscription and the stop, the restored rows are the
table.) -/
theorem restored_stale_unsub_counterexample :
    let s := run init unsubThenWrite
    (run init (unsubThenWrite.take 7)).state = some .cancelled ∧
    (run init (unsubThenWrite.take 8)).state = some .completed ∧
    s.served = true ∧ s.missed = 1 ∧ s.rows 2 = none ∧ s.db 2 = some 2 ∧ s.rows 2 ≠ s.db 2 := by
  decide

/-- a transaction whose match step runs after `drop_handles()` (its `broadcast_changes` task was
waiting for a read connection), inside the binary's own stop sequence -/
def lateMatch : List Op :=
  [.mkdir, .create, .initialDone, .write [(1, some 1)], .process,
   .writeHeld [(2, some 2)], .trip, .ack, .unreg false, .drainEnd, .matchHeld, .stop, .restart]

/-- **Counterexample (replayed on the real code: known region `match-after-wind-down`).**
`drop_handles()` comes before `wait_for_all_pending_handles()`: the drain ends and `completed` is
written while a committed transaction has not been matched yet; its match step then finds an empty
manager. -/
theorem restored_stale_late_match_counterexample :
    let s := run init lateMatch
    s.served = true ∧ s.missed = 1 ∧ s.rows 2 = none ∧ s.db 2 = some 2 ∧ s.rows 2 ≠ s.db 2 := by
  decide

/-! ### examples: the hypotheses are satisfiable, the mechanisms are exercised -/

/-- `cancelled` is overwritten by `completed` on the same path; unsubscribed and nothing written
afterwards: restored with the rows it had, which are the table -/
example :
    (run init [.mkdir, .create, .initialDone, .unreg false, .ack]).state = some .cancelled ∧
    (run init [.mkdir, .create, .initialDone, .unreg false, .ack, .drainEnd]).state = some .completed ∧
    (let r := run init [.mkdir, .create, .initialDone, .write [(1, some 1)], .unreg false, .ack, .drainEnd,
                        .stop, .restart]
     r.served = true ∧ r.missed = 0 ∧ r.rows 1 = some 1 ∧ r.db 1 = some 1) := by
  decide

/-- a stop while `cancelled` (another clone of the handle keeps the drain open) is discarded -/
example :
    let s := run init [.mkdir, .create, .initialDone, .unreg true, .ack, .drainEnd, .stop, .restart]
    s.dir = false ∧ s.served = false := by
  decide

/-- graceful stop with a candidate still buffered and one accepted during the drain: both applied,
same id, ids continue -/
example :
    let s := run init [.mkdir, .create, .initialDone, .write [(1, some 1)], .process, .write [(2, some 2)]]
    let r := run s [.trip, .ack, .write [(3, some 3)], .unreg false, .drainEnd, .stop, .restart]
    s.served = true ∧ s.lastId = 1 ∧ r.served = true ∧ r.sid = s.sid ∧ r.log = [3, 2, 1] ∧
    r.rows 1 = some 1 ∧ r.rows 2 = some 2 ∧ r.rows 3 = some 3 ∧
    (run r [.write [(1, none)], .process]).log = [4, 3, 2, 1] := by
  decide

/-- `gracefulRestart` from the middle of the initial query, with a transaction that arrived during it -/
example :
    let s := run init [.write [(1, some 1)], .mkdir, .create, .write [(1, some 2), (2, some 5)]]
    let r := run s gracefulRestart
    s.served = true ∧ s.state = some .created ∧ r.served = true ∧ r.sid = s.sid ∧
    r.rows 1 = some 2 ∧ r.rows 2 = some 5 ∧ r.log = [2, 1] := by
  decide

/-- `gracefulRestartOvertaken` from the middle of the initial query -/
example :
    let s := run init [.write [(1, some 1)], .mkdir, .create, .write [(2, some 5)]]
    let r := run s gracefulRestartOvertaken
    s.state = some .created ∧ r.served = true ∧ r.sid = s.sid ∧ r.rows 1 = some 1 ∧ r.rows 2 = some 5 := by
  decide

/-- abrupt stops at each phase: directory without `meta`, `created`, `running` with work waiting,
draining — all removed, and a later subscription gets a new id -/
example :
    (run init [.mkdir, .stop, .restart]).dir = false ∧
    (run init [.mkdir, .create, .stop, .restart]).dir = false ∧
    (run init [.mkdir, .create, .initialDone, .write [(1, some 1)], .stop, .restart]).dir = false ∧
    (run init [.mkdir, .create, .initialDone, .trip, .ack, .write [(1, some 1)], .stop, .restart]).served = false ∧
    (run init [.mkdir, .create, .initialDone, .stop, .restart, .mkdir, .create]).sid = 2 := by
  decide

end Corro.SubLife
