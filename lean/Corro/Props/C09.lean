/-
C09 — binary codecs round-trip every value and survive arbitrary peer bytes.
Property theorems only.  Models: `Corro/Model/Pack.lean` (packed primary keys),
`Corro/Model/Codec.lean` (speedy wire codecs).  Helper lemmas: `Corro/Lemmas/Pack.lean`,
`Corro/Lemmas/Codec.lean`.
-/
import Corro.Lemmas.Pack

namespace Corro.Pack

/-! ## Packed primary keys (`pack_columns` / `unpack_columns`) -/

/-- **C09 "every packed primary key decodes back to the value that was encoded".**
For every list of at most 255 columns, each Null / any `i64` (negative ones, `i64::MIN`, `i64::MAX`
included) / any `f64` bit pattern (NaNs included) / text / blob shorter than 2³¹ bytes: packing
succeeds and unpacking the packed bytes — even when followed by arbitrary trailing bytes — gives back
exactly the list. -/
theorem unpack_pack (vs : List Val) (hn : vs.length ≤ 255) (hwf : ∀ v ∈ vs, WFVal v) :
    ∃ bs, pack vs = .ok bs ∧ ∀ extra, unpack (bs ++ extra) = .ok vs := by
  refine ⟨UInt8.ofNat vs.length :: packVals vs, by simp [pack, hn], ?_⟩
  intro extra
  have hl : (UInt8.ofNat vs.length).toNat = vs.length := by
    simp only [UInt8.toNat_ofNat']; omega
  simp only [List.cons_append, unpack, hl]
  exact unpackCols_packVals vs extra hwf

/-- More than 255 columns cannot be packed: `PackError::Abort`, not a wrapped count. -/
theorem pack_too_many (vs : List Val) (hn : 255 < vs.length) : pack vs = .error .abort := by
  simp [pack]; omega

/-- **C09 "decoding arbitrary bytes returns a value or an error".**  `unpack` is a total function
into `Except` (no partiality, no fuel running out): every byte string is mapped to `ok` or to one of
the two error kinds. -/
theorem unpack_total (bs : Bytes) :
    (∃ vs, unpack bs = .ok vs) ∨ unpack bs = .error .abort ∨ unpack bs = .error .misuse := by
  cases h : unpack bs with
  | ok vs => exact .inl ⟨vs, rfl⟩
  | error e => cases e <;> simp

/-- **C09 "never allocates memory unrelated to the input size" (packed keys).**  Whatever the
length fields inside the input claim, a successful unpack yields at most 255 values whose payloads
together (1 byte per value + text/blob bytes + 8 per real) fit inside the input. -/
theorem unpack_consumes_bounded (bs : Bytes) (vs : List Val) (h : unpack bs = .ok vs) :
    weights vs + 1 ≤ bs.length ∧ vs.length ≤ 255 := by
  cases bs with
  | nil => simp [unpack] at h
  | cons n bs =>
    simp only [unpack] at h
    have := unpackCols_len _ _ _ h
    have hn := UInt8.toNat_lt n
    simp only [List.length_cons]
    omega

/-- **C09 "byte-compatible with the extension's packing" (format half; the extension itself is
compared differentially).**  An integer column is the type byte `k << 3 | 1` followed by the `k`
low bytes of the two's complement pattern, big-endian, where `k` is minimal: the pattern fits in
`k` bytes and does not fit in `k - 1`.  In particular negative numbers take 8 bytes and 0 takes
none. -/
theorem pack_int_minimal (v : Int) :
    let n := pat64 v
    let k := numBytes64 n
    packVal (.int v) = UInt8.ofNat (k * 8 + 1) :: beBytes k n ∧
      k ≤ 8 ∧ n < 256 ^ k ∧ (0 < k → 256 ^ (k - 1) ≤ n) := by
  exact ⟨rfl, numBytes64_le _, numBytes64_spec _ (pat64_lt v),
    numBytes64_minimal _ (pat64_lt v)⟩

/-- Text and blob columns: type byte `k << 3 | 3` (text) or `| 4` (blob), the length in `k ≤ 4`
minimal big-endian bytes, then the payload unchanged. -/
theorem pack_payload_layout (p : Bytes) (h : p.length < 2147483648) :
    let k := numBytes32 p.length
    packVal (.text p) = UInt8.ofNat (k * 8 + 3) :: (beBytes k p.length ++ p) ∧
    packVal (.blob p) = UInt8.ofNat (k * 8 + 4) :: (beBytes k p.length ++ p) ∧
    k ≤ 4 ∧ p.length < 256 ^ k := by
  have hm : p.length % 4294967296 = p.length := by omega
  refine ⟨by simp [packVal, packLen, hm], by simp [packVal, packLen, hm], numBytes32_le _,
    numBytes32_spec _ (by omega)⟩

/-! ### the hypotheses are satisfiable; concrete extreme values -/

example : WFVal (.int (-9223372036854775808)) ∧ WFVal (.int 9223372036854775807) ∧
    WFVal (.real 0x7ff8000000000001) ∧ WFVal (.text [0x68, 0x69]) ∧ WFVal (.blob []) := by decide

example : pack [.null, .int (-1), .int 0, .int 128, .text [0x68, 0x69]]
    = .ok [5, 5, 0x41, 255, 255, 255, 255, 255, 255, 255, 255, 0x01, 0x09, 128, 0x0b, 2, 0x68, 0x69] := by
  decide

example : unpack [3, 0x41, 0x80, 0, 0, 0, 0, 0, 0, 0, 0x09, 0xff, 0x01]
    = .ok [.int (-9223372036854775808), .int 255, .int 0] := by decide

/-- hostile headers: empty input, a truncated column, `intlen > 8`, an unknown type, a length
field of 2⁶⁴−1. -/
example : unpack [] = .error .abort ∧ unpack [1] = .error .abort ∧
    unpack [1, 0x49] = .error .misuse ∧ unpack [1, 0x07] = .error .misuse ∧
    unpack [1, 0x44, 255, 255, 255, 255, 255, 255, 255, 255, 1, 2] = .error .abort := by decide

end Corro.Pack
