/-
C09 — binary codecs round-trip every value and survive arbitrary peer bytes.
Property theorems only.  Models: `Corro/Model/Pack.lean` (packed primary keys),
`Corro/Model/Codec.lean` (speedy wire codecs).  Helper lemmas: `Corro/Lemmas/Pack.lean`,
`Corro/Lemmas/Codec.lean`.
-/
import Corro.Lemmas.Pack
import Corro.Lemmas.Codec

namespace Corro.Pack

/-! ## Packed primary keys (`pack_columns` / `unpack_columns`) -/

/-- **C09 "every packed primary key decodes back to the value that was encoded".**
For every list of at most 255 columns, each Null / any `i64` (negative ones, `i64::MIN`, `i64::MAX`
included) / any `f64` bit pattern (NaNs included) / text / blob shorter than 2³¹ bytes: packing
succeeds and unpacking the packed bytes — even when followed by arbitrary trailing bytes — gives back
exactly the list. -/
theorem unpack_pack (vs : List Val) (hn : vs.length ≤ 255) (hwf : ∀ v ∈ vs, WFVal v) :
    ∃ bs, pack vs = .ok bs ∧ ∀ extra, unpack (bs ++ extra) = .ok vs := by
  refine ⟨UInt8.ofNat vs.length :: packVals vs, by simp [pack, hn], ?_⟩
  intro extra
  have hl : (UInt8.ofNat vs.length).toNat = vs.length := by
    simp only [UInt8.toNat_ofNat']; omega
  simp only [List.cons_append, unpack, hl]
  exact unpackCols_packVals vs extra hwf

/-- More than 255 columns cannot be packed: `PackError::Abort`, not a wrapped count. -/
theorem pack_too_many (vs : List Val) (hn : 255 < vs.length) : pack vs = .error .abort := by
  simp [pack]; omega

/-- **C09 "decoding arbitrary bytes returns a value or an error".**  `unpack` is a total function
into `Except` (no partiality, no fuel running out): every byte string is mapped to `ok` or to one of
the two error kinds. -/
theorem unpack_total (bs : Bytes) :
    (∃ vs, unpack bs = .ok vs) ∨ unpack bs = .error .abort ∨ unpack bs = .error .misuse := by
  cases h : unpack bs with
  | ok vs => exact .inl ⟨vs, rfl⟩
  | error e => cases e <;> simp

/-- **C09 "never allocates memory unrelated to the input size" (packed keys).**  Whatever the
length fields inside the input claim, a successful unpack yields at most 255 values whose payloads
together (1 byte per value + text/blob bytes + 8 per real) fit inside the input. -/
theorem unpack_consumes_bounded (bs : Bytes) (vs : List Val) (h : unpack bs = .ok vs) :
    weights vs + 1 ≤ bs.length ∧ vs.length ≤ 255 := by
  cases bs with
  | nil => simp [unpack] at h
  | cons n bs =>
    simp only [unpack] at h
    have := unpackCols_len _ _ _ h
    have hn := UInt8.toNat_lt n
    simp only [List.length_cons]
    omega

/-- **C09 "byte-compatible with the extension's packing" (format half; the extension itself is
compared differentially).**  An integer column is the type byte `k << 3 | 1` followed by the `k`
low bytes of the two's complement pattern, big-endian, where `k` is minimal: the pattern fits in
`k` bytes and does not fit in `k - 1`.  In particular negative numbers take 8 bytes and 0 takes
none. -/
theorem pack_int_minimal (v : Int) :
    let n := pat64 v
    let k := numBytes64 n
    packVal (.int v) = UInt8.ofNat (k * 8 + 1) :: beBytes k n ∧
      k ≤ 8 ∧ n < 256 ^ k ∧ (0 < k → 256 ^ (k - 1) ≤ n) := by
  exact ⟨rfl, numBytes64_le _, numBytes64_spec _ (pat64_lt v),
    numBytes64_minimal _ (pat64_lt v)⟩

/-- Text and blob columns: type byte `k << 3 | 3` (text) or `| 4` (blob), the length in `k ≤ 4`
minimal big-endian bytes, then the payload unchanged. -/
theorem pack_payload_layout (p : Bytes) (h : p.length < 2147483648) :
    let k := numBytes32 p.length
    packVal (.text p) = UInt8.ofNat (k * 8 + 3) :: (beBytes k p.length ++ p) ∧
    packVal (.blob p) = UInt8.ofNat (k * 8 + 4) :: (beBytes k p.length ++ p) ∧
    k ≤ 4 ∧ p.length < 256 ^ k := by
  have hm : p.length % 4294967296 = p.length := by omega
  refine ⟨by simp [packVal, packLen, hm], by simp [packVal, packLen, hm], numBytes32_le _,
    numBytes32_spec _ (by omega)⟩

/-! ### the hypotheses are satisfiable; concrete extreme values -/

example : WFVal (.int (-9223372036854775808)) ∧ WFVal (.int 9223372036854775807) ∧
    WFVal (.real 0x7ff8000000000001) ∧ WFVal (.text [0x68, 0x69]) ∧ WFVal (.blob []) := by decide

example : pack [.null, .int (-1), .int 0, .int 128, .text [0x68, 0x69]]
    = .ok [5, 5, 0x41, 255, 255, 255, 255, 255, 255, 255, 255, 0x01, 0x09, 128, 0x0b, 2, 0x68, 0x69] := by
  decide

example : unpack [3, 0x41, 0x80, 0, 0, 0, 0, 0, 0, 0, 0x09, 0xff, 0x01]
    = .ok [.int (-9223372036854775808), .int 255, .int 0] := by decide

/-- hostile headers: empty input, a truncated column, `intlen > 8`, an unknown type, a length
field of 2⁶⁴−1. -/
example : unpack [] = .error .abort ∧ unpack [1] = .error .abort ∧
    unpack [1, 0x49] = .error .misuse ∧ unpack [1, 0x07] = .error .misuse ∧
    unpack [1, 0x44, 255, 255, 255, 255, 255, 255, 255, 255, 1, 2] = .error .abort := by decide

end Corro.Pack

namespace Corro.Codec
open Corro.Pack (Bytes Val validUtf8)

/-! ## speedy wire codecs

`Dec.run d bs = (result, rest)`: the value or error and the reader position.  All `decode_encode_*`
theorems have the form `Dec.run dec (enc m ++ rest) = (.ok m, rest)`: decoding the encoding gives the
value back and consumes exactly the encoding, whatever follows it (speedy ignores trailing bytes).
Well-formedness (`WF…`, defined next to the model): numbers fit their wire width, lengths fit their
length field, ids are 16 bytes, text satisfies the executable check `validUtf8` — ASSUMED to accept
exactly what `str::from_utf8` accepts (compared differentially on every run). `HashMap` fields are
association lists in wire order. -/

/-- **C09 round trip, leaves**: `Timestamp`, `CrsqlDbVersion`, `CrsqlSeq` (any `u64`), `ClusterId` (any
`u16`), `ActorId` (16 bytes). -/
theorem decode_encode_leaves (rest : Bytes) :
    (∀ n, U64 n → Dec.run u64 (encU64 n ++ rest) = (.ok n, rest)) ∧
    (∀ n, n < 65536 → Dec.run u16 (encU16 n ++ rest) = (.ok n, rest)) ∧
    (∀ a, WFActor a → Dec.run actor (a ++ rest) = (.ok a, rest)) :=
  ⟨fun n h => run_u64 n rest h, fun n h => run_u16 n rest h, fun a h => run_actor a rest h⟩

/-- **C09 round trip, `SqliteValue`**: Null, any `i64`, any `f64` bit pattern (NaN included), valid
text and blobs shorter than 2³² bytes. -/
theorem decode_encode_sqlitevalue (v : Val) (rest : Bytes) (h : WFWireVal v) :
    Dec.run sqliteValue (encSqliteValue v ++ rest) = (.ok v, rest) := run_sqliteValue v rest h

/-- **C09 round trip, `Change`** (derived codec). -/
theorem decode_encode_change (c : Change) (rest : Bytes) (h : WFChange c) :
    Dec.run change (encChange c ++ rest) = (.ok c, rest) := run_change c rest h

/-- **C09 round trip, `Changeset`** (hand-written): all three variants, any number of changes below
2³², any number of version ranges. -/
theorem decode_encode_changeset (c : Changeset) (rest : Bytes) (h : WFChangeset c) :
    Dec.run changeset (encChangeset c ++ rest) = (.ok c, rest) := run_changeset c rest h

/-- **C09 round trip, `ChangeV1`**. -/
theorem decode_encode_changev1 (c : ChangeV1) (rest : Bytes) (h : WFChangeV1 c) :
    Dec.run changeV1 (encChangeV1 c ++ rest) = (.ok c, rest) := run_changeV1 c rest h

/-- **C09 round trip, `SyncNeedV1`** (hand-written): Full, Partial, Empty. -/
theorem decode_encode_syncneed (n : SyncNeed) (rest : Bytes) (h : WFSyncNeed n) :
    Dec.run syncNeed (encSyncNeed n ++ rest) = (.ok n, rest) := run_syncNeed n rest h

/-- **C09 round trip, `SyncStateV1`** (hand-written; maps as association lists in wire order). -/
theorem decode_encode_syncstate (s : SyncState) (rest : Bytes) (h : WFSyncState s) :
    Dec.run syncState (encSyncState s ++ rest) = (.ok s, rest) := run_syncState s rest h

/-- **C09 round trip, `UniPayload`** (what `uni.rs:64` decodes). -/
theorem decode_encode_unipayload (u : UniPayload) (rest : Bytes) (h : WFUniPayload u) :
    Dec.run uniPayload (encUniPayload u ++ rest) = (.ok u, rest) := run_uniPayload u rest h

/-- **C09 round trip, `BiPayload`** (what `bi.rs:77` decodes), trace context included. -/
theorem decode_encode_bipayload (b : BiPayload) (rest : Bytes) (h : WFBiPayload b) :
    Dec.run biPayload (encBiPayload b ++ rest) = (.ok b, rest) := run_biPayload b rest h

/-- **C09 round trip, `SyncMessage`** (`SyncMessage::from_buf`): State, Changeset, Clock, Rejection,
Request. -/
theorem decode_encode_syncmessage (m : SyncMsg) (rest : Bytes) (h : WFSyncMsg m) :
    Dec.run syncMsg (encSyncMsg m ++ rest) = (.ok m, rest) := run_syncMsg m rest h

/-! ### `#[speedy(default_on_eof)]` -/

theorem run_u16_short (bs : Bytes) (h : bs.length < 2) : Dec.run u16 bs = (.error .eof, bs) := by
  simp [u16, uN, Dec.run, bind_def, take, h]

/-- **`default_on_eof` on `cluster_id`**: a `UniPayload` frame that ends right before `cluster_id`
(what a peer that predates the field sends) decodes, with cluster 0 — and so does a frame with a single
stray byte there, which is left unread. -/
theorem default_on_eof_cluster (c : ChangeV1) (h : WFChangeV1 c) (stray : Bytes)
    (hs : stray.length < 2) :
    Dec.run uniPayload (encUniData c ++ stray) = (.ok ⟨c, 0⟩, stray) := by
  have hc := run_defaultOnEof_eof u16 0 stray stray (run_u16_short stray hs)
  simp only [uniPayload, encUniData, List.append_assoc, run_bind, run_tag0, run_changeV1 _ _ h, hc,
    run_pure]

/-- the same for `BiPayload`: a frame that ends after `actor_id` decodes with an empty trace context
and cluster 0. -/
theorem default_on_eof_bipayload (a : Bytes) (h : WFActor a) :
    Dec.run biPayload (encU32 0 ++ encU32 0 ++ a) = (.ok ⟨a, ⟨none, none⟩, 0⟩, []) := by
  have ha := run_actor a [] h
  rw [List.append_nil] at ha
  have ht : Dec.run (defaultOnEof traceCtx ⟨none, none⟩) [] = (.ok ⟨none, none⟩, []) :=
    run_defaultOnEof_eof traceCtx _ [] [] (by
      simp [traceCtx, opt, u8, uN, Dec.run, bind_def, take])
  have hc := run_defaultOnEof_eof u16 0 [] [] (run_u16_short [] (by simp))
  simp only [biPayload, List.append_assoc, run_bind, run_tag0, ha, ht, hc, run_pure]

/-! ### "never allocates memory unrelated to the input size"

`(d bs).alloc` is what the decoder books while reading `bs`, on the success AND on the error path:
for every reservation made from a length field (`Vec::with_capacity`, `HashMap::with_capacity`,
`read_vec`), the number of input bytes that the guard in front of it demanded (`elements × minimum
encoded element size`).  The memory reserved is at most 18 bytes per booked byte (largest ratio:
`Change`, 648 bytes in memory per 37 guaranteed bytes of input; `SyncNeedV1` 32 per 2).  So the bound
`alloc ≤ 4 · len` means: at most `72 · len` bytes are reserved up front, whatever the length fields
claim (up to 2⁶⁴−1). -/

/-- **C09 allocation bound, `UniPayload`.** -/
theorem decode_alloc_bound_unipayload (bs : Bytes) : (uniPayload bs).alloc ≤ 2 * bs.length :=
  good_alloc_le (by omega) good_uniPayload bs

/-- **C09 allocation bound, `BiPayload`.** -/
theorem decode_alloc_bound_bipayload (bs : Bytes) : (biPayload bs).alloc ≤ 2 * bs.length :=
  good_alloc_le (by omega) good_biPayload bs

/-- **C09 allocation bound, `SyncMessage`** — with `SyncNeedV1::minimum_bytes_needed() = 2` as the
code now declares it. -/
theorem decode_alloc_bound_syncmessage (bs : Bytes) : (syncMsg bs).alloc ≤ 4 * bs.length :=
  good_alloc_le (by omega) (good_syncMsgP syncNeedMinBytes (by decide) (by decide)) bs

/-- **C09 allocation bound, the hand-written readers on their own** (`Changeset`, `SyncStateV1`,
`SyncNeedV1`) and `SqliteValue`, `Change`. -/
theorem decode_alloc_bound_parts (bs : Bytes) :
    (changeset bs).alloc ≤ 2 * bs.length ∧ (syncState bs).alloc ≤ 4 * bs.length ∧
    (syncNeed bs).alloc ≤ 2 * bs.length ∧ (sqliteValue bs).alloc ≤ bs.length ∧
    (change bs).alloc ≤ bs.length := by
  refine ⟨good_alloc_le (by omega) good_changeset bs, good_alloc_le (by omega) good_syncState bs,
    good_alloc_le (by omega) good_syncNeed bs, ?_, ?_⟩
  · simpa using good_alloc_le (Nat.le_refl 1) (good_sqliteValue 1 (Nat.le_refl 1)) bs
  · simpa using good_alloc_le (Nat.le_refl 1) (good_change 1 (Nat.le_refl 1)) bs

/-- on success nothing is booked that was not consumed: booked + unread ≤ input. -/
theorem decode_alloc_consumed (bs : Bytes) (m : SyncMsg) (h : (syncMsg bs).val = .ok m) :
    (syncMsg bs).alloc + (syncMsg bs).rest.length ≤ bs.length := by
  have := good_syncMsgP syncNeedMinBytes (by decide) (by decide) bs
  simp only [syncMsg] at h
  simp only [h] at this
  simp only [syncMsg]; omega

/-- the 32-byte frame `SyncMessage::V1(Request([(actor, <4294967295 needs>)]))` -/
def hostileRequestFrame : Bytes :=
  [0, 0, 0, 0, 4, 0, 0, 0, 1, 0, 0, 0,
   1, 2, 3, 4, 5, 6, 7, 8, 9, 10, 11, 12, 13, 14, 15, 16, 255, 255, 255, 255]

/-- **Why `SyncNeedV1` has to declare its minimum size** (the defect fixed by commit 756fff2): with
speedy's default `minimum_bytes_needed() = 0` the guard of `Vec<SyncNeedV1>` is vacuous and this
32-byte frame books 4 294 967 295 elements (× 32 bytes = 128 GiB: the real process aborted) on top of
the 20 bytes of the outer entry before failing with EOF — no bound of the form `c · len` holds. -/
theorem syncmessage_alloc_unguarded_counterexample :
    (syncMsgP 0 hostileRequestFrame).alloc = 20 + 4294967295 ∧
    (syncMsgP 0 hostileRequestFrame).val = .error .eof := by
  decide

/-- with the declared minimum the same frame is refused before the inner vector is booked (the 20
booked bytes are the outer entry, which is really there). -/
theorem hostile_request_frame_refused :
    (syncMsg hostileRequestFrame).alloc = 20 ∧ (syncMsg hostileRequestFrame).val = .error .eof := by
  decide

/-! ### "never yields text that is not valid UTF-8" -/

/-- **C09 text validity**: whatever the input, a decoded `SqliteValue::Text`, a decoded table or column
name, every change of a decoded changeset and a decoded trace context string pass the UTF-8 check. -/
theorem decode_text_valid (bs r : Bytes) :
    (∀ v, Dec.run sqliteValue bs = (.ok v, r) → ValTextValid v) ∧
    (∀ c, Dec.run change bs = (.ok c, r) → ChangeTextValid c) ∧
    (∀ c, Dec.run changeset bs = (.ok c, r) → ChangesetTextValid c) ∧
    (∀ c, Dec.run changeV1 bs = (.ok c, r) → ChangesetTextValid c.changeset) ∧
    (∀ o, Dec.run (opt str) bs = (.ok o, r) → OptTextValid o) :=
  ⟨fun _ h => sqliteValue_valid h, fun _ h => change_valid h, fun _ h => changeset_valid h,
    fun _ h => changeV1_valid h, fun _ h => optStr_valid h⟩

/-! ### the hypotheses are satisfiable; concrete frames -/

def exActor : Bytes := [1, 2, 3, 4, 5, 6, 7, 8, 9, 10, 11, 12, 13, 14, 15, 16]

def exChange : Change :=
  ⟨[0x74], [1, 9, 5], [0x63], .int (-9223372036854775808), 1, 2, 0, exActor, 1⟩

example : WFChange exChange := by
  simp only [WFChange, WFText, Len32, WFWireVal, I64, U64, exChange, exActor]; decide

example : WFUniPayload ⟨⟨exActor, .full 7 [exChange] (0, 0) 0 99⟩, 3⟩ := by
  simp only [WFUniPayload, WFChangeV1, WFChangeset, WFActor, WFRange, List.mem_singleton, forall_eq,
    WFChange, WFText, Len32, WFWireVal, I64, U64, exChange, exActor]; decide

example : WFSyncNeed (.part 3 [(0, 5), (9, 18446744073709551615)]) := by
  simp only [WFSyncNeed, WFRanges, WFRange, U64, List.mem_cons, List.mem_nil_iff, or_false,
    forall_eq_or_imp, forall_eq]; decide

example : WFBiPayload ⟨exActor, ⟨some [0x30, 0x30], none⟩, 65535⟩ := by
  simp only [WFBiPayload, WFActor, WFTraceCtx, WFOptText, WFText, exActor]; decide

example : Dec.run sqliteValue [3, 2, 0, 0, 0, 0xc3, 0x28] = (.error .invalid, []) := by decide

example : Dec.run changeset [9] = (.error .invalid, []) ∧
    Dec.run changeset [2, 255, 255, 255, 255, 255, 255, 255, 255] = (.error .invalid, []) := by decide

end Corro.Codec
