/-
C20 — database writers are mutually exclusive, prioritised and never deadlock.
Property theorems only.  Models: `Corro/Model/WritePool.lean` (admission protocol of `SplitPool`),
`Corro/Model/LockOrder.lean` (tasks as acquisition programs).  Tables regenerated from the source on
every run: `Corro/Gen/LockPrograms.lean` (`poolCfg`, `programs`).

Quantifier of the property: every interleaving of any number of requests of the three classes,
including requesters cancelled (or timed out) while queued or while holding; every interleaving of
any number of tasks running the agent's acquisition programs.
-/
import Corro.Lemmas.WritePool
import Corro.Lemmas.LockOrder
import Corro.Gen.LockPrograms

namespace Corro.WritePool

/-! ## "At most one write connection is handed out at any time" -/

/-- **C20, sentence 1.** In every reachable state of every interleaving (any number of requesters,
cancellations and timeouts at any point, whatever the pool and semaphore sizes) two requesters that
own the pooled write connection are the same requester. -/
theorem at_most_one_writer {cfg : Cfg} {s : State} (hr : Reachable cfg s) {r1 r2 : Nat}
    (h1 : (s.phase r1).holdsConn = true) (h2 : (s.phase r2).holdsConn = true) : r1 = r2 :=
  (inv_reachable hr).guard_unique (holdsConn_hasGuardTok h1) (holdsConn_hasGuardTok h2)

/-- Second line of defence, independent of the guard hand-off: the pool never has more connections
out than its size and the semaphore never more permits than it has; with the extracted sizes
(`max_size(1)`, `Semaphore::new(1)`) that is at most one of each. -/
theorem within_pool_and_permits {cfg : Cfg} {s : State} (hr : Reachable cfg s) :
    s.connsOut ≤ cfg.poolSize ∧ s.permitsOut ≤ cfg.permits := by
  induction hr with
  | init => simp [init]
  | step a _ hs ih => exact bounds_step a ih hs

/-! ## "a waiting client-priority request is served before waiting sync or background requests" -/

/-- **C20, sentence 1 (priority).** Whenever the dispatcher hands off (its `select!` completes with
branch `p`): if the priority queue is non-empty then `p` is the priority queue; if it is empty and the
normal queue is not, `p` is the normal queue (normal before low); the request served is the **head**
of that queue (FIFO inside a class: `enqueue` appends at the tail), no other queue is touched; a live
head gets the guard and the dispatcher waits for it; a dead head (requester gone while queued: the
`send` fails) is discarded and the dispatcher stays in its `select!`. -/
theorem priority_first {cfg : Cfg} (hv : cfg.Valid) {s s' : State} {p : Prio}
    (hs : step cfg s (.dispatch p) = some s') :
    (s.q .priority ≠ [] → p = .priority) ∧
    (s.q .priority = [] → s.q .normal ≠ [] → p = .normal) ∧
    ∃ r rest, s.q p = r :: rest ∧ s'.q p = rest ∧ (∀ p', p' ≠ p → s'.q p' = s.q p') ∧
      (s.phase r = .queued → s'.disp = some r ∧ s'.phase r = .granted) ∧
      (s.phase r ≠ .queued → s'.disp = none ∧ s'.phase = s.phase) := by
  obtain ⟨hb, ho, _, _⟩ := hv
  simp only [step, selectable, hb, ho, if_true, Bool.and_eq_true, beq_iff_eq] at hs
  split at hs
  · rename_i hen
    have hnone : s.disp = none := by
      cases hd : s.disp <;> simp_all
    have hf := firstNonEmpty_std s.q p hen.2
    refine ⟨hf.2.1, hf.2.2.1, ?_⟩
    split at hs
    · cases hs
    · rename_i r rest hq
      refine ⟨r, rest, hq, ?_⟩
      split at hs
      · rename_i hph
        cases hs
        refine ⟨by simp [setPhase, setQ], ?_, ?_, ?_⟩
        · intro p' hp'; simp [setPhase, setQ, hp']
        · intro _; simp [setPhase, setQ]
        · intro h; exact absurd hph h
      · rename_i hph
        cases hs
        refine ⟨by simp [setQ], ?_, ?_, ?_⟩
        · intro p' hp'; simp [setQ, hp']
        · intro h; exact absurd h hph
        · intro _; exact ⟨by simpa [setQ] using hnone, by simp [setQ]⟩
  · cases hs

/-- FIFO inside a class: a new request goes to the tail of its queue and nowhere else. -/
theorem enqueue_at_tail {cfg : Cfg} {s s' : State} {r : Nat} {p : Prio}
    (hs : step cfg s (.enqueue r p) = some s') :
    s'.q p = s.q p ++ [r] ∧ ∀ p', p' ≠ p → s'.q p' = s.q p' := by
  simp only [step] at hs
  split at hs
  · cases hs
    exact ⟨by simp [setPhase, setQ], fun p' hp' => by simp [setPhase, setQ, hp']⟩
  · cases hs

/-! ## "no combination … can block forever": the hand-off is never lost -/

/-- **C20, sentence 2 (hand-off).** In every reachable state in which some live request is waiting in
a queue, a step of the system itself is enabled — the dispatcher can take a queue head (dead heads
are discarded on the spot), or it can leave `wait_conn_drop` because the guard it waits for is gone,
or the requester it waits for can take its next step / release.  Cancellations and timeouts at any
point (queued, guard in flight, guard held, connection held, `WriteConn` held) never leave the
dispatcher waiting for a guard that nobody owns.  New requests, cancellations, timeouts and outside
permit grabs are not counted as system steps. -/
theorem no_lost_handoff {cfg : Cfg} (hv : cfg.Valid) {s : State} (hr : Reachable cfg s)
    (hq : ∃ r, s.phase r = .queued) :
    ∃ a s', a.isProgress = true ∧ step cfg s a = some s' := by
  have inv := inv_reachable hr
  obtain ⟨hb, ho, hp1, hs1⟩ := hv
  obtain ⟨r, hrq⟩ := hq
  cases hd : s.disp with
  | none =>
    obtain ⟨p, hp⟩ := inv.queued_in_q r hrq
    have hne : s.q p ≠ [] := by intro e; rw [e] at hp; cases hp
    obtain ⟨p0, hp0⟩ := firstNonEmpty_std_some s.q p hne
    have hf := firstNonEmpty_std s.q p0 hp0
    obtain ⟨s', hs'⟩ := dispatch_enabled hb hd (by rw [ho]; exact hp0) hf.1
    exact ⟨.dispatch p0, s', rfl, hs'⟩
  | some r0 =>
    have hst := inv.disp_started r0 hd
    cases hph : s.phase r0 with
    | idle => exact absurd hph hst.1
    | queued => exact absurd hph hst.2
    | granted => exact ⟨.recvGuard r0, setPhase s r0 .hasGuard, rfl, by simp [step, hph]⟩
    | hasGuard =>
      -- the pooled connection is free: a holder would own the guard, which `r0` owns
      have hfree : s.connsOut = 0 := by
        apply inv.conns0
        intro r'
        cases hc : (s.phase r').holdsConn
        · rfl
        · have := inv.guard_unique (holdsConn_hasGuardTok hc) (r2 := r0) (by simp [hph, Phase.hasGuardTok])
          subst this; simp [hph, Phase.holdsConn] at hc
      exact ⟨.takeConn r0, { setPhase s r0 .hasConn with connsOut := s.connsOut + 1 }, rfl,
        by simp [step, hph, hfree, hp1]⟩
    | hasConn =>
      have hnoh : ∀ r', s.phase r' ≠ .holding := by
        intro r' hc
        have := inv.guard_unique (r1 := r') (r2 := r0) (by simp [hc, Phase.hasGuardTok]) (by simp [hph, Phase.hasGuardTok])
        subst this; rw [hph] at hc; cases hc
      have hpe := inv.perm0 hnoh
      by_cases hext : s.ext = 0
      · exact ⟨.takePermit r0, { setPhase s r0 .holding with permitsOut := s.permitsOut + 1 }, rfl,
          by simp [step, hph, hpe, hext, hs1]⟩
      · exact ⟨.extRelease, { s with permitsOut := s.permitsOut - 1, ext := s.ext - 1 }, rfl,
          by simp [step, Nat.pos_of_ne_zero hext]⟩
    | holding => exact ⟨.release r0, dropEffect s r0, rfl, by simp [step, hph]⟩
    | gone => exact ⟨.wake, { s with disp := none }, rfl, by simp [step, hd, hph, Phase.hasGuardTok]⟩

/-- The same, read as "the system is never stuck while a live request is queued". -/
theorem never_stuck_while_queued {cfg : Cfg} (hv : cfg.Valid) {s : State} (hr : Reachable cfg s)
    (hq : ∃ r, s.phase r = .queued) : ¬ ∀ a, a.isProgress = true → step cfg s a = none := by
  intro hall
  obtain ⟨a, s', ha, hs⟩ := no_lost_handoff hv hr hq
  rw [hall a ha] at hs
  cases hs

/-- **What happens to a queued request whose requester has gone away** (cancelled or timed out while
queued): when it reaches the head and is taken, it is discarded, the dispatcher does not wait for it,
and the queue got shorter — so finitely many dead entries cannot delay a live one for ever. -/
theorem dead_entry_discarded {cfg : Cfg} {s s' : State} {p : Prio} {r : Nat} {rest : List Nat}
    (hs : step cfg s (.dispatch p) = some s') (hq : s.q p = r :: rest) (hdead : s.phase r ≠ .queued) :
    s'.disp = none ∧ s'.q p = rest ∧ totalQueued s' + 1 = totalQueued s := by
  simp only [step] at hs
  split at hs
  · rename_i hen
    have hnone : s.disp = none := by
      cases hd : s.disp <;> simp_all
    rw [hq] at hs
    simp only [hdead, if_false] at hs
    cases hs
    exact ⟨by simpa [setQ] using hnone, by simp [setQ], totalQueued_pop hq⟩
  · cases hs

/-- **No livelock of the hand-off.** Every system step strictly decreases `measure`
(7 × queued entries + how far the currently served requester is from having released + outside
permits), so between two actions of the environment the system makes at most `measure s` steps;
together with `no_lost_handoff` every live queued request is reached after finitely many steps. -/
theorem progress_decreases_measure {cfg : Cfg} {s s' : State} (hr : Reachable cfg s) {a : Action}
    (ha : a.isProgress = true) (hs : step cfg s a = some s') : measure s' < measure s := by
  have inv := inv_reachable hr
  cases a <;> simp only [Action.isProgress] at ha <;> try cases ha
  case dispatch p =>
    simp only [step] at hs
    split at hs
    · rename_i hen
      have hnone : s.disp = none := by
        cases hd : s.disp <;> simp_all
      split at hs
      · cases hs
      · rename_i r rest hq
        have hpop := totalQueued_pop hq
        have h0 : dispRank s = 0 := by simp [dispRank, hnone]
        split at hs
        · cases hs
          have hq' : totalQueued { setPhase (setQ s p rest) r Phase.granted with disp := some r } =
              totalQueued (setQ s p rest) := rfl
          have hd' : dispRank { setPhase (setQ s p rest) r Phase.granted with disp := some r } = 5 := by
            simp [dispRank, setPhase, phaseRank]
          have he' : ({ setPhase (setQ s p rest) r Phase.granted with disp := some r } : State).ext =
              s.ext := rfl
          unfold measure
          rw [hq', hd', he', h0]
          omega
        · cases hs
          have hd' : dispRank (setQ s p rest) = 0 := by simp [dispRank, setQ, hnone]
          have he' : (setQ s p rest).ext = s.ext := rfl
          unfold measure
          rw [hd', he', h0]
          omega
    · cases hs
  case wake =>
    simp only [step] at hs
    split at hs
    · rename_i r0 hd
      split at hs
      · cases hs
      · rename_i hng
        cases hs
        simp only [measure, dispRank, hd, totalQueued]
        have : 1 ≤ phaseRank (s.phase r0) := by cases s.phase r0 <;> simp [phaseRank]
        omega
    · cases hs
  case recvGuard r =>
    simp only [step] at hs
    split at hs
    · rename_i hph
      cases hs
      have hd := inv.guard_owner r (by simp [hph, Phase.hasGuardTok])
      simp only [measure, dispRank, hd, totalQueued, setPhase, if_true, hph, phaseRank]
      omega
    · cases hs
  case takeConn r =>
    simp only [step] at hs
    split at hs
    · rename_i hph
      cases hs
      have hd := inv.guard_owner r (by simp [hph.1, Phase.hasGuardTok])
      simp only [measure, dispRank, hd, totalQueued, setPhase, if_true, hph.1, phaseRank]
      omega
    · cases hs
  case takePermit r =>
    simp only [step] at hs
    split at hs
    · rename_i hph
      cases hs
      have hd := inv.guard_owner r (by simp [hph.1, Phase.hasGuardTok])
      simp only [measure, dispRank, hd, totalQueued, setPhase, if_true, hph.1, phaseRank]
      omega
    · cases hs
  case release r =>
    simp only [step] at hs
    split at hs
    · rename_i hph
      cases hs
      have hd := inv.guard_owner r (by simp [hph, Phase.hasGuardTok])
      simp only [measure, dispRank, hd, totalQueued, dropEffect, setPhase, if_true, hph, phaseRank]
      omega
    · cases hs
  case extRelease =>
    simp only [step] at hs
    split at hs
    · cases hs
      simp only [measure, dispRank, totalQueued]
      omega
    · cases hs

/-- The side conditions of the theorems hold for what the source says **now**: `biased;` is
present, the `select!` branches are priority, normal, low in that order, the write pool has
`max_size(1)`, `write_sema` is `Semaphore::new(1)` (re-extracted on every run). -/
theorem extracted_pool_cfg_valid : Corro.Gen.LockPrograms.poolCfg.Valid := by decide

/-! ### non-vacuity: a concrete schedule with a cancelled queued requester and a priority overtake -/

/-- requester 0 (low) is served; 1 (normal), 2 (low), 3 (priority) queue up; 1 is cancelled while
queued; 0 releases: 3 is served first (priority), then the dead entry of 1 is discarded and 2 is served. -/
def demo : List Action :=
  [.enqueue 0 .low, .dispatch .low, .recvGuard 0, .takeConn 0, .takePermit 0,
   .enqueue 1 .normal, .enqueue 2 .low, .enqueue 3 .priority, .cancel 1,
   .release 0, .wake, .dispatch .priority, .recvGuard 3, .takeConn 3, .takePermit 3,
   .release 3, .wake, .dispatch .normal, .dispatch .low, .recvGuard 2, .takeConn 2, .takePermit 2]

example : ((run Cfg.standard init demo).map fun s => (s.phase 0, s.phase 1, s.phase 2, s.phase 3, s.disp)) =
    some (.gone, .gone, .holding, .gone, some 2) := by decide
/-- out of priority order the dispatcher step is not enabled -/
example : ((run Cfg.standard init (demo.take 11)).bind fun s => step Cfg.standard s (.dispatch .low)).isNone = true := by
  decide
example : Reachable Cfg.standard init := Reachable.init
example : Cfg.standard.Valid := by decide

end Corro.WritePool

namespace Corro.LockOrder
open Corro.Gen.LockPrograms

/-! ## "no combination of the write connection … and the per-actor bookkeeping locks can block forever" -/

/-- **C20, sentence 2 (lock order, waits on bounded channels included).** Tasks are programs of
`acq`/`rel` over the write connection, the bookie lock, the per-actor booked locks (read or write
mode) and the agent's bounded channels (`chan c`: the consumer holds it while it processes an item, a
blocking send is `acq; rel` — see `Corro/Model/LockOrder.lean` for the abstraction and what it
assumes).  If every program follows the discipline `ordered rk` for one rank table `rk` — each
acquisition has a rank strictly above everything the task holds (so no task ever waits for a lower-
or equal-ranked resource while holding a higher-ranked one: in particular no task blocks on a channel
whose consumer needs something the task holds), and everything is released at the end — then in
**every** reachable state of **every** interleaving of any number of such tasks, some task can take a
step unless all tasks have finished.  Holds for every grant policy that grants a lock nobody else
holds: all acquisitions exclusive (`exclusive`, the pessimistic reading) as well as shared readers
(`readersWriter`).  Argument: a blocked task waits for a resource held by another task, whose next
acquisition has a strictly higher rank; ranks are bounded by the table, so the chain ends in a task
that can step. -/
theorem ordered_acquisition_deadlock_free (rk : Ranking) (pol : Policy) (progs : Nat → Prog)
    (hord : ∀ i, ordered rk [] (progs i) = true) (s : State)
    (hr : Reachable pol (initState progs) s) (hlive : ∃ i, (s i).rest ≠ []) :
    ∃ s', Step pol s s' := by
  have hinv : OrdInv rk s := ordInv_reachable (ordInv_init progs hord) hr
  apply Classical.byContradiction
  intro hno
  have stuck : ∀ s', ¬ Step pol s s' := fun s' st => hno ⟨s', st⟩
  obtain ⟨i, hi⟩ := hlive
  cases hrest : (s i).rest with
  | nil => exact hi hrest
  | cons op rest =>
    cases op with
    | rel k => exact stuck _ (Step.rel i k rest hrest)
    | acq k a m =>
      exact no_waiter_when_stuck hinv stuck (maxRank rk + 1) i k a m rest hrest (by omega)

/-- **The programs the code runs today follow the discipline**, for the rank table the extractor
computed (`decide` over the tables regenerated from the source at the start of every run).  It fails
when a `bookie`/`booked` acquisition moves in front of the `write_*()` connection acquisition or is
nested the other way round, and when a task blocks on a send into a bounded channel while it holds
something the channel's consumer needs (then no rank table exists and the extractor says so). -/
theorem extracted_programs_ordered : ∀ p ∈ programs, ordered ranking [] p.ops = true := by decide

/-- the extracted rank table keeps the order of the code comment: connection, then bookie, then booked -/
theorem extracted_ranking_lock_order : ranking.lockOrder := by decide

/-- the table is not vacuous: at least ten programs, some program takes all three lock kinds, some
program consumes a channel and takes the connection while it does, some program blocks on a send -/
theorem extracted_programs_nontrivial :
    programs.length ≥ 10 ∧
    (programs.any fun p => p.ops.contains (.acq .conn 0 .W) && p.ops.contains (.acq .bookie 0 .W) &&
      p.ops.contains (.acq .booked 0 .W)) = true ∧
    (programs.any fun p => match p.ops with
      | .acq (.chan _) _ _ :: rest => rest.contains (.acq .conn 0 .W)
      | _ => false) = true ∧
    (programs.any fun p => match p.ops with
      | [.acq (.chan c) _ _, .rel (.chan c')] => c == c'
      | _ => false) = true := by
  decide

/-- **Deadlock freedom of the agent's writers, as extracted.** Any number of concurrent tasks, each
running (an instance, for whatever actors, of) one of the extracted programs or nothing, under either
grant policy: some task can always step until all have finished. -/
theorem extracted_instances_deadlock_free (pol : Policy) (progs : Nat → Prog)
    (hinst : ∀ i, progs i = [] ∨ ∃ t ∈ programs, (progs i).map Op.shape = t.ops.map Op.shape)
    (s : State) (hr : Reachable pol (initState progs) s) (hlive : ∃ i, (s i).rest ≠ []) :
    ∃ s', Step pol s s' := by
  apply ordered_acquisition_deadlock_free ranking pol progs _ s hr hlive
  intro i
  rcases hinst i with h | ⟨t, ht, hshape⟩
  · rw [h]; rfl
  · rw [ordered_congr ranking _ _ [] hshape]
    exact extracted_programs_ordered t ht

/-! ### the discipline is needed: the classic swapped order deadlocks -/

/-- task 0 took the connection and wants actor 7's booked lock; task 1 took that lock and wants the
connection (a writer that takes `booked` before `write_*()`): nobody can step. -/
def swapped : State := fun i =>
  if i = 0 then ⟨[.acq .booked 7 .W, .rel .booked, .rel .conn], [⟨.conn, 0, .W⟩]⟩
  else if i = 1 then ⟨[.acq .conn 0 .W, .rel .conn, .rel .booked], [⟨.booked, 7, .W⟩]⟩
  else ⟨[], []⟩

theorem swapped_order_deadlocks : (∃ i, (swapped i).rest ≠ []) ∧ ∀ s', ¬ Step readersWriter swapped s' := by
  refine ⟨⟨0, by simp [swapped]⟩, ?_⟩
  intro s' st
  cases st with
  | acq i k a m rest hrest hg =>
    by_cases h0 : i = 0
    · subst h0
      simp only [swapped, if_true, List.cons.injEq, Op.acq.injEq] at hrest
      obtain ⟨⟨rfl, rfl, rfl⟩, _⟩ := hrest
      apply hg .W
      exact ⟨1, by decide, ⟨.booked, 7, .W⟩, by simp [swapped], by decide, rfl⟩
    · by_cases h1 : i = 1
      · subst h1
        simp [swapped] at hrest
        obtain ⟨⟨rfl, rfl, rfl⟩, _⟩ := hrest
        apply hg .W
        exact ⟨0, by decide, ⟨.conn, 0, .W⟩, by simp [swapped], by decide, rfl⟩
      · simp [swapped, h0, h1] at hrest
  | rel i k rest hrest =>
    by_cases h0 : i = 0
    · subst h0; simp [swapped] at hrest
    · by_cases h1 : i = 1
      · subst h1; simp [swapped] at hrest
      · simp [swapped, h0, h1] at hrest

/-! ### … and so does a blocking send under the connection into a channel whose consumer needs the connection -/

/-- task 0 (a remote-apply batch): takes the connection, then blocks on a send into channel 0, then
releases; task 1 (the consumer of channel 0): holds the channel while it processes an item, for which
it needs the connection. -/
def sendUnderConn : Nat → Prog := fun i =>
  if i = 0 then [.acq .conn 0 .W, .acq (.chan 0) 0 .W, .rel (.chan 0), .rel .conn]
  else if i = 1 then [.acq (.chan 0) 0 .W, .acq .conn 0 .W, .rel .conn, .rel (.chan 0)]
  else []

/-- the state after "the batch took the connection" and "the consumer is busy with an item" -/
def sendUnderConnStuck : State :=
  update (update (initState sendUnderConn) 0
      ⟨[.acq (.chan 0) 0 .W, .rel (.chan 0), .rel .conn], [⟨.conn, 0, .W⟩]⟩) 1
    ⟨[.acq .conn 0 .W, .rel .conn, .rel (.chan 0)], [⟨.chan 0, 0, .W⟩]⟩

/-- **The shape of a blocking send under the write connection into a bounded channel whose consumer
needs the write connection reaches a stuck state** (two steps from the initial state; nobody has
finished; no step is possible), under the shared-readers policy and a fortiori under the exclusive one.
No rank table makes both programs `ordered` (see the `example`s below for the two natural tables). -/
theorem blocking_send_under_conn_deadlocks :
    Reachable readersWriter (initState sendUnderConn) sendUnderConnStuck ∧
    (∃ i, (sendUnderConnStuck i).rest ≠ []) ∧ ∀ s', ¬ Step readersWriter sendUnderConnStuck s' := by
  refine ⟨?_, ⟨0, by simp [sendUnderConnStuck, update]⟩, ?_⟩
  · -- two granted acquisitions
    have s1 : Step readersWriter (initState sendUnderConn)
        (update (initState sendUnderConn) 0
          ⟨[.acq (.chan 0) 0 .W, .rel (.chan 0), .rel .conn], [⟨.conn, 0, .W⟩]⟩) := by
      have := Step.acq (pol := readersWriter) (s := initState sendUnderConn) 0 .conn 0 .W
        [.acq (.chan 0) 0 .W, .rel (.chan 0), .rel .conn] (by simp [initState, sendUnderConn])
        (by
          intro m' ⟨j, _, h, hmem, _⟩
          simp [initState] at hmem)
      simpa [initState] using this
    have s2 := Step.acq (pol := readersWriter)
        (s := update (initState sendUnderConn) 0
          ⟨[.acq (.chan 0) 0 .W, .rel (.chan 0), .rel .conn], [⟨.conn, 0, .W⟩]⟩) 1 (.chan 0) 0 .W
        [.acq .conn 0 .W, .rel .conn, .rel (.chan 0)] (by simp [update, initState, sendUnderConn])
        (by
          intro m' ⟨j, hj, h, hmem, hlock, _⟩
          by_cases h0 : j = 0
          · subst h0
            simp [update] at hmem
            subst hmem
            simp [Held.isLock] at hlock
          · simp [update, h0, initState] at hmem)
    have e : update (update (initState sendUnderConn) 0
          ⟨[.acq (.chan 0) 0 .W, .rel (.chan 0), .rel .conn], [⟨.conn, 0, .W⟩]⟩) 1
        ⟨[.acq .conn 0 .W, .rel .conn, .rel (.chan 0)],
          ⟨.chan 0, 0, .W⟩ :: ((update (initState sendUnderConn) 0
            ⟨[.acq (.chan 0) 0 .W, .rel (.chan 0), .rel .conn], [⟨.conn, 0, .W⟩]⟩) 1).held⟩ =
        sendUnderConnStuck := by
      simp [sendUnderConnStuck, update, initState]
    rw [e] at s2
    exact Reachable.step (Reachable.step Reachable.refl s1) s2
  · intro s' st
    cases st with
    | acq i k a m rest hrest hg =>
      by_cases h0 : i = 0
      · subst h0
        simp [sendUnderConnStuck, update] at hrest
        obtain ⟨⟨rfl, rfl, rfl⟩, _⟩ := hrest
        apply hg .W
        exact ⟨1, by decide, ⟨.chan 0, 0, .W⟩, by simp [sendUnderConnStuck, update], by decide, rfl⟩
      · by_cases h1 : i = 1
        · subst h1
          simp [sendUnderConnStuck, update] at hrest
          obtain ⟨⟨rfl, rfl, rfl⟩, _⟩ := hrest
          apply hg .W
          exact ⟨0, by decide, ⟨.conn, 0, .W⟩, by simp [sendUnderConnStuck, update], by decide, rfl⟩
        · simp [sendUnderConnStuck, update, initState, sendUnderConn, h0, h1] at hrest
    | rel i k rest hrest =>
      by_cases h0 : i = 0
      · subst h0; simp [sendUnderConnStuck, update] at hrest
      · by_cases h1 : i = 1
        · subst h1; simp [sendUnderConnStuck, update] at hrest
        · simp [sendUnderConnStuck, update, initState, sendUnderConn, h0, h1] at hrest

/-- the discipline rejects the sender when the channel ranks below the connection (as it must for the
consumer) … -/
example : ordered [(.chan 0, 0), (.conn, 1), (.bookie, 2), (.booked, 3)] [] (sendUnderConn 0) = false := by decide
example : ordered [(.chan 0, 0), (.conn, 1), (.bookie, 2), (.booked, 3)] [] (sendUnderConn 1) = true := by decide
/-- … and the consumer when it ranks above -/
example : ordered [(.conn, 0), (.chan 0, 1), (.bookie, 2), (.booked, 3)] [] (sendUnderConn 1) = false := by decide
/-- the same send from a spawned task (a program of its own that holds nothing) is fine -/
example : ordered [(.chan 0, 0), (.conn, 1), (.bookie, 2), (.booked, 3)] [] [.acq (.chan 0) 0 .W, .rel (.chan 0)] = true := by
  decide

example : ordered Ranking.base [] [.acq .booked 7 .W, .acq .conn 0 .W, .rel .conn, .rel .booked] = false := by decide
example : ordered Ranking.base [] [.acq .conn 0 .W, .acq .bookie 0 .W, .rel .bookie, .acq .booked 3 .W, .rel .booked, .rel .conn] = true := by
  decide

end Corro.LockOrder
