/-
C01 — the protocol-level theorems of `Props/C01Cluster.lean` WITHOUT restriction R1: changesets reach
`process_multiple_changes` in BATCHES of several changesets of several actors.  Property theorems
only; definitions and lemmas are in `Model/ClusterSysBatch.lean` and
`Lemmas/ClusterBatch{GI,Commit,Tx,Db,Deliver,Step,Live,Effect,Session,Conv}.lean`.

The batched cluster model (`ClusterSys.stepB`) has the state of `ClusterSys` (nodes, global log `L`,
ghost received-lists `R i`) and the steps

* `write i stmts`, `kill i`, `restart i` — as before;
* `deliverOrigins i chunks` — node `i` receives, in ONE call `Node.deliver batch`, the original chunks
  `(site, ver, lo, hi)` listed: several chunks of several transactions of several sites, any order,
  repeats allowed (each with the original `last_seq`; entries that name no transaction of the log or
  no range inside `0..=last_seq` are dropped);
* `syncB i j batches` — a sync session: the server's answers are computed once (`answers`, as in the
  one-per-batch model); the client then runs one `Node.deliver` per element of `batches`, each batch
  being any list of picks — an answer by index (any sub-list, any order, repeats, inside a batch and
  across batches), or an original chunk that arrives by broadcast at the same time.

`Node.deliver batch` is the model of the WHOLE of `process_multiple_changes` (`Model/Node.lean`):
de-duplication of the batch, the first pass dropping what is known, per actor one pass with the
`seen` map against the bookkeeping as of BEFORE the batch, the in-memory update after the commit
(`insert_db` of all processed versions, then `insert_partial` / removal of stale partials), the clear
jobs and the applies after the whole batch.

Route taken (see the report): NOT a simulation by singleton deliveries — that is false
(`batch_is_no_sequence_of_singletons_counterexample`, `empty_after_chunk_dropped_counterexample`) —
but a direct proof that the node invariant (`NInv`, `LInv` with `held_inv`) is preserved by
`n.deliver batch` for an ARBITRARY batch of changesets satisfying `ChunkOK` (`batch_preserves_inv`),
through a generalised invariant that holds at every point inside the call (`Lemmas/ClusterBatchGI`).

RESTRICTIONS that remain (R2–R6 of `Props/C01Cluster.lean`; R1 is gone):
R2 `LogOK c.log` (no re-insertion of a deleted row), R3 `OpOKB` (the local write path agrees with
merging its own change list), R4 (`held_inv`, convergence) no kill / restart and the run passes only
through `clean` states, R5 (convergence) `NoTies`, R6 (liveness) fairness is a HYPOTHESIS, and a
session counts as LOSSLESS (`LosslessB`) when the client's batches contain answers of the server
only — every answer in at least one batch, any split into batches, any order, repeats — and NO
broadcast chunk.  The last clause is necessary: `empty_after_chunk_dropped_counterexample` (an
`Empty` answer that shares a batch with an earlier broadcast chunk of its version is dropped inside
the transaction, the version stays partial until the next round).
-/
import Corro.Lemmas.ClusterBatchConv
import Corro.Props.C01Cluster

namespace Corro.ClusterSys
open Corro.Crdt Corro.Node

/-! ### 0. one batch, node level -/

/-- **the ghost list of a batch is exact** (any node state, any batch): `n.deliver batch` merges
exactly `mergedByBatch n batch` — the complete changesets applied inside the transactions, per actor
in batch order, then the buffered rows of the versions applied after the batch — in that order,
and nothing else. -/
theorem received_set_exact_batch (n : Node) (batch : List Item) :
    (n.deliver batch).db = mergeAll n.db (mergedByBatch n batch) :=
  mergedByBatch_spec n batch

/-- **one batch preserves the full node invariant.**  Let `n` be an alive node satisfying the node
invariant `FullInv L n R` (store = merge of the ghost list `R` ⊆ log; bookkeeping sound; every
received seq range backed by buffered rows or dominated changes; `held_inv`: every change of a
version booked as held is in `R` or dominated).  Let `batch` be ANY list of changesets each of which
satisfies `ChunkOK L` (what original chunks and everything a clean reachable server sends satisfy):
several actors, several versions per actor, complete changesets, incomplete chunks of the same
version in any order and with different `last_seq`, `Empty` ranges, duplicates.  Then
`n.deliver batch` satisfies the invariant with the ghost list extended by `mergedByBatch n batch`.

In particular no version is booked as held by a batch unless every non-dominated change of it was
merged — the `seen` map, the bookkeeping frozen at the start of the batch, the deferred clear jobs
and the deferred applies cannot produce a wrongly held version. -/
theorem batch_preserves_inv {L : Log} {n : Node} {R : List Chg} (h : FullInv L n R) (hL : LogOK L)
    (batch : List Item) (hck : ∀ it ∈ batch, ChunkOK L it) :
    FullInv L (n.deliver batch) (mergedByBatch n batch ++ R) :=
  ⟨ninv_deliverB h.1 hL (fun it hit => chunkOK_changes hL (hck it hit)), linv_deliverB h.1 h.2 hL hck⟩

/-! ### 1. nothing is invented -/

/-- **`store_from_log`, batched.**  In EVERY reachable state of the batched cluster model (any steps,
including kill / restart; R2, R3) every live entry of every node's `crsql_changes` is literally a
change of some transaction of the global log, and so is every buffered row.

Full statement (not proved): the same for histories with re-insertions (R2). -/
theorem store_from_log_batch_partial {k : Nat} {c : Cluster} (h : ReachB k c) (hL : LogOK c.log) (i : Nat)
    (n : Node) (hi : c.nodes[i]? = some n) :
    (∀ e ∈ n.db.changes, e ∈ c.log.all) ∧ (∀ e ∈ n.buf, e ∈ c.log.all) := by
  have hN := (reachB_ninv h hL).node i n hi
  exact ⟨fun e he => hN.rsub e (hN.store.lit.mem he), hN.bufsub⟩

/-- the same, read on the stored rows -/
theorem no_invented_values_batch_partial {k : Nat} {c : Cluster} (h : ReachB k c) (hL : LogOK c.log)
    (i : Nat) (n : Node) (hi : c.nodes[i]? = some n) :
    ∀ r ∈ n.db.rows,
      (∃ ch ∈ c.log.all, ch.tbl = r.tbl ∧ ch.pk = r.pk ∧ ch.cl = r.cl) ∧
      ∀ l ∈ r.cells, ∃ ch ∈ c.log.all, ch.tbl = r.tbl ∧ ch.pk = r.pk ∧ ch.cid = l.cid ∧
        ch.val = l.val ∧ ch.colv = l.clk.colv ∧ ch.cl = r.cl ∧ ch.site = l.clk.site ∧
        ch.dbv = l.clk.dbv ∧ ch.seq = l.clk.seq := by
  intro r hr
  have hN := (reachB_ninv h hL).node i n hi
  constructor
  · obtain ⟨ch, hch, h1, h2⟩ := hN.store.inv.row_prov (findRow_of_mem hN.store.nodup hr)
    exact ⟨ch, hN.rsub ch hch, h1, h2⟩
  · intro l hl
    exact ⟨_, hN.rsub _ ((hN.store.lit r hr).cells l hl), rfl, rfl, rfl, rfl, rfl, rfl, rfl, rfl, rfl⟩

/-! ### 2. the received set -/

/-- **`received_set`, batched.**  In every reachable state of the batched model the store of node `i`
is a merge of exactly the set `R i` of changes it has merged so far (`Inv`), and `R i` consists of
changes of the log. -/
theorem received_set_batch_partial {k : Nat} {c : Cluster} (h : ReachB k c) (hL : LogOK c.log) (i : Nat)
    (n : Node) (hi : c.nodes[i]? = some n) :
    Inv n.db (c.R i) ∧ n.db.NoDup ∧ ∀ e ∈ c.R i, e ∈ c.log.all := by
  have hN := (reachB_ninv h hL).node i n hi
  exact ⟨hN.store.inv, hN.store.nodup, hN.rsub⟩

/-! ### 3. `held_inv` -/

/-- **`held_inv`, batched (the core).**  In every state of the batched cluster model reachable under
R2–R4: if node `i` books `(a, v)` as held then every change `ch` of the transaction `L(a, v)` is in
`R i` — merged into the node's store — or is dominated in the log (`Dom`).

Preserved by every step, the delivery steps now handing whole BATCHES to `process_multiple_changes`:
several original chunks of several transactions in one batch, several answers of a sync session in
one batch (any split of the session into consecutive batches, loss / duplication / reordering inside
and across batches), answers and broadcast chunks mixed in one batch.

Full statement (not proved): without R2 (re-insertions) and without R4's first half (kill / restart
between the steps). -/
theorem held_inv_batch_partial {k : Nat} {c : Cluster} (h : ReachLiveB k c) (hL : LogOK c.log) (i : Nat)
    (n : Node) (hi : c.nodes[i]? = some n) (a v : Nat) (hh : Held n a v) :
    ∀ ch ∈ c.log.get a v, ch ∈ c.R i ∨ Dom c.log.all ch :=
  ((reachLiveB_inv h hL).node i n hi).2.held a v hh

/-- **the relay lemma**, batched: what a node that holds `(a, v)` serves for it — its live entries
attributed to `(a, v)` — contains every change of `L(a, v)` that is not dominated -/
theorem relay_serves_nondominated_batch_partial {k : Nat} {c : Cluster} (h : ReachLiveB k c)
    (hL : LogOK c.log) (j : Nat) (n : Node) (hj : c.nodes[j]? = some n) (a v : Nat) (hh : Held n a v) :
    ∀ ch ∈ c.log.get a v, ch ∈ n.live a v ∨ Dom c.log.all ch := by
  have := (reachLiveB_inv h hL).node j n hj
  exact fun ch hch => live_covers this.1 this.2 hL hh hch

/-- everything a server sends in a session from a clean state of the batched model satisfies
`ChunkOK` -/
theorem served_chunks_ok_batch_partial {k : Nat} {c : Cluster} (h : ReachLiveB k c) (hL : LogOK c.log)
    (hcl : c.clean = true) (j : Nat) (nj : Node) (hj : c.nodes[j]? = some nj) (ni : Node) :
    ∀ it ∈ answers ni nj, ChunkOK c.log it := by
  have := (reachLiveB_inv h hL).node j nj hj
  exact fun it hit => chunkOK_answers this.1 this.2 hL (clean_node hcl hj) hit

/-! ### 4. convergence at quiescence -/

/-- **`converged_at_quiescence`, batched.**  In a state of the batched cluster model reachable under
R2–R4 in which every node holds every transaction of the log, every node shows the view that is the
specification of the set of ALL changes of the log, provided the log has no ties (R5) and is
incarnation-complete (`CompleteStrong`). -/
theorem converged_at_quiescence_batch_partial {k : Nat} {c : Cluster} (h : ReachLiveB k c)
    (hL : LogOK c.log) (hnt : NoTies c.log.all) (hcs : CompleteStrong c.log.all) (hq : AllHeld c) (i : Nat)
    (n : Node) (hi : c.nodes[i]? = some n) : view n.db = spec c.log.all := by
  obtain ⟨hN, hI⟩ := (reachLiveB_inv h hL).node i n hi
  have hheld : ∀ ch ∈ c.log.all, ch ∈ c.R i ∨ Dom c.log.all ch := by
    intro ch hch
    obtain ⟨e, he, h1, h2⟩ := hL.entry_of_mem_all hch
    have hh := hq i n hi e he
    rw [h1, h2] at hh
    exact hI.held ch.site ch.dbv hh ch (hL.get_of_mem_all hch)
  obtain ⟨hs, hc⟩ := spec_of_held hN.rsub (fun ch hch => hL.chgOK hch) hheld hnt hcs
  rw [hN.store.inv.view_eq hc, hs]

/-- **all replicas agree**, batched -/
theorem replicas_agree_at_quiescence_batch_partial {k : Nat} {c : Cluster} (h : ReachLiveB k c)
    (hL : LogOK c.log) (hnt : NoTies c.log.all) (hcs : CompleteStrong c.log.all) (hq : AllHeld c)
    (i j : Nat) (ni nj : Node) (hi : c.nodes[i]? = some ni) (hj : c.nodes[j]? = some nj) :
    view ni.db = view nj.db := by
  rw [converged_at_quiescence_batch_partial h hL hnt hcs hq i ni hi,
    converged_at_quiescence_batch_partial h hL hnt hcs hq j nj hj]

/-- `converged_at_quiescence`, batched, with quiescence read off the bookkeeping ("all heads equal
the log's, no needs, no partials") -/
theorem converged_when_quiescent_batch_partial {k : Nat} {c : Cluster} (h : ReachLiveB k c)
    (hL : LogOK c.log) (hnt : NoTies c.log.all) (hcs : CompleteStrong c.log.all) (hq : Quiescent c) (i : Nat)
    (n : Node) (hi : c.nodes[i]? = some n) : view n.db = spec c.log.all :=
  converged_at_quiescence_batch_partial h hL hnt hcs (allHeld_of_quiescent hL hq) i n hi

/-! ### 5. liveness under a fairness hypothesis -/

/-- **what is held stays held**, one batch: delivering any batch of changesets satisfying `ChunkOK` to
an alive node satisfying the node invariant loses nothing the node holds -/
theorem batch_keeps_held {L : Log} {n : Node} {R : List Chg} (h : FullInv L n R) (hL : LogOK L)
    (batch : List Item) (hck : ∀ it ∈ batch, ChunkOK L it) (a v : Nat) (hh : Held n a v) :
    Held (n.deliver batch) a v :=
  deliverB_held_mono h.1 h.2 hL hck hh

/-- **`sync_round_progress`, batched.**  From a clean state of a cluster reachable in the batched
model under R2–R4, one LOSSLESS session of client `i` with server `j` — the client's batches contain
answers of the server only, and every answer is in at least one batch (`LosslessB`: ANY split of the
session into batches, any order inside and across batches, repeats allowed) — leaves `i` holding
every version of every actor other than `i` itself that `j` holds, and everything `i` held before.

Batch-specific content: a version is settled by a complete changeset or an `Empty` although the
bookkeeping the changesets are checked against is frozen at the start of the batch; a partial grows
by every chunk of the batch although the `seen` map only remembers the last one; the apply of a
version completed in the batch runs after the batch.

Not covered (and false, `empty_after_chunk_dropped_counterexample`): sessions whose batches also
contain broadcast chunks. -/
theorem sync_round_progress_batch_partial {k : Nat} {c : Cluster} (h : ReachLiveB k c) (hL : LogOK c.log)
    (hcl : c.clean = true) {i j : Nat} (hij : i ≠ j) {ni nj : Node} (hi : c.nodes[i]? = some ni)
    (hj : c.nodes[j]? = some nj) {batches : List (List Pick)} (hless : LosslessB (answers ni nj) batches) :
    ∃ ni', (stepB c (.syncB i j batches)).nodes[i]? = some ni' ∧
      (∀ a v, a ≠ i → 1 ≤ v → Held nj a v → Held ni' a v) ∧ (∀ a v, Held ni a v → Held ni' a v) :=
  sync_step_progressB h hL hcl hij hi hj hless

/-- **every node always holds its own versions**, batched model -/
theorem origin_holds_own_batch_partial {k : Nat} {c : Cluster} (h : ReachLiveB k c) (hL : LogOK c.log)
    (i : Nat) (n : Node) (hi : c.nodes[i]? = some n) (v : Nat) (h1 : 1 ≤ v) (h2 : v ≤ c.log.head i) :
    Held n i v :=
  (reachLiveB_own h hL).own i n hi v h1 h2

/-- **`eventual_convergence`, batched.**  Let `c` be reachable in the batched model under R2–R4 with a
well-formed log without ties that is incarnation-complete.  Writes stop; the cluster runs ANY schedule
`ops` of lossless sync sessions, each from a clean state and each processed by its client in any
split into batches (`LosslessRunB`), that contains for every ordered pair of distinct nodes `(i, a)`
at least one session `i ← a` (`hcov`).  Then the log is unchanged, every node holds every version of
it, and every node shows the specification of all acknowledged changes: all replicas agree.

The existence of such a schedule is the fairness ASSUMPTION of C01's liveness (R6). -/
theorem eventual_convergence_batch_partial {k : Nat} {c : Cluster} (h : ReachLiveB k c) (hL : LogOK c.log)
    (hnt : NoTies c.log.all) (hcs : CompleteStrong c.log.all) (ops : List OpB) (hrun : LosslessRunB c ops)
    (hcov : ∀ i a, i < k → a < k → i ≠ a → ∃ batches, OpB.syncB i a batches ∈ ops) :
    (runB c ops).log = c.log ∧ AllHeld (runB c ops) ∧
    ∀ (i : Nat) (n : Node), (runB c ops).nodes[i]? = some n → view n.db = spec c.log.all := by
  have hown := reachLiveB_own h hL
  obtain ⟨hr', hlog, hall⟩ := allHeld_after_scheduleB h hL ops hrun (by
    intro i a hi ha
    by_cases hia : i = a
    · subst hia
      exact Or.inl (fun n hn v h1 h2 => hown.own i n hn v h1 h2)
    · exact Or.inr ⟨hia, hcov i a hi ha hia⟩)
  have hL' : LogOK (runB c ops).log := by rw [hlog]; exact hL
  have hown' := reachLiveB_own hr' hL'
  have hheld : AllHeld (runB c ops) := by
    intro i n hi e he
    have hlt : i < k := by
      have := (List.getElem?_eq_some_iff.mp hi).1
      rw [hown'.len] at this; exact this
    have hv := hL'.ver_le e he
    exact hall i e.1.1 hlt (hown'.sites e he) n hi e.1.2 hv.1 hv.2
  refine ⟨hlog, hheld, ?_⟩
  intro i n hi
  have := converged_at_quiescence_batch_partial hr' hL' (by rw [hlog]; exact hnt) (by rw [hlog]; exact hcs)
    hheld i n hi
  rw [hlog] at this
  exact this

/-! ### concrete runs (non-vacuity) and counterexamples

Field order of `Chg`: `tbl pk cid val colv cl site dbv seq`. -/

namespace ExB

/-- Three nodes.  Node 0 inserts row `t/1` (version 1, seqs 0..1), updates `a` twice (versions 2 and
3; version 2 is then entirely dominated) and inserts row `t/2` (version 4, seqs 0..1).  Node 1 receives
all four versions as ONE batch of original chunks (plus a chunk of a transaction that does not exist,
which is dropped).  Node 2 then syncs with node 1, whose answers are: version 4 complete, version 3
complete, version 1 complete (only `b@1` is live), `Empty` for version 2. -/
def opsD : List OpB := [
  .write 0 [.ins "t" "1" [("a", .int 1), ("b", .int 2)]],
  .write 0 [.upd "t" "1" [("a", .int 7)]],
  .write 0 [.upd "t" "1" [("a", .int 8)]],
  .write 0 [.ins "t" "2" [("a", .int 5), ("b", .int 6)]],
  .deliverOrigins 1 [(0, 4, 0, 1), (0, 1, 0, 1), (0, 3, 0, 0), (0, 2, 0, 0), (0, 9, 0, 0)]]

/-- the client's single batch: a complete changeset (answer 1 = version 3), two chunks of another
version (version 4, by broadcast, second half first), an `Empty` (answer 3 = version 2), a duplicate
(answer 1 again), and another complete changeset (answer 2 = version 1) -/
def batchD : List Pick := [.ans 1, .orig 0 4 1 1, .orig 0 4 0 0, .ans 3, .ans 1, .ans 2]

def cD : Cluster := runB (Cluster.init 3) opsD

def cD2 : Cluster := runB (Cluster.init 3) (opsD ++ [.syncB 2 1 [batchD]])

set_option maxRecDepth 100000 in
/-- the server's answers, and the batch as the client's `process_multiple_changes` receives it -/
example : answers (Ex.nodeOf cD 2) (Ex.nodeOf cD 1) =
      [Item.full 0 4 0 1 1 [⟨"t", "2", "a", .int 5, 1, 1, 0, 4, 0⟩, ⟨"t", "2", "b", .int 6, 1, 1, 0, 4, 1⟩],
       Item.full 0 3 0 0 0 [⟨"t", "1", "a", .int 8, 3, 1, 0, 3, 0⟩],
       Item.full 0 1 0 1 1 [⟨"t", "1", "b", .int 2, 1, 1, 0, 1, 1⟩],
       Item.empty 0 2 2] ∧
    pickBatch cD.log (answers (Ex.nodeOf cD 2) (Ex.nodeOf cD 1)) batchD =
      [Item.full 0 3 0 0 0 [⟨"t", "1", "a", .int 8, 3, 1, 0, 3, 0⟩],
       Item.full 0 4 1 1 1 [⟨"t", "2", "b", .int 6, 1, 1, 0, 4, 1⟩],
       Item.full 0 4 0 0 1 [⟨"t", "2", "a", .int 5, 1, 1, 0, 4, 0⟩],
       Item.empty 0 2 2,
       Item.full 0 3 0 0 0 [⟨"t", "1", "a", .int 8, 3, 1, 0, 3, 0⟩],
       Item.full 0 1 0 1 1 [⟨"t", "1", "b", .int 2, 1, 1, 0, 1, 1⟩]] := by decide

set_option maxRecDepth 100000 in
set_option synthInstance.maxSize 4096 in
/-- the run satisfies R3 and R4 at every step, its log satisfies R2 and R5 and is
incarnation-complete; after the batch node 2 holds all four versions (no needs, no partials, no
rows), and what the batch merged — the ghost list — is: versions 3 and 1 inside the transaction, then
the two buffered rows of version 4 by the apply after the batch -/
example : runOKB (Cluster.init 3) (opsD ++ [.syncB 2 1 [batchD]]) ∧ LogOK cD2.log ∧ NoTies cD2.log.all ∧
    CompleteStrong cD2.log.all ∧
    Ex.books cD2 1 = [(0, 4, [], [])] ∧ Ex.books cD2 2 = [(0, 4, [], [])] ∧
    (Ex.nodeOf cD2 2).seqRows = [] ∧ (Ex.nodeOf cD2 2).buf = [] ∧
    cD2.R 2 = [⟨"t", "1", "a", .int 8, 3, 1, 0, 3, 0⟩, ⟨"t", "1", "b", .int 2, 1, 1, 0, 1, 1⟩,
      ⟨"t", "2", "a", .int 5, 1, 1, 0, 4, 0⟩, ⟨"t", "2", "b", .int 6, 1, 1, 0, 4, 1⟩] := by decide

theorem nodeOf_some {c : Cluster} {i : Nat} (h : (c.nodes[i]?).isSome = true) :
    c.nodes[i]? = some (Ex.nodeOf c i) := by
  unfold Ex.nodeOf
  cases hn : c.nodes[i]? with
  | none => rw [hn] at h; cases h
  | some n => rfl

theorem cD2_reach : ReachLiveB 3 cD2 := reachLiveB_run ReachLiveB.init _ (by decide)

/-- `held_inv_batch_partial` applied to that run: node 2 holds version `(0, 2)` — booked by the
`Empty` of the batch — and indeed its only change `a = 7` is not in `R 2` but dominated (by `a = 8`) -/
example : ∀ ch ∈ cD2.log.get 0 2, ch ∈ cD2.R 2 ∨ Dom cD2.log.all ch :=
  held_inv_batch_partial cD2_reach (by decide) 2 (Ex.nodeOf cD2 2) (nodeOf_some (by decide)) 0 2 (by decide)

set_option maxRecDepth 100000 in
set_option synthInstance.maxSize 4096 in
/-- … and all three nodes show the same rows: `t/1` with `a = 8` (column version 3), `b = 2`, and
`t/2` with `a = 5` -/
example : (view (Ex.nodeOf cD2 0).db "t" "1").cell "a" = some (.int 8, 3) ∧
    (view (Ex.nodeOf cD2 1).db "t" "1").cell "a" = some (.int 8, 3) ∧
    (view (Ex.nodeOf cD2 2).db "t" "1").cell "a" = some (.int 8, 3) ∧
    (view (Ex.nodeOf cD2 2).db "t" "1").cell "b" = some (.int 2, 1) ∧
    (view (Ex.nodeOf cD2 2).db "t" "2").cell "a" = some (.int 5, 1) ∧
    (spec cD2.log.all "t" "1").cell "a" = some (.int 8, 3) := by decide

/-! #### liveness, concretely -/

/-- stop after node 1 has received everything (node 2 knows nothing), let node 1 delete row `t/2`,
then run ONE round of sessions over all ordered pairs, every client processing the answers of its
session in two batches (odd-numbered answers in reverse order, then the even-numbered ones) -/
def opsF : List OpB := opsD ++ [.write 1 [.del "t" "2"]]

def cF : Cluster := runB (Cluster.init 3) opsF

theorem cF_reach : ReachLiveB 3 cF := reachLiveB_run ReachLiveB.init opsF (by decide)

set_option maxRecDepth 100000 in
set_option synthInstance.maxSize 4096 in
/-- the hypotheses of `eventual_convergence_batch_partial` hold (6 sessions, each lossless from a
clean state); before the round node 2 holds nothing, afterwards every node holds everything and shows
row `t/2` deleted -/
example : LogOK cF.log ∧ NoTies cF.log.all ∧ CompleteStrong cF.log.all ∧
    losslessCheckB cF (allPairsB 3 8) = true ∧
    Ex.books cF 2 = [] ∧
    Ex.books (runB cF (allPairsB 3 8)) 0 = [(0, 4, [], []), (1, 1, [], [])] ∧
    Ex.books (runB cF (allPairsB 3 8)) 1 = [(0, 4, [], []), (1, 1, [], [])] ∧
    Ex.books (runB cF (allPairsB 3 8)) 2 = [(0, 4, [], []), (1, 1, [], [])] ∧
    (view (Ex.nodeOf (runB cF (allPairsB 3 8)) 0).db "t" "2").cl = 2 ∧
    (view (Ex.nodeOf (runB cF (allPairsB 3 8)) 2).db "t" "2").cl = 2 := by decide

/-- the theorem applied to that run -/
example : ∀ (i : Nat) (n : Node), (runB cF (allPairsB 3 8)).nodes[i]? = some n →
    view n.db = spec cF.log.all :=
  (eventual_convergence_batch_partial cF_reach (by decide) (by decide) (by decide) (allPairsB 3 8)
    (losslessRunB_of_check (by decide))
    (fun _ _ hi ha hne => ⟨_, allPairsB_covers hi ha hne⟩)).2.2

/-! #### counterexample 1: a batch is not a sequence of singleton deliveries -/

def chg (k : Nat) : Chg := ⟨"t", "1", "a", .int 1, 1, 1, 0, 1, k⟩

/-- three incomplete chunks of version `(0, 1)`: two original chunks (`last_seq = 9`) and the chunk
`[0, 0]` as a relay that has lost the tail of the version serves it (`last_seq = 8`) -/
def iA : Item := .full 0 1 0 1 9 [chg 0, chg 1]
def iB : Item := .full 0 1 5 6 9 [chg 5, chg 6]
def iC : Item := .full 0 1 0 0 8 [chg 0]

/-- all lists of length `k` over `xs` -/
def seqsLen (xs : List Item) : Nat → List (List Item)
  | 0 => [[]]
  | k + 1 => (seqsLen xs k).flatMap (fun l => xs.map (fun x => l ++ [x]))

/-- all lists of length at most 3 over `xs`: every sub-list of a 3-element batch, in every order,
with repetitions -/
def seqsUpTo3 (xs : List Item) : List (List Item) :=
  seqsLen xs 0 ++ seqsLen xs 1 ++ seqsLen xs 2 ++ seqsLen xs 3

/-- delivering the changesets one per batch -/
def singles (n : Node) (its : List Item) : Node := its.foldl (fun n it => n.deliver [it]) n

/-! #### counterexample 2: an `Empty` that shares a batch with an earlier chunk of its version -/

/-- Node 0 inserts row `t/1` (version 1, seqs 0..1) and overwrites both columns (version 2): version 1
is entirely dominated.  Node 1 receives both.  Node 2 syncs with node 1 — answers: version 2 complete,
`Empty` for version 1 — LOSSLESSLY (both answers delivered), but the chunk `[0, 0]` of version 1
arrives by broadcast in the same batch, before the `Empty`. -/
def opsE : List OpB := [
  .write 0 [.ins "t" "1" [("a", .int 1), ("b", .int 2)]],
  .write 0 [.upd "t" "1" [("a", .int 7), ("b", .int 8)]],
  .deliverOrigins 1 [(0, 1, 0, 1), (0, 2, 0, 1)]]

def cE : Cluster := runB (Cluster.init 3) opsE

/-- the same session, mixed batch / the answers alone -/
def cE1 : Cluster := runB (Cluster.init 3) (opsE ++ [.syncB 2 1 [[.orig 0 1 0 0, .ans 0, .ans 1]]])
def cE2 : Cluster := runB (Cluster.init 3) (opsE ++ [.syncB 2 1 [[.ans 0, .ans 1]]])

end ExB

set_option maxRecDepth 100000 in
/-- **a batch is NOT a sequence of singleton deliveries** (route (a) of lifting R1 is closed).  An
alive fresh node receives the batch `[iA, iB, iC]`: three incomplete chunks of version `(0, 1)` — `[0,1]`
and `[5,6]` with `last_seq = 9`, then `[0,0]` with `last_seq = 8`.  Inside the transaction the `seen`
map keeps, per version, only the range of the LAST chunk processed (`[5,6]`), so `iC` is not
recognised as covered by `iA` and is buffered again: its sequence row replaces `iA`'s and carries
`last_seq = 8`.  Delivered one per batch, in ANY order, ANY sub-list, with ANY repetitions (all 40
lists of length ≤ 3 over the three changesets), `iC` is either skipped (after `iA`: the committed
partial covers it) or merged into `iA`'s row with `last_seq = 9`: no such sequence produces the
sequence row `(0, 1, [0,1], last_seq = 8)` the batch produces.  (Both outcomes satisfy the node invariant; only the simulation
fails.) -/
theorem batch_is_no_sequence_of_singletons_counterexample :
    ((Node.fresh 1).deliver [ExB.iA, ExB.iB, ExB.iC]).seqRows = [⟨0, 1, 5, 6, 9⟩, ⟨0, 1, 0, 1, 8⟩] ∧
    (ExB.singles (Node.fresh 1) [ExB.iA, ExB.iB, ExB.iC]).seqRows = [⟨0, 1, 0, 1, 9⟩, ⟨0, 1, 5, 6, 9⟩] ∧
    (ExB.seqsUpTo3 [ExB.iA, ExB.iB, ExB.iC]).length = 40 ∧
    ∀ its ∈ ExB.seqsUpTo3 [ExB.iA, ExB.iB, ExB.iC],
      (⟨0, 1, 0, 1, 8⟩ : SeqRow) ∉ (ExB.singles (Node.fresh 1) its).seqRows := by decide

set_option maxRecDepth 100000 in
set_option synthInstance.maxSize 4096 in
/-- **`sync_round_progress` is FALSE for mixed batches.**  The run `ExB.opsE` followed by a LOSSLESS
session of client 2 with server 1 (both answers delivered: version 2 complete, `Empty` for the
entirely dominated version 1) satisfies R2–R4.  If the answers are the whole batch, node 2 holds both
versions afterwards (`cE2`).  If the original chunk `[0, 0]` of version 1 arrives by broadcast in the
same batch BEFORE the `Empty` (`cE1`), the `Empty` is dropped inside the transaction ("already seen":
the `seen` map has an entry — a partial one — for the version) and node 2 is left with version 1
held only PARTIALLY although the server holds it and every answer was delivered: one more round is
needed.  Safety is not affected (`held_inv_batch_partial` covers `cE1`). -/
theorem empty_after_chunk_dropped_counterexample :
    runOKB (Cluster.init 3) (ExB.opsE ++ [.syncB 2 1 [[.orig 0 1 0 0, .ans 0, .ans 1]]]) ∧
    LogOK ExB.cE1.log ∧ NoTies ExB.cE1.log.all ∧
    answers (Ex.nodeOf ExB.cE 2) (Ex.nodeOf ExB.cE 1) =
      [Item.full 0 2 0 1 1 [⟨"t", "1", "a", .int 7, 2, 1, 0, 2, 0⟩, ⟨"t", "1", "b", .int 8, 2, 1, 0, 2, 1⟩],
       Item.empty 0 1 1] ∧
    Held (Ex.nodeOf ExB.cE 1) 0 1 ∧
    Held (Ex.nodeOf ExB.cE2 2) 0 1 ∧ Held (Ex.nodeOf ExB.cE2 2) 0 2 ∧
    ¬ Held (Ex.nodeOf ExB.cE1 2) 0 1 ∧ Held (Ex.nodeOf ExB.cE1 2) 0 2 ∧
    Ex.books ExB.cE1 2 = [(0, 2, [], [1])] ∧ Ex.books ExB.cE2 2 = [(0, 2, [], [])] := by decide

end Corro.ClusterSys
