/-
C19 — backup and restore reproduce the replicated data with correct authorship; restoring over a
live database file is all-or-nothing for readers in other processes.
Property theorems only.  Models: `Corro/Model/Backup.lean` (the SQL `corrosion backup` /
`corrosion restore` run), `Corro/Model/Locks.lean` (the file-lock protocol `sqlite3_restore`
relies on).  Helper lemmas: `Corro/Lemmas/Backup*.lean`, `Corro/Lemmas/Locks.lean`.
-/
import Corro.Lemmas.BackupSpec
import Corro.Lemmas.Locks

namespace Corro.Backup

/-- none of a node's local state: no membership rows, no subscription rows, no consul hash tables -/
def LocalEmpty (db : Db) : Prop :=
  db.members = 0 ∧ (db.subs = none ∨ db.subs = some 0) ∧ db.consulServices = none ∧ db.consulChecks = none

/-- `consul sync` creates `__corro_consul_services` and `__corro_consul_checks` in one transaction -/
def ConsulPaired (db : Db) : Prop := db.consulChecks.isSome → db.consulServices.isSome

/-- the actor id the restored database is asked to carry at ordinal 0, if any -/
def keepActor (n : Node) : Keep → Option Site
  | .no => none
  | .actor a => some a
  | .self => match n.file with
    | .db d => d.siteOf 0
    | _ => none

/-- **C19, "a backup … contains exactly the source's replicated rows and per-cell CRDT metadata with
every change still attributed to the actor that authored it, and none of the source's node-local
state".**  For every database satisfying cr-sqlite's table constraints: the resolved changes
(`crsql_changes`: clock rows with the author as a SITE ID, not an ordinal) of the backup are those
of the source, row by row; ordinal 0 is vacated (no site on it, no clock row attributed to it);
the replicated rows and `crsql_db_versions` are untouched; the node-local tables are empty. -/
theorem backup_preserves_authorship (db b : Db) (hwf : WF db) (h : backup db = some b) :
    b.changes = db.changes ∧ ZeroVacant b ∧ b.data = db.data ∧ b.dbVersions = db.dbVersions ∧
    (ConsulPaired db → LocalEmpty b) ∧ WF b := by
  refine ⟨backup_changes hwf h, backup_zeroVacant h, ?_, ?_, ?_, backup_wf hwf h⟩
  · obtain ⟨self, _, rfl⟩ := backup_eq h; rfl
  · obtain ⟨self, _, rfl⟩ := backup_eq h; rfl
  · intro hc
    obtain ⟨self, _, rfl⟩ := backup_eq h
    refine ⟨rfl, ?_, ?_, ?_⟩
    · simp only; cases db.subs <;> simp
    · simp only [dropConsul]; cases db.consulServices <;> rfl
    · simp only [dropConsul]
      cases hs : db.consulServices with
      | some _ => rfl
      | none =>
        simp only
        cases hk : db.consulChecks with
        | none => rfl
        | some _ => simp [ConsulPaired, hs, hk] at hc

/-- `backup` succeeds on every database that has a row for itself -/
theorem backup_succeeds (db : Db) (h : (db.siteOf 0).isSome) : (backup db).isSome := by
  unfold backup
  cases hs : db.siteOf 0 with
  | none => simp [hs] at h
  | some _ => simp

/-- **C19, keeping the destination's actor id.**  For EVERY snapshot whose ordinal 0 is vacant (what
`backup` produces) — whatever ordinals it assigns, whether it does not know the actor `a` at all
or knows it under some ordinal `k` — `restore --self-actor-id` / `--actor-id a` succeeds, the
restored database is the edited snapshot, its ordinal 0 is `a`, and the resolved author of every
clock row (the rows of `a` included) is what it was in the snapshot. -/
theorem restore_keep_self (n : Node) (snap : Db) (keep : Keep) (a : Site)
    (hwf : WF snap) (hz : ZeroVacant snap) (ha : keepActor n keep = some a) :
    ∃ r, restore n snap keep = .ok r ∧ r.node.file = .db r.snapshot ∧
      r.snapshot.siteOf 0 = some a ∧ r.snapshot.changes = snap.changes ∧
      r.snapshot.data = snap.data ∧ WF r.snapshot := by
  have key : ∃ r, restore n snap keep = .ok r ∧ r.node.file = .db r.snapshot ∧ r.snapshot = adopt snap a := by
    cases keep with
    | no => simp [keepActor] at ha
    | actor a' =>
      simp only [keepActor, Option.some.injEq] at ha
      subst ha
      exact ⟨_, rfl, rfl, rfl⟩
    | self =>
      simp only [keepActor] at ha
      cases hf : n.file with
      | absent => simp [hf] at ha
      | empty => simp [hf] at ha
      | db d =>
        simp only [hf] at ha
        refine ⟨⟨{ file := .db (adopt snap a), subsDir := 0 }, adopt snap a⟩, ?_, rfl, rfl⟩
        simp only [restore, hf, ha]
  obtain ⟨r, hr, hfile, hs⟩ := key
  refine ⟨r, hr, hfile, ?_, ?_, ?_, ?_⟩
  · rw [hs]; exact adopt_zero hwf a
  · rw [hs]; exact adopt_changes hwf hz a
  · rw [hs]; rfl
  · rw [hs]; exact adopt_wf hwf hz a

/-- the snapshot does not know the actor: the clock rows are not touched at all -/
theorem restore_keep_self_unknown_actor (snap : Db) (a : Site) (h : snap.ordOf a = none) :
    (adopt snap a).clock = snap.clock := by
  unfold adopt; simp only [h]

/-- the snapshot knows the actor under ordinal `k + 1`: exactly its rows move to ordinal 0 -/
theorem restore_keep_self_known_actor (snap : Db) (a : Site) (k : Nat) (h : snap.ordOf a = some (k + 1)) :
    (adopt snap a).clock = rewriteOrd (k + 1) 0 snap.clock := by
  unfold adopt; simp only [h]

/-- The vacancy hypothesis is needed: a snapshot that still has a site on ordinal 0 (a plain copy of
a database file instead of a `backup`) gets that site's changes re-attributed to the kept actor.
Site 7 wrote the row; after `restore --actor-id 9` it is attributed to 9. -/
theorem restore_keep_self_needs_vacant_counterexample :
    let snap : Db := { sites := [(0, 7)], clock := [⟨"t", "1", "a", 1, 1, 0, 0⟩] }
    snap.changes.map (·.site) = [some 7] ∧ (adopt snap 9).changes.map (·.site) = [some 9] := by
  decide

/-- The snapshot FILE is edited in place by a restore that keeps an actor id, so it is no longer a
vacant-ordinal-0 snapshot afterwards: restoring the same file a second time for another actor
re-attributes the first actor's changes.  (One backup → one restore is what C19 quantifies over.) -/
theorem restore_same_file_twice_counterexample :
    let db : Db := { sites := [(0, 1), (1, 2)], clock := [⟨"t", "1", "a", 1, 1, 0, 0⟩, ⟨"t", "2", "a", 1, 1, 0, 1⟩] }
    (backup db).map (fun b => (adopt (adopt b 2) 3).changes.map (·.site)) = some [some 1, some 3] := by
  decide

/-- **C19, round trip.**  For every source database, every destination (absent, empty, any existing
database) and with or without keeping an actor id: if `backup` and then `restore` go through, the
restored database file holds exactly the source's resolved changes (same list, hence same
multiset), replicated rows and `crsql_db_versions`. -/
theorem restore_roundtrip (db b : Db) (n : Node) (keep : Keep) (r : Restored)
    (hwf : WF db) (hb : backup db = some b) (hr : restore n b keep = .ok r) :
    ∃ d, r.node.file = .db d ∧ d.changes = db.changes ∧ d.data = db.data ∧
      d.dbVersions = db.dbVersions := by
  obtain ⟨hch, hz, hdata, hdbv, _, hwfb⟩ := backup_preserves_authorship db b hwf hb
  have adopted : ∀ a, (adopt b a).changes = db.changes ∧ (adopt b a).data = db.data ∧
      (adopt b a).dbVersions = db.dbVersions :=
    fun a => ⟨by rw [adopt_changes hwfb hz a, hch], hdata, hdbv⟩
  cases keep with
  | no =>
    simp only [restore, Except.ok.injEq] at hr
    subst hr
    exact ⟨b, rfl, hch, hdata, hdbv⟩
  | actor a =>
    simp only [restore, Except.ok.injEq] at hr
    subst hr
    exact ⟨adopt b a, rfl, adopted a⟩
  | self =>
    simp only [restore] at hr
    split at hr
    · cases hr
    · cases hr
    · split at hr
      · cases hr
      · rename_i a _
        simp only [Except.ok.injEq] at hr
        subst hr
        exact ⟨adopt b a, rfl, adopted a⟩

/-- **C19, "none of the source's node-local state".**  Whatever the destination held, after
`backup` + `restore` the database has no membership rows, no subscription rows and no consul hash
tables, and the destination's subscriptions directory has been wiped. -/
theorem no_local_state_leaks (db b : Db) (n : Node) (keep : Keep) (r : Restored)
    (hwf : WF db) (hc : ConsulPaired db) (hb : backup db = some b) (hr : restore n b keep = .ok r) :
    (∃ d, r.node.file = .db d ∧ LocalEmpty d) ∧ r.node.subsDir = 0 := by
  obtain ⟨_, _, _, _, hloc, _⟩ := backup_preserves_authorship db b hwf hb
  have hl := hloc hc
  have adopted : ∀ a, LocalEmpty (adopt b a) := fun a => hl
  cases keep with
  | no =>
    simp only [restore, Except.ok.injEq] at hr
    subst hr
    exact ⟨⟨b, rfl, hl⟩, rfl⟩
  | actor a =>
    simp only [restore, Except.ok.injEq] at hr
    subst hr
    exact ⟨⟨adopt b a, rfl, adopted a⟩, rfl⟩
  | self =>
    simp only [restore] at hr
    split at hr
    · cases hr
    · cases hr
    · split at hr
      · cases hr
      · rename_i a _
        simp only [Except.ok.injEq] at hr
        subst hr
        exact ⟨⟨adopt b a, rfl, adopted a⟩, rfl⟩

/-- **C19, "replaces its content completely".**  The restored node does not depend on what the
destination held before, only on the snapshot and on the actor id that is kept. -/
theorem restore_replaces_completely (n1 n2 : Node) (snap : Db) (keep : Keep) (r1 r2 : Restored)
    (h1 : restore n1 snap keep = .ok r1) (h2 : restore n2 snap keep = .ok r2)
    (ha : keepActor n1 keep = keepActor n2 keep) : r1 = r2 := by
  cases keep with
  | no => simp only [restore, Except.ok.injEq] at h1 h2; rw [← h1, ← h2]
  | actor a => simp only [restore, Except.ok.injEq] at h1 h2; rw [← h1, ← h2]
  | self =>
    simp only [restore] at h1 h2
    simp only [keepActor] at ha
    split at h1
    · cases h1
    · cases h1
    · rename_i d1 hf1
      split at h2
      · cases h2
      · cases h2
      · rename_i d2 hf2
        simp only [hf1, hf2] at ha
        split at h1
        · cases h1
        · rename_i a1 ha1
          split at h2
          · cases h2
          · rename_i a2 ha2
            rw [ha1, ha2] at ha
            simp only [Option.some.injEq] at ha
            subst ha
            simp only [Except.ok.injEq] at h1 h2
            rw [← h1, ← h2]

/-- **C19, "or fails leaving it untouched"** (the SQL part; lock time-outs are
`Corro.Locks.timeout_releases_untouched`): when `restore` refuses (`--self-actor-id` without a
readable destination), the destination database is what it was — except that an absent file now
exists with length 0 — and its subscriptions directory is not wiped. -/
theorem restore_failure_untouched (n n' : Node) (snap : Db) (keep : Keep) (e : RestoreErr)
    (h : restore n snap keep = .error (e, n')) :
    n'.subsDir = n.subsDir ∧ (n'.file = n.file ∨ (n.file = .absent ∧ n'.file = .empty)) := by
  cases keep with
  | no => simp [restore] at h
  | actor a => simp [restore] at h
  | self =>
    simp only [restore] at h
    split at h
    · rename_i hf
      simp only [Except.error.injEq, Prod.mk.injEq] at h
      rw [← h.2]
      exact ⟨rfl, Or.inr ⟨hf, rfl⟩⟩
    · simp only [Except.error.injEq, Prod.mk.injEq] at h
      rw [← h.2]
      exact ⟨rfl, Or.inl rfl⟩
    · split at h
      · simp only [Except.error.injEq, Prod.mk.injEq] at h
        rw [← h.2]
        exact ⟨rfl, Or.inl rfl⟩
      · cases h

/-! ### concrete databases (non-vacuity) -/

/-- source: site 1 (self), knows sites 2 and 3; rows written by itself, by 2 and by 3; one deleted
row (sentinel entry `-1`); members, subscriptions and consul tables populated; rollback mode. -/
def exSrc : Db :=
  { sites := [(0, 1), (1, 2), (2, 3)]
    clock := [⟨"t", "1", "a", 1, 1, 0, 0⟩, ⟨"t", "1", "b", 2, 3, 0, 0⟩, ⟨"t", "2", "a", 1, 1, 0, 1⟩,
              ⟨"t", "3", "-1", 2, 2, 0, 2⟩, ⟨"u", "1+x", "x", 1, 2, 1, 1⟩]
    data := [("t", "1", "x,5"), ("t", "2", "y,n"), ("u", "1+x", "z")]
    dbVersions := [(1, 3), (2, 2), (3, 2)]
    members := 4, subs := some 2, consulServices := some 3, consulChecks := some 1, wal := false }

/-- a node of another actor (site 5) that knows the source under ordinal 1 -/
def exOther : Node :=
  { file := .db { sites := [(0, 5), (1, 1)], clock := [⟨"t", "9", "a", 1, 1, 0, 0⟩], members := 2 }
    subsDir := 3 }

example : WF exSrc := by
  refine ⟨?_, ?_, ?_⟩
  · intro p hp q hq; revert p q; decide
  · intro p hp q hq; revert p q; decide
  · decide

example : (backup exSrc).map (·.sites) = some [(1, 2), (2, 3), (3, 1)] := by decide
example : (backup exSrc).map (fun b => b.clock.map (·.ord)) = some [3, 3, 1, 2, 1] := by decide
example : (backup exSrc).map (fun b => decide (b.changes = exSrc.changes)) = some true := by decide
example : (backup exSrc).map (fun b => (b.members, b.subs, b.consulServices, b.consulChecks, b.wal)) =
    some (0, some 0, none, none, true) := by decide
/-- restored onto a node with a different actor id, keeping that id: ordinal 0 = 5, authors kept -/
example : (backup exSrc).map (fun b => match restore exOther b .self with
    | .ok r => (r.snapshot.sites, r.snapshot.changes.map (·.site), r.node.subsDir)
    | .error _ => ([], [], 99)) =
    some ([(1, 2), (2, 3), (3, 1), (0, 5)], [some 1, some 1, some 2, some 3, some 2], 0) := by decide
/-- restored onto the source itself, keeping its id: its rows are back on ordinal 0 -/
example : (backup exSrc).map (fun b => ((adopt b 1).sites, (adopt b 1).clock.map (·.ord))) =
    some ([(1, 2), (2, 3), (0, 1)], [0, 0, 1, 2, 1]) := by decide
/-- without keeping an id the snapshot is copied as it is; `--self-actor-id` needs a destination -/
example : (backup exSrc).map (fun b => match restore {} b .no with
    | .ok r => r.node.file == .db b | .error _ => false) = some true := by decide
example : (backup exSrc).map (fun b => match restore {} b .self with
    | .ok _ => none | .error e => some e) = some (some (.noSelf, { file := .empty })) := by decide
/-- a database without a row for itself (restored without an id and never opened) cannot be backed up -/
example : (backup exSrc).map (fun b => backup b) = some none := by decide
/-- only the checks table exists: the batch `DROP` stops at the first error and it survives -/
example : ((backup { exSrc with consulServices := none }).map (·.consulChecks)) = some (some 1) := by decide

end Corro.Backup

namespace Corro.Locks

/-- the restore is somewhere between "its next step is its first change to the destination" and
"its next step is its last one" -/
def midCopy (p : Proc) : Bool :=
  p.prog.any Step.isMut &&
    (p.done.any Io.isMut || (match p.prog.head? with | some st => st.isMut | none => false))

/-- every read slot of the journal mode is held exclusively -/
def fullHeld (wal : Bool) (h : Held) : Bool := (readSlots wal).all fun s => h.contains (s, Kind.ex)

/-- **POSIX record locks, as modelled: an exclusive lock excludes.**  In every state any schedule can
reach from a lock-free start, if one process holds a slot exclusively no other process holds it in
any mode. -/
theorem exclusive_excludes {init sys : List Proc} (hi : Init init) (h : Reach init sys)
    {i j : Nat} {p q : Proc} (hij : i ≠ j) (hp : sys[i]? = some p) (hq : sys[j]? = some q)
    {s : Slot} (hs : (s, Kind.ex) ∈ p.held) : ∀ k, (s, k) ∉ q.held := by
  intro k hk
  have := reach_compat hi h i j p q hij hp hq s .ex k hs hk
  cases this.1

/-- while changes to the destination are under way every read slot is held exclusively -/
def holdsAllAt (wal : Bool) (pre post : List Step) : Bool :=
  !(post.any Step.isMut &&
      ((iosOf pre).any Io.isMut || (match post.head? with | some st => st.isMut | none => false)))
    || fullHeld wal (heldAfter [] pre)

/-- no change to the destination precedes a lock request -/
def locksFirstAt (pre post : List Step) : Bool :=
  match post.head? with
  | some (.acquire _ _) => !(iosOf pre).any Io.isMut
  | _ => true

/-- checked by evaluation at every program point of `lock_all` + `restore`: from the first change to
the destination to the last one, every read slot of the destination's journal mode is held
exclusively -/
theorem restore_holds_all (wal : Bool) :
    (List.range ((restoreProg wal).length + 1)).all (fun n =>
      holdsAllAt wal ((restoreProg wal).take n) ((restoreProg wal).drop n)) = true := by
  cases wal <;> decide

/-- checked at every program point: no change to the destination precedes a lock request, and the
program ends without locks -/
theorem restore_locks_first (wal : Bool) :
    (List.range ((restoreProg wal).length + 1)).all (fun n =>
      locksFirstAt ((restoreProg wal).take n) ((restoreProg wal).drop n)) = true ∧
    heldAfter [] (restoreProg wal) = [] := by
  cases wal <;> decide

/-- **C19, "a reader in another process may be refused while the restore runs".**  For both journal
modes, every number of other processes running any programs whatsoever, and every schedule: while
the restore is between its first and its last change to the destination, no other process holds a
lock that lets it read pages (rollback journal: SHARED; WAL: a read-mark), and a request for one
is refused. -/
theorem copy_excludes_readers (wal : Bool) (init sys : List Proc) (r : Nat) (p0 p : Proc)
    (hi : Init init) (hr0 : init[r]? = some p0) (hprog : p0.prog = restoreProg wal)
    (h : Reach init sys) (hp : sys[r]? = some p) (hmid : midCopy p = true) :
    ∀ (j : Nat) (q : Proc), j ≠ r → sys[j]? = some q →
      holdsRead wal q.held = false ∧
      ∀ s k rest, q.prog = .acquire s k :: rest → s ∈ readSlots wal → stepAt sys j .go = none := by
  -- the restore holds every read slot exclusively
  have hall : ∀ s ∈ readSlots wal, (s, Kind.ex) ∈ p.held := by
    have ht := (reach_tracks hi h).2 r p0 p hr0 hp
    rw [hprog] at ht
    obtain ⟨pre, post, hP, hdone, hst⟩ := ht
    rcases hst with ⟨hheld, hpr⟩ | ⟨_, hpr, _⟩
    · have hc := split_check (restore_holds_all wal) hP
      simp only [midCopy, hpr, hdone] at hmid
      simp only [holdsAllAt, hmid, Bool.not_true, Bool.false_or] at hc
      intro s hs
      simp only [fullHeld, List.all_eq_true] at hc
      have := hc s hs
      rw [hheld]
      simpa using this
    · simp [midCopy, hpr] at hmid
  intro j q hj hq
  constructor
  · cases hr : holdsRead wal q.held with
    | false => rfl
    | true =>
      simp only [holdsRead, List.any_eq_true] at hr
      obtain ⟨⟨s, k⟩, hm, hs⟩ := hr
      have hs' : s ∈ readSlots wal := by simpa using hs
      exact absurd hm (exclusive_excludes hi h (Ne.symm hj) hp hq (hall s hs') k)
  · intro s k rest hq' hs
    have hconf : conflicts (others sys j) s k = true :=
      has_conflict (mem_others hp (Ne.symm hj)) (hall s hs) (Or.inr rfl)
    simp only [stepAt, hq, Proc.step, hq', hconf, if_true, Option.map_none]

/-- **C19, "either fails leaving it untouched or replaces its content completely"** (lock part).
In every schedule: when the restore's program has ended — it ran to the end or gave up on a lock
(time-out) — it holds no lock, and either it has not changed the destination at all or it has
performed every one of its changes. -/
theorem timeout_releases_untouched (wal : Bool) (init sys : List Proc) (r : Nat) (p0 p : Proc)
    (hi : Init init) (hr0 : init[r]? = some p0) (hprog : p0.prog = restoreProg wal)
    (h : Reach init sys) (hp : sys[r]? = some p) (hfin : p.prog = []) :
    p.held = [] ∧ (p.done.any Io.isMut = false ∨ p.done = iosOf (restoreProg wal)) := by
  have ht := (reach_tracks hi h).2 r p0 p hr0 hp
  rw [hprog] at ht
  obtain ⟨pre, post, hP, hdone, hst⟩ := ht
  rcases hst with ⟨hheld, hpr⟩ | ⟨hheld, _, s, k, rest, hpost⟩
  · have : post = [] := by rw [← hpr]; exact hfin
    subst this
    simp only [List.append_nil] at hP
    subst hP
    exact ⟨by rw [hheld]; exact (restore_locks_first wal).2, Or.inr hdone⟩
  · have hc := split_check (restore_locks_first wal).1 hP
    simp only [locksFirstAt, hpost, List.head?_cons] at hc
    refine ⟨hheld, Or.inl ?_⟩
    rw [hdone]
    simpa using hc

/-- giving up is possible at every lock request, whatever the others hold -/
theorem give_up_always_possible (sys : List Proc) (i : Nat) (p : Proc) (s : Slot) (k : Kind)
    (rest : List Step) (hp : sys[i]? = some p) (hprog : p.prog = .acquire s k :: rest) :
    stepAt sys i .giveUp = some (sys.set i { p with held := [], prog := [] }) := by
  simp only [stepAt, hp, Proc.step, hprog, Option.map_some]

/-- **C19, "every read that succeeds shows entirely the old or entirely the new database".**  A
process that follows SQLite's discipline (`readsUnderLock`: pages are read only under the journal
mode's read lock) never reads a page while the restore is between its first and its last change,
and does not even hold its read lock then.  A read transaction is the interval during which the
read lock is held; it never overlaps the interval of the restore's changes, so it lies entirely
before the first change or entirely after the last one — in every schedule, with any number of
readers. -/
theorem reads_atomic (wal : Bool) (init sys : List Proc) (r : Nat) (p0 p : Proc)
    (hi : Init init) (hr0 : init[r]? = some p0) (hprog : p0.prog = restoreProg wal)
    (h : Reach init sys) (hp : sys[r]? = some p) (hmid : midCopy p = true)
    (j : Nat) (q0 q : Proc) (hj : j ≠ r) (hq0 : init[j]? = some q0)
    (hdisc : readsUnderLock wal q0.prog = true) (hq : sys[j]? = some q) :
    holdsRead wal q.held = false ∧ q.prog.head? ≠ some (.io .readPages) := by
  have hex := (copy_excludes_readers wal init sys r p0 p hi hr0 hprog h hp hmid j q hj hq).1
  refine ⟨hex, ?_⟩
  intro hhead
  have ht := (reach_tracks hi h).2 j q0 q hq0 hq
  obtain ⟨pre, post, hP, _, hst⟩ := ht
  rcases hst with ⟨hheld, hpr⟩ | ⟨_, hpr, _⟩
  · unfold readsUnderLock at hdisc
    have hc := split_check (φ := fun pre post => match post.head? with
      | some (.io .readPages) => holdsRead wal (heldAfter [] pre)
      | _ => true) hdisc hP
    rw [← hpr, hhead] at hc
    simp only at hc
    rw [← hheld, hex] at hc
    cases hc
  · rw [hpr] at hhead; cases hhead

/-! ### after the restore: what the lock protocol does NOT give (known finding
`restore-live-wal-stale-readers`) -/

/-- While the destination's WAL holds frames, every attached reader notices the restore: whatever
other readers did in between (recovered the wal-index or not), its next read transaction drops its
cache, so it reads the snapshot only.  This is the region generated races stay in. -/
theorem restore_nonempty_wal_readers_notice (f : WalDb) (r : WalReader) (g : Nat) (recovered : Bool)
    (hm : 0 < r.hdr.mxFrame) :
    let f1 := walRestore f g
    let f2 := if recovered then walRecover f1 else f1
    (walBeginRead f2 r).2.cacheGen = none ∧ walQueryGens (walBeginRead f2 r).1 (walBeginRead f2 r).2 = [g] := by
  cases recovered
  · simp [walRestore, walBeginRead, walRecover, walQueryGens]
  · have hne : (⟨true, 0, 0⟩ : WalHdr) ≠ r.hdr := by
      intro h; rw [← h] at hm; exact Nat.lt_irrefl 0 hm
    simp [walRestore, walBeginRead, walRecover, walQueryGens, hne]

/-- **Counterexample at HEAD (the code as it stands violates C19's reader clause).**  Destination in
WAL mode with an EMPTY WAL, two attached readers A and B that have both read it.  After the restore
A starts a read transaction: the header is zeroed, A recovers it — from an empty WAL, so it comes
out exactly as before — and drops its cache.  B then finds a valid header equal to its own copy and
keeps its cache: a query of B that touches a cached and an uncached page sees the old AND the new
database.  Observed on the real CLI with reader processes (corpus/C19/restore_stale_readers_empty_wal.ops). -/
theorem restore_empty_wal_stale_reader_counterexample :
    let h0 : WalHdr := ⟨true, 0, 0⟩
    let f0 : WalDb := { gen := 0, walFrames := 0, walSalt := 7, shm := h0 }
    let a : WalReader := { hdr := h0, cacheGen := some 0 }
    let b : WalReader := { hdr := h0, cacheGen := some 0 }
    let f1 := walRestore f0 1
    let (f2, a') := walBeginRead f1 a
    let (f3, b') := walBeginRead f2 b
    walQueryGens f2 a' = [1] ∧ b'.cacheGen = some 0 ∧ walQueryGens f3 b' = [0, 1] := by
  decide

/-! ### SQLite's lock sequences follow the discipline; concrete schedules -/

example : readsUnderLock false (rollbackReader 3) = true := by decide
example : readsUnderLock false rollbackWriter = true := by decide
example : readsUnderLock true (walReader .wRead0 2) = true := by decide
example : readsUnderLock true (walReader .wRead3 1) = true := by decide
example : readsUnderLock true (walWriter .wRead1) = true := by decide
/-- a process that reads pages without any lock does not -/
example : readsUnderLock true [.io .readPages] = false := by decide

/-- rollback mode: the restore (process 0) has taken its locks and copies; the reader (process 1)
cannot even get PENDING, and after the restore has closed its files it reads -/
example :
    let sys0 : List Proc := [{ prog := restoreProg false }, { prog := rollbackReader 1 }]
    let sys1 := runSched sys0 (List.replicate 8 (0, .go))
    (sys1[0]?.map midCopy) = some true ∧ stepAt sys1 1 .go = none ∧
    ((runSched sys1 (List.replicate 3 (0, .go) ++ List.replicate 5 (1, .go)))[1]?.map (·.done)) =
      some [.readPages] := by decide

/-- WAL mode: a reader inside a transaction on read-mark 0 holds the restore off (it times out
without having touched anything); once the reader is done the restore gets through -/
example :
    let sys0 : List Proc := [{ prog := restoreProg true }, { prog := walReader .wRead0 1 }]
    let sys1 := runSched sys0 (List.replicate 5 (1, .go) ++ List.replicate 8 (0, .go))
    (sys1[0]?.map (fun p => p.prog.head?)) = some (some (.acquire .wRead0 .ex)) ∧
    stepAt sys1 0 .go = none ∧
    ((runSched sys1 [(0, .giveUp)])[0]?.map (fun p => (p.held, p.done))) = some ([], [.readHdr]) ∧
    ((runSched sys1 (List.replicate 2 (1, .go) ++ List.replicate 10 (0, .go)))[0]?.map (·.done)) =
      some [.readHdr, .rmJournal, .truncWal, .copy, .zeroShm] := by decide

end Corro.Locks
