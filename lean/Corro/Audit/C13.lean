import Corro.Props.C13
#print axioms Corro.SubLife.restore_iff_completed
#print axioms Corro.SubLife.completed_only_by_drainEnd
#print axioms Corro.SubLife.completed_implies_drained
#print axioms Corro.SubLife.restart_continues_ids
#print axioms Corro.SubLife.graceful_overtaken_restores
#print axioms Corro.SubLife.alive_not_completed
#print axioms Corro.SubLife.abrupt_is_discarded
#print axioms Corro.SubLife.no_stale_serving
#print axioms Corro.SubLife.restored_rows_eq_query_partial
#print axioms Corro.SubLife.restored_stale_unsub_counterexample
#print axioms Corro.SubLife.restored_stale_late_match_counterexample
