import Corro.Props.C16
#print axioms Corro.ClusterGate.missing_id_is_zero
#print axioms Corro.ClusterGate.broadcast_accepted_iff_same_cluster
#print axioms Corro.ClusterGate.sync_rejected_first
#print axioms Corro.ClusterGate.sync_answer_only_same_cluster
#print axioms Corro.ClusterGate.candidates_same_cluster
#print axioms Corro.ClusterGate.targets_same_cluster
#print axioms Corro.ClusterGate.ring0_targets_same_cluster
#print axioms Corro.ClusterGate.all_sites_guarded
#print axioms Corro.ClusterGate.all_sites_fresh
#print axioms Corro.ClusterGate.decisions_follow_current_id
#print axioms Corro.ClusterGate.observation_stale_connection_after_set_id
