import Corro.Props.C03
#print axioms Corro.Node.seq_merge_spec
#print axioms Corro.Node.seq_merge_spec_other
#print axioms Corro.Node.seq_merge_case5_total
#print axioms Corro.Node.buffered_rows_first_writer_wins
#print axioms Corro.Node.buffered_seqs_covered
#print axioms Corro.Node.invisible_until_covered
#print axioms Corro.Node.visible_only_if_covered
#print axioms Corro.Node.invisible_while_dead
#print axioms Corro.Node.apply_eq_unchunked
#print axioms Corro.Node.covered_applied_once
#print axioms Corro.Node.apply_eq_unchunked_two
#print axioms Corro.Node.partial_resolved_by_holder
#print axioms Corro.Node.partial_resolved_by_empty
