import Corro.Props.C03
import Corro.Props.C03Sql
#print axioms Corro.Node.seq_merge_spec
#print axioms Corro.Node.seq_merge_spec_other
#print axioms Corro.Node.seq_merge_case5_total
#print axioms Corro.Node.buffered_rows_first_writer_wins
#print axioms Corro.Node.buffered_seqs_covered
#print axioms Corro.Node.invisible_until_covered
#print axioms Corro.Node.visible_only_if_covered
#print axioms Corro.Node.invisible_while_dead
#print axioms Corro.Node.apply_eq_unchunked
#print axioms Corro.Node.covered_applied_once
#print axioms Corro.Node.apply_eq_unchunked_two
#print axioms Corro.Node.partial_resolved_by_holder
#print axioms Corro.Node.partial_resolved_by_empty
#print axioms Corro.Node.extracted_touching_eq_model
#print axioms Corro.Node.extracted_touching_spec
#print axioms Corro.Node.extracted_delete_is_model_delete
#print axioms Corro.Node.extracted_buffer_key_is_model_key
#print axioms Corro.Node.extracted_clear_key_includes_site
#print axioms Corro.Node.extracted_clear_selects_model_rows
#print axioms Corro.Node.extracted_gap_test_from_zero
