import Corro.Props.C15
#print axioms Corro.Schema.reachable_inv
#print axioms Corro.Schema.reachable_run
#print axioms Corro.Schema.plan_additive
#print axioms Corro.Schema.plan_ok_additive
#print axioms Corro.Schema.submission_additive_db
#print axioms Corro.Schema.submission_additive_mem
#print axioms Corro.Schema.rows_preserved
#print axioms Corro.Schema.rows_preserved_run
#print axioms Corro.Schema.reject_is_noop
#print axioms Corro.Schema.resubmit_noop
#print axioms Corro.Schema.submit_imports_nothing
#print axioms Corro.Schema.restart_same_schema
#print axioms Corro.Schema.mem_matches_db
#print axioms Corro.Schema.pk_never_changes
