import Corro.Props.C08
#print axioms Corro.Chunker.incr_last_nil
#print axioms Corro.Chunker.go_tiles
#print axioms Corro.Chunker.chunks_contiguous
#print axioms Corro.Chunker.tiles_none_below
#print axioms Corro.Chunker.tiles_cover_once
#print axioms Corro.Chunker.go_flatten
#print axioms Corro.Chunker.chunks_partition_changes
#print axioms Corro.Chunker.go_inside
#print axioms Corro.Chunker.chunks_inside
#print axioms Corro.Chunker.go_nonfinal_nonempty
#print axioms Corro.Chunker.nonfinal_chunk_nonempty
#print axioms Corro.Chunker.chunkRangeAux_spec
#print axioms Corro.Chunker.chunkRange_union
