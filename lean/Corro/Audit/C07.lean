import Corro.Props.C07
#print axioms Corro.LocalTx.tx_all_or_nothing
#print axioms Corro.LocalTx.error_only_if_failing
#print axioms Corro.LocalTx.noop_consumes_nothing
#print axioms Corro.LocalTx.changes_nothing_is_noop
#print axioms Corro.LocalTx.unacknowledged_no_effect
#print axioms Corro.LocalTx.ack_version_succ
#print axioms Corro.LocalTx.acked_versions_consecutive
#print axioms Corro.LocalTx.acked_versions_from_fresh
#print axioms Corro.LocalTx.reachable_good
#print axioms Corro.LocalTx.own_never_needed_step
#print axioms Corro.LocalTx.own_never_needed
#print axioms Corro.LocalTx.tx_changes_attributed
#print axioms Corro.LocalTx.broadcast_tiles
#print axioms Corro.LocalTx.broadcast_covers_once
#print axioms Corro.LocalTx.broadcast_tiles_run
