import Corro.Props.C09
#print axioms Corro.Pack.unpack_pack
#print axioms Corro.Pack.pack_too_many
#print axioms Corro.Pack.unpack_total
#print axioms Corro.Pack.unpack_consumes_bounded
#print axioms Corro.Pack.pack_int_minimal
#print axioms Corro.Pack.pack_payload_layout
