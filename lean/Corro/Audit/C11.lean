import Corro.Props.C11
#print axioms Corro.Ivm.covered_of_inner
#print axioms Corro.Ivm.ivm_correct_left_partial
#print axioms Corro.Ivm.ivm_correct_inner
#print axioms Corro.Ivm.represents_eval
#print axioms Corro.Ivm.initial_correct
#print axioms Corro.Ivm.run_correct
#print axioms Corro.Ivm.ivm_correct_history
#print axioms Corro.Ivm.events_replay
#print axioms Corro.Ivm.change_ids_succ
#print axioms Corro.Ivm.no_event_if_unchanged
#print axioms Corro.Ivm.changesOf_shape
#print axioms Corro.Ivm.filter_complete
#print axioms Corro.Ivm.ivm_left_join_counterexample
#print axioms Corro.Ivm.ivm_left_join_delete_counterexample
#print axioms Corro.Ivm.empty_string_key_counterexample
