import Corro.Props.C12
#print axioms Corro.CatchUp.snapshot_consistent
#print axioms Corro.CatchUp.ids_strictly_increasing_from
#print axioms Corro.CatchUp.done_frozen
#print axioms Corro.CatchUp.ids_strictly_increasing_partial
#print axioms Corro.CatchUp.handover_duplicate_counterexample
#print axioms Corro.CatchUp.lag_swallowed_gap_counterexample
#print axioms Corro.CatchUp.resume_outside_log
#print axioms Corro.CatchUp.resume_outside_log_reported
#print axioms Corro.CatchUp.client_detects
#print axioms Corro.CatchUp.client_detects_first
