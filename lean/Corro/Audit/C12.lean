import Corro.Props.C12
#print axioms Corro.CatchUp.snapshot_consistent
#print axioms Corro.CatchUp.ids_strictly_increasing_from
#print axioms Corro.CatchUp.resume_base
#print axioms Corro.CatchUp.ids_strictly_increasing_before_handover
#print axioms Corro.CatchUp.done_frozen
#print axioms Corro.CatchUp.paused_batch_is_schedule
#print axioms Corro.CatchUp.never_caught_up_between_send_and_commit
#print axioms Corro.CatchUp.handover_duplicate_before_fix
#print axioms Corro.CatchUp.handover_duplicate_fixed
#print axioms Corro.CatchUp.lag_swallowed_gap_before_fix
#print axioms Corro.CatchUp.lag_swallowed_gap_fixed
#print axioms Corro.CatchUp.resume_outside_log
#print axioms Corro.CatchUp.resume_outside_log_reported
#print axioms Corro.CatchUp.client_detects
#print axioms Corro.CatchUp.client_detects_first
