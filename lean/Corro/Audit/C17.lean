import Corro.Props.C17
#print axioms Corro.Authz.authz_exact
#print axioms Corro.Authz.denied_runs_nothing
#print axioms Corro.Authz.authorized_runs_handler
#print axioms Corro.Authz.open_when_unconfigured
#print axioms Corro.Authz.malformed_rejected_even_unconfigured
#print axioms Corro.Authz.all_routes_guarded
#print axioms Corro.Authz.every_route_denies
#print axioms Corro.Authz.read_gate
#print axioms Corro.Authz.parse_canonical
