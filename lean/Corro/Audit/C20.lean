import Corro.Props.C20
#print axioms Corro.WritePool.at_most_one_writer
#print axioms Corro.WritePool.within_pool_and_permits
#print axioms Corro.WritePool.priority_first
#print axioms Corro.WritePool.enqueue_at_tail
#print axioms Corro.WritePool.no_lost_handoff
#print axioms Corro.WritePool.never_stuck_while_queued
#print axioms Corro.WritePool.dead_entry_discarded
#print axioms Corro.WritePool.progress_decreases_measure
#print axioms Corro.WritePool.extracted_pool_cfg_valid
#print axioms Corro.LockOrder.ordered_acquisition_deadlock_free
#print axioms Corro.LockOrder.extracted_programs_ordered
#print axioms Corro.LockOrder.extracted_ranking_lock_order
#print axioms Corro.LockOrder.extracted_programs_nontrivial
#print axioms Corro.LockOrder.extracted_instances_deadlock_free
#print axioms Corro.LockOrder.swapped_order_deadlocks
#print axioms Corro.LockOrder.blocking_send_under_conn_deadlocks
