import Corro.Props.C02
#print axioms Corro.Book.insert_db_spec
#print axioms Corro.Book.insert_db_spec_ranges
#print axioms Corro.Book.insert_db_wf_noerror
#print axioms Corro.Book.insert_db_keeps_partials
#print axioms Corro.Book.step_wf
#print axioms Corro.Book.reachable_wf
#print axioms Corro.Book.reachable_wf_from_empty
#print axioms Corro.Book.advertised_partition
#print axioms Corro.Book.advertised_inside
#print axioms Corro.Book.advertised_exact
#print axioms Corro.Book.advertised_held
#print axioms Corro.Book.from_conn_roundtrip
#print axioms Corro.Book.from_conn_head
