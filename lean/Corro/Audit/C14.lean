import Corro.Props.C14
#print axioms Corro.Updates.code_params_admissible
#print axioms Corro.Updates.filter_keeps_first_cl_per_key
#print axioms Corro.Updates.filter_keys_nodup
#print axioms Corro.Updates.every_key_notified
#print axioms Corro.Updates.suppressed_only_by_newer
#print axioms Corro.Updates.event_kind_is_parity
#print axioms Corro.Updates.no_stale_within_horizon
#print axioms Corro.Updates.horizon_not_below_cache
#print axioms Corro.Updates.no_stale_partial
#print axioms Corro.Updates.parity_is_fate
#print axioms Corro.Updates.deleted_iff_row_absent
#print axioms Corro.Updates.kept_of_few_candidates
#print axioms Corro.Updates.stale_after_eviction_counterexample
#print axioms Corro.Updates.newer_lost_after_eviction_counterexample
#print axioms Corro.Updates.stale_after_eviction_general
#print axioms Corro.Updates.stale_after_eviction_code_params
