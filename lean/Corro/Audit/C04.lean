import Corro.Props.C04
#print axioms Corro.Needs.full_complete
#print axioms Corro.Needs.partial_complete
#print axioms Corro.Needs.requests_within_head
#print axioms Corro.Needs.requests_are_lacked
#print axioms Corro.Needs.full_requests_held_counterexample
#print axioms Corro.Needs.full_requests_held_partial
#print axioms Corro.Needs.never_own_actor
#print axioms Corro.Needs.dedup_preserves_union
#print axioms Corro.Needs.dedup_within_server
#print axioms Corro.Needs.dedup_no_duplicates
#print axioms Corro.Needs.code_consts_admissible
#print axioms Corro.Needs.code_session_sound
