-- This module serves as the root of the `Corro` library.
-- Import modules here that should be built as part of the library.
import Corro.Basic
