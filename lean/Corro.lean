-- Root of the `Corro` library.  Property theorems are built per module
-- (`lake build Corro.Props.Cxx`); see tools/setup and tools/check.
import Corro.Model.Chunker
