import Corro.Model.Book
import Driver.Util
/-! Line-protocol driver for C02: one origin actor's bookkeeping on one node.

ops:  `insert <ranges>` · `partial <v> <lo-hi> <last_seq>` · `reload` · `sync`
answer (state ops): `<status> gaps=… needed=… max=… dbv=… partials=v/last/ranges;… seqrows=v/s-e/last;…`
answer (`sync`):    `sync head=… need=… pneed=v/ranges;…` -/
namespace Driver.C02
open Corro Corro.Book

abbrev State := Node
def init : State := Node.empty

def showOpt : Option Nat → String
  | none => "none"
  | some x => toString x

def showErr : DbErr → String
  | .deleteMiss => "err delete-miss"
  | .insertConflict => "err insert-conflict"
  | .seqNonContiguous => "err seq-non-contiguous"
  | .seqConflict => "err seq-conflict"

def showState (st : Node) : String :=
  let ps := st.book.partials.map (fun e => s!"{e.1}/{e.2.last}/{showRanges e.2.seqs}")
  let sr := st.db.seqs.map (fun r => s!"{r.1}/{r.2.1}-{r.2.2.1}/{r.2.2.2}")
  s!"gaps={showRanges st.db.gaps} needed={showRanges st.book.needed} max={showOpt st.book.max} " ++
  s!"dbv={showOpt st.db.dbv} partials={showList ps ";"} seqrows={showList sr ";"}"

def showSync (o : SyncOut) : String :=
  let pn := o.partialNeed.map (fun e => s!"{e.1}/{showRanges e.2}")
  s!"sync head={showOpt o.head} need={showRanges o.need} pneed={showList pn ";"}"

/-- ranges handed to `RangeInclusiveSet` must be forward (the real crate panics otherwise);
version 0 is outside the model (`start - 1` underflows in the real code). -/
def okRanges (rs : List (Nat × Nat)) : Bool := !rs.isEmpty && rs.all (fun r => 1 ≤ r.1 && r.1 ≤ r.2)

def step (st : State) (toks : List String) : Option (State × String) :=
  match toks with
  | ["insert", rs] => do
    let rs ← rangeList? rs
    if !okRanges rs then none else
    match opInsert st rs with
    | .skipped => pure (st, "skip " ++ showState st)
    | .done st' => pure (st', "ok " ++ showState st')
    | .failed e => pure (st, showErr e ++ " " ++ showState st)
  | ["partial", v, seqs, last] => do
    let v ← v.toNat?; let seqs ← range? seqs; let last ← last.toNat?
    if v = 0 then none else
    match opPartial st v seqs last with
    | .skipped => pure (st, "skip " ++ showState st)
    | .invalid => pure (st, "invalid " ++ showState st)
    | .failed e => pure (st, showErr e ++ " " ++ showState st)
    | .done st' => pure (st', "ok " ++ showState st')
  | ["reload"] =>
    let st' := opReload st
    some (st', "ok " ++ showState st')
  | ["sync"] => some (st, showSync (generateSync st.book))
  | _ => none

end Driver.C02
def main : IO Unit := Driver.runLoop Driver.C02.init Driver.C02.step
