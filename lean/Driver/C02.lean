import Driver.Util
/-! Driver stub for C02: not built yet. -/
namespace Driver.C02
abbrev State := Unit
def init : State := ()
def step (st : State) (_toks : List String) : Option (State × String) := some (st, "bad-op")
end Driver.C02
def main : IO Unit := Driver.runLoop Driver.C02.init Driver.C02.step
