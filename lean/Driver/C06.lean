import Driver.ClusterOps
/-! Driver for C06: the cluster op family on the node model. -/
def main : IO Unit := Driver.runLoop ({} : Driver.ClusterOps.CState) Driver.ClusterOps.step
