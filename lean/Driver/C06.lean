import Driver.Util
/-! Driver stub for C06: not built yet. -/
namespace Driver.C06
abbrev State := Unit
def init : State := ()
def step (st : State) (_toks : List String) : Option (State × String) := some (st, "bad-op")
end Driver.C06
def main : IO Unit := Driver.runLoop Driver.C06.init Driver.C06.step
