import Driver.Util
/-! Driver stub for C18: not built yet. -/
namespace Driver.C18
abbrev State := Unit
def init : State := ()
def step (st : State) (_toks : List String) : Option (State × String) := some (st, "bad-op")
end Driver.C18
def main : IO Unit := Driver.runLoop Driver.C18.init Driver.C18.step
