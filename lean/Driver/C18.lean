import Corro.Model.Members
import Driver.Util
/-! Line-protocol driver for C18 (membership view).

ops:  `up <actor> <addr> <ts> <cluster>` · `down <actor> <addr> <ts> <cluster>` ·
      `rtt <addr> <millis>` · `ring0 <cluster>`
answer after every op: `<ret> | <states> | <by_addr> | <rtts>` with
  ret     `new`/`upd`/`ign` · `removed=true`/`removed=false` · `ok` · `r0=<addr list>`
  states  `actor:addr:ts:cluster:ring` (ring `n` = None), sorted by actor
  by_addr `addr>actor`, sorted by addr
  rtts    `addr:len:sum`, sorted by addr -/
namespace Driver.C18
open Corro.Members

def showRing : Option Nat → String
  | none => "n"
  | some r => toString r

def showState (m : Members) : String :=
  showList (m.states.map fun kv =>
      s!"{kv.1}:{kv.2.addr}:{kv.2.ts}:{kv.2.cluster}:{showRing kv.2.ring}") ++ " | " ++
  showList (m.byAddr.map fun kv => s!"{kv.1}>{kv.2}") ++ " | " ++
  showList (m.rtts.map fun kv => s!"{kv.1}:{kv.2.length}:{kv.2.sum}")

def showAdd : AddResult → String
  | .newMember => "new"
  | .updated => "upd"
  | .ignored => "ign"

abbrev State := Members
def init : State := Corro.Members.init

def step (m : State) (toks : List String) : Option (State × String) :=
  match toks with
  | ["up", id, addr, ts, cl] => do
    let id ← id.toNat?; let addr ← addr.toNat?; let ts ← ts.toNat?; let cl ← cl.toNat?
    let (m', r) := addMember m id addr ts cl
    pure (m', showAdd r ++ " | " ++ showState m')
  | ["down", id, addr, ts, cl] => do
    let id ← id.toNat?; let _ ← addr.toNat?; let ts ← ts.toNat?; let _ ← cl.toNat?
    let (m', r) := removeMember m id ts
    pure (m', s!"removed={r} | " ++ showState m')
  | ["rtt", addr, ms] => do
    let addr ← addr.toNat?; let ms ← ms.toNat?
    let m' := addRtt m addr ms
    pure (m', "ok | " ++ showState m')
  | ["ring0", cl] => do
    let cl ← cl.toNat?
    pure (m, "r0=" ++ showNats (ring0 m cl) ++ " | " ++ showState m)
  | _ => none

end Driver.C18
def main : IO Unit := Driver.runLoop Driver.C18.init Driver.C18.step
