import Corro.Model.Members
import Corro.Gen.MembersConsts
import Corro.Gen.MembersGlue
import Driver.Util
/-! Line-protocol driver for C18 (membership view).

ops:  `up <actor> <addr> <ts> <cluster>` · `down <actor> <addr> <ts> <cluster>` ·
      `rtt <addr> <millis>` · `ring0 <cluster>`
answer after every op: `<ret> | <states> | <by_addr> | <rtts>` with
  ret     `new`/`upd`/`ign` · `removed=true`/`removed=false` · `ok` · `r0=<addr list>`
  states  `actor:addr:ts:cluster:ring` (ring `n` = None), sorted by actor
  by_addr `addr>actor`, sorted by addr
  rtts    `addr:len:sum`, sorted by addr
the glue family: `nup|ndown|nrename|nrejoin <actor> <addr> <ts> <cluster>` · `nactive` · `nidle` ·
`ndefunct` queue a notification (`queued`); `flush` folds `applyNotif` with the dispatch table read off
`handle_notifications` (`Corro/Gen/MembersGlue.lean`) over the queue (`flushed | <state>`). -/
namespace Driver.C18
open Corro.Members

def showRing : Option Nat → String
  | none => "n"
  | some r => toString r

def showState (m : Members) : String :=
  showList (m.states.map fun kv =>
      s!"{kv.1}:{kv.2.addr}:{kv.2.ts}:{kv.2.cluster}:{showRing kv.2.ring}") ++ " | " ++
  showList (m.byAddr.map fun kv => s!"{kv.1}>{kv.2}") ++ " | " ++
  showList (m.rtts.map fun kv => s!"{kv.1}:{kv.2.length}:{kv.2.sum}")

def showAdd : AddResult → String
  | .newMember => "new"
  | .updated => "upd"
  | .ignored => "ign"

/-- the member table and the notifications queued for the next `flush` (oldest first) -/
structure State where
  m : Members
  queue : List (NotifKind × Nat × Nat × Nat × Nat)

def init : State := ⟨Corro.Members.init, []⟩

/-- the constants of the source as it is now (`Corro/Gen/MembersConsts.lean`, regenerated from
`members.rs` at the start of every check); the extractor refuses a zero-capacity window -/
def cfg : Cfg := ⟨Corro.Gen.MembersConsts.ringBuckets, Corro.Gen.MembersConsts.rttCap, by decide⟩

def kindOf : String → Option NotifKind
  | "nup" => some .memberUp
  | "ndown" => some .memberDown
  | "nrename" => some .rename
  | "nrejoin" => some .rejoin
  | "nactive" => some .active
  | "nidle" => some .idle
  | "ndefunct" => some .defunct
  | _ => none

def step (s : State) (toks : List String) : Option (State × String) :=
  let m := s.m
  match toks with
  | ["up", id, addr, ts, cl] => do
    let id ← id.toNat?; let addr ← addr.toNat?; let ts ← ts.toNat?; let cl ← cl.toNat?
    let (m', r) := addMember cfg m id addr ts cl
    pure ({ s with m := m' }, showAdd r ++ " | " ++ showState m')
  | ["down", id, addr, ts, cl] => do
    let id ← id.toNat?; let _ ← addr.toNat?; let ts ← ts.toNat?; let _ ← cl.toNat?
    let (m', r) := removeMember m id ts
    pure ({ s with m := m' }, s!"removed={r} | " ++ showState m')
  | ["rtt", addr, ms] => do
    let addr ← addr.toNat?; let ms ← ms.toNat?
    let m' := addRtt cfg m addr ms
    pure ({ s with m := m' }, "ok | " ++ showState m')
  | ["ring0", cl] => do
    let cl ← cl.toNat?
    pure (s, "r0=" ++ showNats (ring0 m cl) ++ " | " ++ showState m)
  | [k, id, addr, ts, cl] => do
    let k ← kindOf k
    let id ← id.toNat?; let addr ← addr.toNat?; let ts ← ts.toNat?; let cl ← cl.toNat?
    if k = .active ∨ k = .idle ∨ k = .defunct then none
    else pure ({ s with queue := s.queue ++ [(k, id, addr, ts, cl)] }, "queued")
  | ["flush"] =>
    let m' := s.queue.foldl (fun m n =>
      applyNotif cfg Corro.Gen.MembersGlue.notifTable m n.1 n.2.1 n.2.2.1 n.2.2.2.1 n.2.2.2.2) m
    some (⟨m', []⟩, "flushed | " ++ showState m')
  | [k] => do
    let k ← kindOf k
    if k = .active ∨ k = .idle ∨ k = .defunct then
      pure ({ s with queue := s.queue ++ [(k, 0, 0, 0, 0)] }, "queued")
    else none
  | _ => none

end Driver.C18
def main : IO Unit := Driver.runLoop Driver.C18.init Driver.C18.step
