import Corro.Model.Needs
import Corro.Gen.SyncConsts
import Driver.Util
/-!
Driver for C04.  Two ops:

`can <ourActor> <ourHeads> <ourNeed> <ourPartials> <peerActor> <peerHeads> <peerNeed> <peerPartials>`

`session <our state: 4 tokens> | <mode> <peer state: 4 tokens> | <mode> <peer state> …`  (1..=4 peers,
mode `ok` = the peer completes the handshake, `close` / `reject` / `silent` = it does not; actor ids of
us and the peers pairwise distinct, else `bad-op`)

* heads    `a:h;a:h`                 (`-` = empty map)
* need     `a:lo-hi,lo-hi;a:…`       (`a:-` = empty range list)
* partials `a:v=lo-hi,lo-hi/v=-;a:…`

Map keys must be strictly increasing (the canonical form of a `HashMap`), otherwise `bad-op`.
Answer: `a:F<lo>-<hi>,P<v>=<lo>-<hi>+<lo>-<hi>,…;a:…` (actors ascending, needs in the order
`compute_available_needs` pushes them, partial needs by ascending version), `-` for no needs,
`err backward-range` if any range has `lo > hi` (the real code would panic inside rangemap).

Answer of `session`: what `syncSession k d us <ok peers>` puts on the wire, `k` = `Corro.Gen.SyncConsts.syncChunkSize`,
`d` = `Corro.Gen.SyncConsts.syncDrainPerRound` (regenerated from peer/mod.rs by tools/extract_c04.py at the start of
every check; both 10 as the code stands), in one of three forms (the rule
is evaluated on the model's computed needs; the harness evaluates the same rule on the real ones).  The only
thing of a real session that the op line does not determine is the order of the ACTORS inside one server's
queue (iteration order of a `HashMap` built inside `compute_available_needs`; the model walks the actors in
ascending order):
* `seq <srv>><actor>:<need>,…` — no server has needs for two or more actors: everything is determined; the
  whole session in sending order;
* `act <srv>[<a>:<need>,…;<a>:…]|…` — every server with needs for 2+ actors has at most `d` queued items, so
  it is drained completely in its first turn and, de-duplication being per actor, what it is sent per actor
  does not depend on the actor order: per server (members order, servers that are sent nothing omitted), per
  actor ascending, in sending order;
* `set <a>:F<lo>-<hi>,…,P<v>=<seqs>,…;…` — otherwise only order-independent facts: per actor the union of all
  `Full` requests (maximal ranges) and per version the union of the requested seqs.
`err handshake` when no peer is `ok`.
-/
namespace Driver.C04
open Corro Corro.Needs

def kv? (s sep : String) : Option (String × String) :=
  match s.splitOn sep with
  | [a, b] => some (a, b)
  | _ => none

def parseHeads (s : String) : Option (List (Nat × Nat)) :=
  (splitList s ";").mapM (fun e => do
    let (a, h) ← kv? e ":"
    pure (← a.toNat?, ← h.toNat?))

def parseNeed (s : String) : Option (List (Nat × List (Nat × Nat))) :=
  (splitList s ";").mapM (fun e => do
    let (a, rs) ← kv? e ":"
    pure (← a.toNat?, ← rangeList? rs))

def parsePartials (s : String) : Option (List (Nat × List (Nat × List (Nat × Nat)))) :=
  (splitList s ";").mapM (fun e => do
    let (a, vs) ← kv? e ":"
    let pm ← (splitList vs "/").mapM (fun ve => do
      let (v, rs) ← kv? ve "="
      pure (← v.toNat?, ← rangeList? rs))
    pure (← a.toNat?, pm))

def increasing : List Nat → Bool
  | a :: b :: t => a < b && increasing (b :: t)
  | _ => true

def keysOk (s : SyncState) : Bool :=
  increasing (s.heads.map (·.1)) && increasing (s.need.map (·.1)) &&
  increasing (s.partialNeed.map (·.1)) && s.partialNeed.all (fun e => increasing (e.2.map (·.1)))

def forward (rs : List (Nat × Nat)) : Bool := rs.all (fun r => r.1 ≤ r.2)

def rangesOk (s : SyncState) : Bool :=
  s.need.all (fun e => forward e.2) && s.partialNeed.all (fun e => e.2.all (fun p => forward p.2))

def parseState (a h n p : String) : Option SyncState := do
  let st : SyncState := ⟨← a.toNat?, ← parseHeads h, ← parseNeed n, ← parsePartials p⟩
  if keysOk st then pure st else none

def showNeed : Need → String
  | .full lo hi => s!"F{lo}-{hi}"
  | .part v sq => s!"P{v}=" ++ "+".intercalate (sq.map showRange)

def showNeeds (ns : List (Actor × List Need)) : String :=
  showList (ns.map (fun an => s!"{an.1}:" ++ ",".intercalate (an.2.map showNeed))) ";"

/-! ### `session` -/

/-- `| mode a h n p | mode a h n p …` → (handshake succeeds?, state) per peer -/
def parsePeers : List String → Option (List (Bool × SyncState))
  | [] => some []
  | "|" :: m :: a :: h :: n :: p :: rest => do
    let live ← match m with
      | "ok" => some true
      | "close" => some false
      | "reject" => some false
      | "silent" => some false
      | _ => none
    let st ← parseState a h n p
    let tl ← parsePeers rest
    pure ((live, st) :: tl)
  | _ => none

def insertNat (x : Nat) : List Nat → List Nat
  | [] => [x]
  | y :: t => if x < y then x :: y :: t else if x = y then y :: t else y :: insertNat x t

/-- ascending, without duplicates -/
def sortDedup (xs : List Nat) : List Nat := xs.foldl (fun acc x => insertNat x acc) []

def distinct (xs : List Nat) : Bool := (sortDedup xs).length == xs.length

inductive Form where
  | seq | act | set

/-- chunk size of `chunk_range(versions, _)` in `parallel_sync`, as extracted from the source -/
def chunkK : Nat := Corro.Gen.SyncConsts.syncChunkSize
/-- `while drained < _` in `parallel_sync`, as extracted from the source -/
def drainD : Nat := Corro.Gen.SyncConsts.syncDrainPerRound

/-- (number of actors, queue length) of the server made from one peer -/
def queueShape (us p : SyncState) : Nat × Nat :=
  let needs := computeAvailableNeeds us p
  (needs.length, (queueOf chunkK needs).length)

def formOf (shapes : List (Nat × Nat)) : Form :=
  if shapes.all (fun s => s.1 ≤ 1) then .seq
  else if shapes.all (fun s => s.1 ≤ 1 || s.2 ≤ drainD) then .act
  else .set

def showSeq (sent : List (Actor × Actor × Need)) : String :=
  "seq " ++ showList (sent.map (fun e => s!"{e.1}>{e.2.1}:" ++ showNeed e.2.2))

def showAct (peers : List SyncState) (sent : List (Actor × Actor × Need)) : String :=
  let srvs := peers.filterMap (fun p =>
    let mine := sent.filter (fun e => e.1 = p.actor)
    if mine.isEmpty then none else
    let actors := sortDedup (mine.map (·.2.1))
    let es := actors.map (fun a =>
      s!"{a}:" ++ ",".intercalate ((mine.filter (fun e => e.2.1 = a)).map (fun e => showNeed e.2.2)))
    some (s!"{p.actor}[" ++ ";".intercalate es ++ "]"))
  "act " ++ showList srvs "|"

def showSet (sent : List (Actor × Actor × Need)) : String :=
  let actors := sortDedup (sent.map (·.2.1))
  let es := actors.map (fun a =>
    let mine := (sent.filter (fun e => e.2.1 = a)).map (·.2.2)
    let fulls := RSet.ofList (mine.filterMap (fun n => match n with | .full lo hi => some (lo, hi) | _ => none))
    let versions := sortDedup (mine.filterMap (fun n => match n with | .part v _ => some v | _ => none))
    let parts := versions.map (fun v =>
      let seqs := RSet.ofList (mine.flatMap (fun n => match n with
        | .part w sq => if w = v then sq else []
        | _ => []))
      s!"P{v}=" ++ "+".intercalate (seqs.map showRange))
    s!"{a}:" ++ ",".intercalate (fulls.map (fun r => "F" ++ showRange r) ++ parts))
  "set " ++ showList es ";"

def runSession (ua uh un up : String) (rest : List String) : Option String := do
  let us ← parseState ua uh un up
  let peers ← parsePeers rest
  if peers.isEmpty || peers.length > 4 then none else
  if !distinct (us.actor :: peers.map (·.2.actor)) then none else
  if !(rangesOk us && peers.all (fun p => rangesOk p.2)) then pure "err backward-range" else
  let live := (peers.filter (·.1)).map (·.2)
  if live.isEmpty then pure "err handshake" else
  let sent := syncSession chunkK drainD us live
  match formOf (live.map (queueShape us)) with
  | .seq => pure (showSeq sent)
  | .act => pure (showAct live sent)
  | .set => pure (showSet sent)

def run (toks : List String) : Option String :=
  match toks with
  | ["can", ua, uh, un, up, pa, ph, pn, pp] => do
    let us ← parseState ua uh un up
    let peer ← parseState pa ph pn pp
    if !(rangesOk us && rangesOk peer) then pure "err backward-range" else
    pure (showNeeds (computeAvailableNeeds us peer))
  | "session" :: ua :: uh :: un :: up :: rest => runSession ua uh un up rest
  | _ => none

abbrev State := Unit
def init : State := ()
def step (st : State) (toks : List String) : Option (State × String) := (run toks).map (st, ·)

end Driver.C04
def main : IO Unit := Driver.runLoop Driver.C04.init Driver.C04.step
