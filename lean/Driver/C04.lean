import Driver.Util
/-! Driver stub for C04: not built yet. -/
namespace Driver.C04
abbrev State := Unit
def init : State := ()
def step (st : State) (_toks : List String) : Option (State × String) := some (st, "bad-op")
end Driver.C04
def main : IO Unit := Driver.runLoop Driver.C04.init Driver.C04.step
