import Corro.Model.Needs
import Driver.Util
/-!
Driver for C04.  One op:

`can <ourActor> <ourHeads> <ourNeed> <ourPartials> <peerActor> <peerHeads> <peerNeed> <peerPartials>`

* heads    `a:h;a:h`                 (`-` = empty map)
* need     `a:lo-hi,lo-hi;a:…`       (`a:-` = empty range list)
* partials `a:v=lo-hi,lo-hi/v=-;a:…`

Map keys must be strictly increasing (the canonical form of a `HashMap`), otherwise `bad-op`.
Answer: `a:F<lo>-<hi>,P<v>=<lo>-<hi>+<lo>-<hi>,…;a:…` (actors ascending, needs in the order
`compute_available_needs` pushes them, partial needs by ascending version), `-` for no needs,
`err backward-range` if any range has `lo > hi` (the real code would panic inside rangemap).
-/
namespace Driver.C04
open Corro Corro.Needs

def kv? (s sep : String) : Option (String × String) :=
  match s.splitOn sep with
  | [a, b] => some (a, b)
  | _ => none

def parseHeads (s : String) : Option (List (Nat × Nat)) :=
  (splitList s ";").mapM (fun e => do
    let (a, h) ← kv? e ":"
    pure (← a.toNat?, ← h.toNat?))

def parseNeed (s : String) : Option (List (Nat × List (Nat × Nat))) :=
  (splitList s ";").mapM (fun e => do
    let (a, rs) ← kv? e ":"
    pure (← a.toNat?, ← rangeList? rs))

def parsePartials (s : String) : Option (List (Nat × List (Nat × List (Nat × Nat)))) :=
  (splitList s ";").mapM (fun e => do
    let (a, vs) ← kv? e ":"
    let pm ← (splitList vs "/").mapM (fun ve => do
      let (v, rs) ← kv? ve "="
      pure (← v.toNat?, ← rangeList? rs))
    pure (← a.toNat?, pm))

def increasing : List Nat → Bool
  | a :: b :: t => a < b && increasing (b :: t)
  | _ => true

def keysOk (s : SyncState) : Bool :=
  increasing (s.heads.map (·.1)) && increasing (s.need.map (·.1)) &&
  increasing (s.partialNeed.map (·.1)) && s.partialNeed.all (fun e => increasing (e.2.map (·.1)))

def forward (rs : List (Nat × Nat)) : Bool := rs.all (fun r => r.1 ≤ r.2)

def rangesOk (s : SyncState) : Bool :=
  s.need.all (fun e => forward e.2) && s.partialNeed.all (fun e => e.2.all (fun p => forward p.2))

def parseState (a h n p : String) : Option SyncState := do
  let st : SyncState := ⟨← a.toNat?, ← parseHeads h, ← parseNeed n, ← parsePartials p⟩
  if keysOk st then pure st else none

def showNeed : Need → String
  | .full lo hi => s!"F{lo}-{hi}"
  | .part v sq => s!"P{v}=" ++ "+".intercalate (sq.map showRange)

def showNeeds (ns : List (Actor × List Need)) : String :=
  showList (ns.map (fun an => s!"{an.1}:" ++ ",".intercalate (an.2.map showNeed))) ";"

def run (toks : List String) : Option String :=
  match toks with
  | ["can", ua, uh, un, up, pa, ph, pn, pp] => do
    let us ← parseState ua uh un up
    let peer ← parseState pa ph pn pp
    if !(rangesOk us && rangesOk peer) then pure "err backward-range" else
    pure (showNeeds (computeAvailableNeeds us peer))
  | _ => none

abbrev State := Unit
def init : State := ()
def step (st : State) (toks : List String) : Option (State × String) := (run toks).map (st, ·)

end Driver.C04
def main : IO Unit := Driver.runLoop Driver.C04.init Driver.C04.step
