import Driver.Util
/-! Driver stub for C09: not built yet. -/
namespace Driver.C09
abbrev State := Unit
def init : State := ()
def step (st : State) (_toks : List String) : Option (State × String) := some (st, "bad-op")
end Driver.C09
def main : IO Unit := Driver.runLoop Driver.C09.init Driver.C09.step
