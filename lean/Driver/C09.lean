import Corro.Model.Pack
import Driver.Util
/-!
Line protocol driver for C09.

Values of packed keys (`<vals>`): comma separated, `-` = empty list;
  `n` null · `i<decimal i64>` · `r<16 hex digits of f64::to_bits>` · `t<hex of the UTF-8 bytes>` ·
  `b<hex bytes>` (`t` / `b` alone = empty text / blob).
Byte strings: lower-case hex, `-` = empty.

  pack <vals>       → `ok <hex>` | `err abort`
  ext_pack <vals>   → `ok <hex>`            (the extension's `crsql_pack_columns`; model = `pack`)
  unpack <hex>      → `ok <vals>` | `err abort` | `err misuse`
-/
namespace Driver.C09
open Corro.Pack

def hexVal (c : Char) : Option Nat :=
  if '0' ≤ c ∧ c ≤ '9' then some (c.toNat - 48)
  else if 'a' ≤ c ∧ c ≤ 'f' then some (c.toNat - 87)
  else none

def hexAux : List Char → Bytes → Option Bytes
  | [], acc => some acc.reverse
  | [_], _ => none
  | a :: b :: r, acc => do
    let x ← hexVal a; let y ← hexVal b
    hexAux r (UInt8.ofNat (x * 16 + y) :: acc)

def hexChars? (cs : List Char) : Option Bytes := hexAux cs []

/-- op-level byte string: `-` is the empty string -/
def hex? (s : String) : Option Bytes := if s = "-" then some [] else hexChars? s.toList

def hexDigit (n : Nat) : Char := if n < 10 then Char.ofNat (48 + n) else Char.ofNat (87 + n)

def toHexRaw (bs : Bytes) : String :=
  bs.foldl (fun s b => (s.push (hexDigit (b.toNat / 16))).push (hexDigit (b.toNat % 16))) ""

def toHex (bs : Bytes) : String := if bs.isEmpty then "-" else toHexRaw bs

def hexNatAux : List Char → Nat → Option Nat
  | [], acc => some acc
  | c :: r, acc => do let x ← hexVal c; hexNatAux r (acc * 16 + x)

def parseVal (s : String) : Option Val :=
  match s.toList with
  | ['n'] => some .null
  | 'i' :: r => do
    let v ← (String.ofList r).toInt?
    if -9223372036854775808 ≤ v ∧ v < 9223372036854775808 then some (.int v) else none
  | 'r' :: r => if r.length = 16 then (hexNatAux r 0).map .real else none
  | 't' :: r => do
    let bs ← hexChars? r
    if validUtf8 bs then some (.text bs) else none
  | 'b' :: r => (hexChars? r).map .blob
  | _ => none

def parseVals (s : String) : Option (List Val) := (splitList s).mapM parseVal

def hex16 (n : Nat) : String :=
  String.ofList ((List.range 16).map (fun i => hexDigit (n / 16 ^ (15 - i) % 16)))

def showVal : Val → String
  | .null => "n"
  | .int v => s!"i{v}"
  | .real b => "r" ++ hex16 b
  | .text bs => "t" ++ toHexRaw bs
  | .blob bs => "b" ++ toHexRaw bs

def showVals (vs : List Val) : String := showList (vs.map showVal)

def showUnpackErr : UnpackErr → String
  | .abort => "err abort"
  | .misuse => "err misuse"

def run (toks : List String) : Option String :=
  match toks with
  | ["pack", vs] => do
    let vs ← parseVals vs
    match pack vs with
    | .ok bs => pure ("ok " ++ toHex bs)
    | .error _ => pure "err abort"
  | ["ext_pack", vs] => do
    let vs ← parseVals vs
    match pack vs with
    | .ok bs => pure ("ok " ++ toHex bs)
    | .error _ => pure "err abort"
  | ["unpack", h] => do
    let bs ← hex? h
    match unpack bs with
    | .ok vs => pure ("ok " ++ showVals vs)
    | .error e => pure (showUnpackErr e)
  | _ => none

abbrev State := Unit
def init : State := ()
def step (st : State) (toks : List String) : Option (State × String) := (run toks).map (st, ·)

end Driver.C09
def main : IO Unit := Driver.runLoop Driver.C09.init Driver.C09.step
