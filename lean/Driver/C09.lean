import Corro.Model.Pack
import Corro.Model.Codec
import Driver.Util
/-!
Line protocol driver for C09.

Values of packed keys (`<vals>`): comma separated, `-` = empty list;
  `n` null · `i<decimal i64>` · `r<16 hex digits of f64::to_bits>` · `t<hex of the UTF-8 bytes>` ·
  `b<hex bytes>` (`t` / `b` alone = empty text / blob).
Byte strings: lower-case hex, `-` = empty.

  pack <vals>       → `ok <hex>` | `err abort`
  ext_pack <vals>   → `ok <hex>`            (the extension's `crsql_pack_columns`; model = `pack`)
  unpack <hex>      → `ok <vals>` | `err abort` | `err misuse`

Wire values are terms `atom` or `name(term,…)`; atoms are `[a-z0-9-]+`:
  u64 / i64: decimal · ActorId / site id: 32 hex digits · range: `lo-hi` · option: `none` | `some(x)` ·
  SqliteValue: as above · text: `t<hex>` · bytes: `b<hex>` · list: `l(x,…)` · map: `m(kv(k,v),…)`
  change     c(t<table>,b<pk>,t<cid>,<value>,<col_version>,<db_version>,<seq>,<site>,<cl>)
  changeset  empty(<range>,<opt ts>) | full(<version>,l(<change>…),<range>,<last_seq>,<ts>) |
             emptyset(l(<range>…),<ts>)
  changev1   cv(<actor>,<changeset>)
  need       full(<range>) | partial(<version>,l(<range>…)) | empty(<opt ts>)
  state      state(<actor>,m(kv(<actor>,<head>)…),m(kv(<actor>,l(<range>…))…),
                   m(kv(<actor>,m(kv(<version>,l(<range>…))…))…),<opt ts>)
  uni        uni(<changev1>,<cluster>)
  bi         bi(<actor>,trace(<opt t..>,<opt t..>),<cluster>)
  msg        mstate(<state>) | mchangeset(<changev1>) | mclock(<ts>) | mreject(<0|1>) |
             mrequest(l(kv(<actor>,l(<need>…))…))
Types: value ts actor cluster dbv seq change changeset changev1 need state uni bi msg.

  enc <type> <term>   → `ok <hex>`   (maps with at most one entry: HashMap order is not deterministic)
  dec <type> <hex>    → `ok <canonical term> <bytes consumed>` | `err`
  rt  <type> <term>   → `ok <canonical term>`   (decode (encode v); maps sorted by key, last
                                                  duplicate wins, as `HashMap::insert` does)
  minbytes            → the `minimum_bytes_needed()` constants the reservation guards use
  utf8 <hex>          → `ok true|false`: the model's `validUtf8` (real side: `str::from_utf8`)
-/
namespace Driver.C09
open Corro.Pack

def hexVal (c : Char) : Option Nat :=
  if '0' ≤ c ∧ c ≤ '9' then some (c.toNat - 48)
  else if 'a' ≤ c ∧ c ≤ 'f' then some (c.toNat - 87)
  else none

def hexAux : List Char → Bytes → Option Bytes
  | [], acc => some acc.reverse
  | [_], _ => none
  | a :: b :: r, acc => do
    let x ← hexVal a; let y ← hexVal b
    hexAux r (UInt8.ofNat (x * 16 + y) :: acc)

def hexChars? (cs : List Char) : Option Bytes := hexAux cs []

/-- op-level byte string: `-` is the empty string -/
def hex? (s : String) : Option Bytes := if s = "-" then some [] else hexChars? s.toList

def hexDigit (n : Nat) : Char := if n < 10 then Char.ofNat (48 + n) else Char.ofNat (87 + n)

def toHexRaw (bs : Bytes) : String :=
  bs.foldl (fun s b => (s.push (hexDigit (b.toNat / 16))).push (hexDigit (b.toNat % 16))) ""

def toHex (bs : Bytes) : String := if bs.isEmpty then "-" else toHexRaw bs

def hexNatAux : List Char → Nat → Option Nat
  | [], acc => some acc
  | c :: r, acc => do let x ← hexVal c; hexNatAux r (acc * 16 + x)

def parseVal (s : String) : Option Val :=
  match s.toList with
  | ['n'] => some .null
  | 'i' :: r => do
    let v ← (String.ofList r).toInt?
    if -9223372036854775808 ≤ v ∧ v < 9223372036854775808 then some (.int v) else none
  | 'r' :: r => if r.length = 16 then (hexNatAux r 0).map .real else none
  | 't' :: r => do
    let bs ← hexChars? r
    if validUtf8 bs then some (.text bs) else none
  | 'b' :: r => (hexChars? r).map .blob
  | _ => none

def parseVals (s : String) : Option (List Val) := (splitList s).mapM parseVal

def hex16 (n : Nat) : String :=
  String.ofList ((List.range 16).map (fun i => hexDigit (n / 16 ^ (15 - i) % 16)))

def showVal : Val → String
  | .null => "n"
  | .int v => s!"i{v}"
  | .real b => "r" ++ hex16 b
  | .text bs => "t" ++ toHexRaw bs
  | .blob bs => "b" ++ toHexRaw bs

def showVals (vs : List Val) : String := showList (vs.map showVal)

def showUnpackErr : UnpackErr → String
  | .abort => "err abort"
  | .misuse => "err misuse"

def run (toks : List String) : Option String :=
  match toks with
  | ["pack", vs] => do
    let vs ← parseVals vs
    match pack vs with
    | .ok bs => pure ("ok " ++ toHex bs)
    | .error _ => pure "err abort"
  | ["ext_pack", vs] => do
    let vs ← parseVals vs
    match pack vs with
    | .ok bs => pure ("ok " ++ toHex bs)
    | .error _ => pure "err abort"
  | ["unpack", h] => do
    let bs ← hex? h
    match unpack bs with
    | .ok vs => pure ("ok " ++ showVals vs)
    | .error e => pure (showUnpackErr e)
  | _ => none

/-! ### wire values -/
open Corro.Codec

inductive Tree where
  | node (tag : String) (kids : List Tree)

def isAtomChar (c : Char) : Bool := ('a' ≤ c && c ≤ 'z') || ('0' ≤ c && c ≤ '9') || c = '-'

mutual
partial def pTree (cs : List Char) : Option (Tree × List Char) :=
  let name := cs.takeWhile isAtomChar
  let rest := cs.dropWhile isAtomChar
  if name.isEmpty then none else
  match rest with
  | '(' :: ')' :: r => some (.node (String.ofList name) [], r)
  | '(' :: r => do
    let (kids, r') ← pKids r []
    pure (.node (String.ofList name) kids.reverse, r')
  | _ => some (.node (String.ofList name) [], rest)
partial def pKids (cs : List Char) (acc : List Tree) : Option (List Tree × List Char) := do
  let (t, r) ← pTree cs
  match r with
  | ',' :: r' => pKids r' (t :: acc)
  | ')' :: r' => pure (t :: acc, r')
  | _ => none
end

def parseTree (s : String) : Option Tree :=
  match pTree s.toList with
  | some (t, []) => some t
  | _ => none

def tNat : Tree → Option Nat
  | .node a [] => a.toNat?
  | _ => none

def tU (bound : Nat) (t : Tree) : Option Nat := do
  let n ← tNat t
  if n < bound then some n else none

def tU64 := tU 18446744073709551616

def tI64 : Tree → Option Int
  | .node a [] => do
    let v ← a.toInt?
    if -9223372036854775808 ≤ v ∧ v < 9223372036854775808 then some v else none
  | _ => none

def tHex (n : Nat) : Tree → Option Bytes
  | .node a [] => do
    let b ← hexChars? a.toList
    if b.length = n then some b else none
  | _ => none

def tActor := tHex 16

def tRange : Tree → Option Range
  | .node a [] =>
    match a.splitOn "-" with
    | [x, y] => do
      let lo ← x.toNat?; let hi ← y.toNat?
      if lo < 18446744073709551616 ∧ hi < 18446744073709551616 then some (lo, hi) else none
    | _ => none
  | _ => none

def tOpt (f : Tree → Option α) : Tree → Option (Option α)
  | .node "none" [] => some none
  | .node "some" [x] => (f x).map some
  | _ => none

def tList (f : Tree → Option α) : Tree → Option (List α)
  | .node "l" kids => kids.mapM f
  | _ => none

def tMap {κ α : Type} (fk : Tree → Option κ) (fv : Tree → Option α) : Tree → Option (List (κ × α))
  | .node "m" kids => kids.mapM fun
    | .node "kv" [k, v] => do let k ← fk k; let v ← fv v; pure (k, v)
    | _ => none
  | _ => none

def tVal : Tree → Option Val
  | .node a [] => parseVal a
  | _ => none

def tText : Tree → Option Bytes
  | .node a [] =>
    match a.toList with
    | 't' :: r => do
      let b ← hexChars? r
      if validUtf8 b then some b else none
    | _ => none
  | _ => none

def tBytes : Tree → Option Bytes
  | .node a [] =>
    match a.toList with
    | 'b' :: r => hexChars? r
    | _ => none
  | _ => none

def tChange : Tree → Option Change
  | .node "c" [table, pk, cid, val, cv, dbv, seq, site, cl] => do
    pure ⟨← tText table, ← tBytes pk, ← tText cid, ← tVal val, ← tI64 cv, ← tU64 dbv, ← tU64 seq,
      ← tHex 16 site, ← tI64 cl⟩
  | _ => none

def tChangeset : Tree → Option Changeset
  | .node "empty" [r, ts] => do pure (.empty (← tRange r) (← tOpt tU64 ts))
  | .node "full" [v, cs, r, last, ts] => do
    pure (.full (← tU64 v) (← tList tChange cs) (← tRange r) (← tU64 last) (← tU64 ts))
  | .node "emptyset" [rs, ts] => do pure (.emptySet (← tList tRange rs) (← tU64 ts))
  | _ => none

def tChangeV1 : Tree → Option ChangeV1
  | .node "cv" [a, c] => do pure ⟨← tActor a, ← tChangeset c⟩
  | _ => none

def tNeed : Tree → Option SyncNeed
  | .node "full" [r] => do pure (.full (← tRange r))
  | .node "partial" [v, rs] => do pure (.part (← tU64 v) (← tList tRange rs))
  | .node "empty" [ts] => do pure (.empty (← tOpt tU64 ts))
  | _ => none

def tState : Tree → Option SyncState
  | .node "state" [a, heads, need, pn, ts] => do
    pure ⟨← tActor a, ← tMap tActor tU64 heads, ← tMap tActor (tList tRange) need,
      ← tMap tActor (tMap tU64 (tList tRange)) pn, ← tOpt tU64 ts⟩
  | _ => none

def tUni : Tree → Option UniPayload
  | .node "uni" [c, cl] => do pure ⟨← tChangeV1 c, ← tU 65536 cl⟩
  | _ => none

def tTrace : Tree → Option TraceCtx
  | .node "trace" [a, b] => do pure ⟨← tOpt tText a, ← tOpt tText b⟩
  | _ => none

def tBi : Tree → Option BiPayload
  | .node "bi" [a, t, cl] => do pure ⟨← tActor a, ← tTrace t, ← tU 65536 cl⟩
  | _ => none

def tMsg : Tree → Option SyncMsg
  | .node "mstate" [s] => do pure (.state (← tState s))
  | .node "mchangeset" [c] => do pure (.changeset (← tChangeV1 c))
  | .node "mclock" [ts] => do pure (.clock (← tU64 ts))
  | .node "mreject" [r] => do pure (.rejection (← tU 2 r))
  | .node "mrequest" [es] => do
    let es ← tList (fun
      | .node "kv" [a, ns] => do let a ← tActor a; let ns ← tList tNeed ns; pure (a, ns)
      | _ => none) es
    pure (.request es)
  | _ => none

/-! printing (canonical: maps sorted by key, the last duplicate wins) -/

def sArgs (xs : List String) : String := ",".intercalate xs
def sNode (tag : String) (xs : List String) : String := tag ++ "(" ++ sArgs xs ++ ")"
def sRange (r : Range) : String := s!"{r.1}-{r.2}"
def sOpt (f : α → String) : Option α → String
  | none => "none"
  | some a => sNode "some" [f a]
def sList (f : α → String) (xs : List α) : String := sNode "l" (xs.map f)
def sNat (n : Nat) : String := toString n
def sInt (v : Int) : String := toString v
def sText (b : Bytes) : String := "t" ++ toHexRaw b
def sBlob (b : Bytes) : String := "b" ++ toHexRaw b

def bytesLt : Bytes → Bytes → Bool
  | [], [] => false
  | [], _ :: _ => true
  | _ :: _, [] => false
  | a :: as, b :: bs => if a.toNat < b.toNat then true else if b.toNat < a.toNat then false else bytesLt as bs

/-- `HashMap` semantics of an association list: later entries replace earlier ones; sorted by key -/
def canonMap (lt : κ → κ → Bool) (xs : List (κ × α)) : List (κ × α) :=
  let ins (acc : List (κ × α)) (e : κ × α) : List (κ × α) :=
    let rec go : List (κ × α) → List (κ × α)
      | [] => [e]
      | x :: r => if lt e.1 x.1 then e :: x :: r else if lt x.1 e.1 then x :: go r else e :: r
    go acc
  xs.foldl ins []

def sMap (lt : κ → κ → Bool) (fk : κ → String) (fv : α → String) (xs : List (κ × α)) : String :=
  sNode "m" ((canonMap lt xs).map fun e => sNode "kv" [fk e.1, fv e.2])

def sChange (c : Change) : String :=
  sNode "c" [sText c.table, sBlob c.pk, sText c.cid, showVal c.val, sInt c.colVersion, sNat c.dbVersion,
    sNat c.seq, toHexRaw c.siteId, sInt c.cl]

def sChangeset : Changeset → String
  | .empty r ts => sNode "empty" [sRange r, sOpt sNat ts]
  | .full v cs r last ts => sNode "full" [sNat v, sList sChange cs, sRange r, sNat last, sNat ts]
  | .emptySet rs ts => sNode "emptyset" [sList sRange rs, sNat ts]

def sChangeV1 (c : ChangeV1) : String := sNode "cv" [toHexRaw c.actorId, sChangeset c.changeset]

def sNeed : SyncNeed → String
  | .full r => sNode "full" [sRange r]
  | .part v rs => sNode "partial" [sNat v, sList sRange rs]
  | .empty ts => sNode "empty" [sOpt sNat ts]

def natLt (a b : Nat) : Bool := a < b

def sState (s : SyncState) : String :=
  sNode "state" [toHexRaw s.actorId, sMap bytesLt toHexRaw sNat s.heads,
    sMap bytesLt toHexRaw (sList sRange) s.need,
    sMap bytesLt toHexRaw (sMap natLt sNat (sList sRange)) s.partialNeed, sOpt sNat s.lastClearedTs]

def sUni (u : UniPayload) : String := sNode "uni" [sChangeV1 u.change, sNat u.clusterId]
def sTrace (t : TraceCtx) : String := sNode "trace" [sOpt sText t.traceparent, sOpt sText t.tracestate]
def sBi (b : BiPayload) : String := sNode "bi" [toHexRaw b.actorId, sTrace b.traceCtx, sNat b.clusterId]

def sMsg : SyncMsg → String
  | .state s => sNode "mstate" [sState s]
  | .changeset c => sNode "mchangeset" [sChangeV1 c]
  | .clock ts => sNode "mclock" [sNat ts]
  | .rejection r => sNode "mreject" [sNat r]
  | .request es => sNode "mrequest" [sList (fun e => sNode "kv" [toHexRaw e.1, sList sNeed e.2]) es]

/-- maps with at most one entry at every level (what `enc` accepts) -/
def detState (s : SyncState) : Bool :=
  s.heads.length ≤ 1 && s.need.length ≤ 1 && s.partialNeed.length ≤ 1 &&
    s.partialNeed.all (fun e => e.2.length ≤ 1)

def detMsg : SyncMsg → Bool
  | .state s => detState s
  | _ => true

/-- one wire type: parser, determinism check, encoder, decoder, printer -/
structure Ty where
  α : Type
  parse : Tree → Option α
  det : α → Bool
  enc : α → Bytes
  dec : Dec α
  show_ : α → String

def tyOf : String → Option Ty
  | "value" => some ⟨Val, tVal, fun _ => true, encSqliteValue, sqliteValue, showVal⟩
  | "ts" => some ⟨Nat, tU64, fun _ => true, encU64, u64, sNat⟩
  | "dbv" => some ⟨Nat, tU64, fun _ => true, encU64, u64, sNat⟩
  | "seq" => some ⟨Nat, tU64, fun _ => true, encU64, u64, sNat⟩
  | "cluster" => some ⟨Nat, tU 65536, fun _ => true, encU16, u16, sNat⟩
  | "actor" => some ⟨Bytes, tActor, fun _ => true, id, actor, toHexRaw⟩
  | "change" => some ⟨Change, tChange, fun _ => true, encChange, change, sChange⟩
  | "changeset" => some ⟨Changeset, tChangeset, fun _ => true, encChangeset, changeset, sChangeset⟩
  | "changev1" => some ⟨ChangeV1, tChangeV1, fun _ => true, encChangeV1, changeV1, sChangeV1⟩
  | "need" => some ⟨SyncNeed, tNeed, fun _ => true, encSyncNeed, syncNeed, sNeed⟩
  | "state" => some ⟨SyncState, tState, detState, encSyncState, syncState, sState⟩
  | "uni" => some ⟨UniPayload, tUni, fun _ => true, encUniPayload, uniPayload, sUni⟩
  | "bi" => some ⟨BiPayload, tBi, fun _ => true, encBiPayload, biPayload, sBi⟩
  | "msg" => some ⟨SyncMsg, tMsg, detMsg, encSyncMsg, syncMsg, sMsg⟩
  | _ => none

def runTy (T : Ty) (op arg : String) : Option String :=
  match op with
  | "enc" => do
    let x ← T.parse (← parseTree arg)
    if T.det x then pure ("ok " ++ toHex (T.enc x)) else none
  | "dec" => do
    let bs ← hex? arg
    let o : Out T.α := T.dec bs
    match o.val with
    | .ok x => pure s!"ok {T.show_ x} {bs.length - o.rest.length}"
    | .error _ => pure "err"
  | "rt" => do
    let x ← T.parse (← parseTree arg)
    let o : Out T.α := T.dec (T.enc x)
    match o.val with
    | .ok y => pure ("ok " ++ T.show_ y)
    | .error _ => pure "err"
  | _ => none

def runWire (toks : List String) : Option String :=
  match toks with
  | [op, ty, arg] =>
    match tyOf ty with
    | some T => runTy T op arg
    | none => none
  | ["minbytes"] =>
    pure s!"ok change={changeMinBytes},need={syncNeedMinBytes},reqentry={requestEntryMinBytes}"
  | ["utf8", h] => do
    let bs ← hex? h
    pure s!"ok {validUtf8 bs}"
  | _ => none

abbrev State := Unit
def init : State := ()
def step (st : State) (toks : List String) : Option (State × String) :=
  ((run toks).orElse fun _ => runWire toks).map (st, ·)

end Driver.C09
def main : IO Unit := Driver.runLoop Driver.C09.init Driver.C09.step
