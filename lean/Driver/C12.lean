import Driver.Util
/-! Driver stub for C12: not built yet. -/
namespace Driver.C12
abbrev State := Unit
def init : State := ()
def step (st : State) (_toks : List String) : Option (State × String) := some (st, "bad-op")
end Driver.C12
def main : IO Unit := Driver.runLoop Driver.C12.init Driver.C12.step
