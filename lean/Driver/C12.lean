import Corro.Model.CatchUp
import Driver.Util
/-!
Line-protocol driver for C12.  The op lines are the schedule: each coarse op of the harness
(`harness/src/c12.rs`) is expanded into the fine steps of `Corro.CatchUp` that a free-running task
performs between two observable points (`runQ` / `runFree`).
-/
namespace Driver.C12
open Corro.CatchUp

structure DSub where
  sid : String
  /-- `none`: only `tx.subscribe()` happened -/
  sub : Option Sub := none
  createdAt : Nat
  held : Bool := false
  stuckAtAttach : Bool := false
  printed : Nat := 0
deriving Inhabited

/-- ids `lo+1..=hi` change the row count by `+1` (kind 0), `0` (kind 1), `-1` (kind 2) each -/
structure Seg where
  lo : Nat
  hi : Nat
  kind : Nat
deriving Inhabited

structure State where
  inited : Bool := false
  cfg : Cfg := {}
  env : Env := {}
  rows0 : Nat := 0
  segs : List Seg := []
  rows : Nat := 0
  pendingRows : Nat := 0
  blocked : Nat := 0
  /-- the matcher waits before the commit of a batch it has sent (`wpause`) -/
  paused : Bool := false
  subs : List DSub := []
deriving Inhabited

def init : State := {}

def evtCap : Nat := 512

def rowsAt (st : State) (v : Nat) : Nat :=
  st.segs.foldl (fun acc s =>
    let n := min s.hi v - s.lo
    if s.kind = 0 then acc + n else if s.kind = 2 then acc - n else acc) st.rows0

def fuel (st : State) : Nat := 4 * (st.cfg.qcap + st.cfg.bcap) + 100000

def isPow2 (n : Nat) : Bool := decide (n ≥ 1) && (2 ^ Nat.log2 n == n)

/-- canonical text of client items, consecutive change ids compressed -/
partial def showItems (st : State) : List Item → List String
  | [] => []
  | .rows v :: r => s!"r{rowsAt st v}" :: showItems st r
  | .eoq s :: r => s!"eoq:{s}" :: showItems st r
  | .error :: r => "err" :: showItems st r
  | .closed :: r => "closed" :: showItems st r
  | .change a :: r =>
    let rec go (b : Nat) : List Item → Nat × List Item
      | .change c :: r' => if c = b + 1 then go c r' else (b, .change c :: r')
      | r' => (b, r')
    let (b, rest) := go a r
    (if b = a then s!"c:{a}" else s!"c:{a}-{b}") :: showItems st rest

def findSub (st : State) (sid : String) : Option DSub := st.subs.find? (·.sid == sid)

def setSub (st : State) (d : DSub) : State :=
  if st.subs.any (·.sid == d.sid) then { st with subs := st.subs.map (fun x => if x.sid == d.sid then d else x) }
  else { st with subs := st.subs ++ [d] }

/-- after something was published: buffering tasks of held subscribers copy, live ones forward -/
def afterPublish (st : State) : State :=
  { st with subs := st.subs.map (fun d =>
      match d.sub with
      | none => d
      | some s =>
        if d.held then { d with sub := some (runQ st.cfg st.env (fuel st) s) }
        else { d with sub := some (runFree st.cfg st.env (fuel st) s) }) }

/-- a receiver that reads the channel while the harness publishes -/
def reading (d : DSub) : Bool :=
  match d.sub with
  | none => false
  | some s => if d.held then !d.stuckAtAttach else s.pc != .done

def emitN (e : Env) (n : Nat) : Env := { e with sent := e.sent + n }

def parseMode (s : String) : Option Mode :=
  if s = "new" then some .anew
  else if s = "skip" then some .skip
  else match s.splitOn ":" with
    | ["from", n] => n.toNat?.map Mode.since
    | _ => none

def liveOrEnded (s : Sub) : String := if s.pc = .done then "ok ended" else "ok live"

/-! ### client library -/

inductive Scr where
  | cols | row | eoq (c : Option Nat) | chg (k : Nat) | drop

def parseScr (t : String) : Option Scr :=
  if t = "cols" then some .cols
  else if t = "row" then some .row
  else if t = "eoqn" then some (.eoq none)
  else if t = "drop" then some .drop
  else match t.splitOn ":" with
    | ["eoq", n] => n.toNat?.map (fun v => Scr.eoq (some v))
    | ["c", n] => n.toNat?.map Scr.chg
    | _ => none

/-- `SubscriptionStream` over a scripted body: (items, resume requests) -/
def clientGo (last : Option Nat) (observed : Bool) (acc : List String) (res : List String) :
    List Scr → List String × List String
  | [] => (acc ++ ["end"], res)
  | .cols :: r => clientGo last observed (acc ++ ["cols"]) res r
  | .row :: r => clientGo last observed (acc ++ ["row"]) res r
  | .eoq c :: r =>
    clientGo (handleEoq last c) true (acc ++ [match c with | some v => s!"eoq:{v}" | none => "eoqn"]) res r
  | .chg k :: r =>
    let x := handleChange last k
    clientGo x.1 observed (acc ++ [match x.2 with | some (e, g) => s!"missed:{e}:{g}" | none => s!"ok:{k}"]) res r
  | .drop :: r =>
    if observed then clientGo last observed acc (res ++ [s!"from={last.getD 0}"]) r
    else (acc ++ ["unfinished"], res)

def step (st : State) (toks : List String) : Option (State × String) :=
  match toks with
  | "tag" :: _ => some (st, "ok")
  | ["client", from_, script] => do
    let from_ ← if from_ = "-" then some none else from_.toNat?.map some
    let sc ← (splitList script).mapM parseScr
    let (items, res) := clientGo from_ from_.isSome [] [] sc
    pure (st, " ".intercalate items ++ " | resume=" ++ showList res)
  | ["init", rows, bcap] => do
    let rows ← rows.toNat?; let bcap ← bcap.toNat?
    if st.inited || !isPow2 bcap || rows > 20000 then none else
    pure ({ st with inited := true, cfg := { bcap := bcap }, rows0 := rows, rows := rows, pendingRows := rows },
          s!"ok r{rows} eoq:0")
  | ["w", kind, n] => do
    let n ← n.toNat?
    if !st.inited || n > 30000 || st.blocked > 0 || st.paused then none else
    let k ← if kind = "ins" then (if n = 0 then none else some 0) else if kind = "upd" then some 1 else if kind = "del" then some 2 else none
    let a := if k = 0 then n else min n st.rows
    let e := emitN st.env a
    let e := { e with committed := e.sent }
    let rows := if k = 0 then st.rows + a else if k = 2 then st.rows - a else st.rows
    pure ({ st with env := e, segs := st.segs ++ [⟨st.env.sent, e.sent, k⟩], rows := rows, pendingRows := rows },
          s!"ok ev={a} sent={e.sent}")
  | ["wblock", n] => do
    let n ← n.toNat?
    if !st.inited || n > 2000 || st.blocked > 0 || st.paused || st.env.published ≠ st.env.sent || n ≤ evtCap then none else
    let e := emitN st.env evtCap
    pure ({ st with env := e, segs := st.segs ++ [⟨st.env.sent, st.env.sent + n, 0⟩], blocked := n - evtCap,
                    pendingRows := st.rows + n }, s!"ok sent={e.sent}")
  | ["wpause", kind, n] => do
    -- one batch of `a` changes sent, the matcher held before its commit: `a` × `emit`, no `commit`
    let n ← n.toNat?
    if !st.inited || st.blocked > 0 || st.paused || n = 0 || n ≥ evtCap then none else
    let k ← if kind = "ins" then some 0 else if kind = "upd" then some 1 else if kind = "del" then some 2 else none
    let a := if k = 0 then n else min n st.rows
    if a = 0 then none else
    let e := sendBatch st.cfg st.env a
    let rows := if k = 0 then st.rows + a else if k = 2 then st.rows - a else st.rows
    pure ({ st with env := e, segs := st.segs ++ [⟨st.env.sent, e.sent, k⟩], pendingRows := rows, paused := true },
          s!"ok ev={a} sent={e.sent}")
  | ["commit"] =>
    if st.inited && st.paused then
      let e := commitBatch st.cfg st.env
      some ({ st with env := e, paused := false, rows := st.pendingRows }, s!"ok sent={e.sent}")
    else
    if !st.inited || st.blocked = 0 then none else
    let e := emitN st.env st.blocked
    let e := { e with committed := e.sent }
    some ({ st with env := e, blocked := 0, rows := st.pendingRows }, s!"ok sent={e.sent}")
  | ["prune"] =>
    if !st.inited || st.blocked > 0 || st.paused then none else
    let e := stepEnv st.cfg st.env .prune
    some ({ st with env := e }, s!"ok pruned={e.pruned}")
  | ["pub", k] => do
    if !st.inited then none else
    let avail := st.env.sent - st.env.published
    let k ← if k = "all" then (if st.blocked > 0 then none else some avail) else k.toNat?.map (min · avail)
    if st.blocked > 0 && k ≥ st.blocked then none else
    if k > st.cfg.bcap && st.subs.any reading then none else
    let e := if st.blocked > 0 then emitN st.env k else st.env
    let e := { e with published := e.published + k }
    let st := afterPublish { st with env := e, blocked := if st.blocked > 0 then st.blocked - k else 0 }
    pure (st, s!"ok published={e.published} sent={e.sent}")
  | ["sub", sid] =>
    if !st.inited || (findSub st sid).isSome then none else
    some (setSub st { sid := sid, createdAt := st.env.published }, "ok")
  | ["attach", sid, mode, how] => do
    if !st.inited then none else
    let mode ← parseMode mode
    let hold ← if how = "hold" then some true else if how = "free" then some false else none
    let d ← match findSub st sid with
      | some d => if d.sub.isSome then none else some d
      | none => some { sid := sid, createdAt := st.env.published }
    let okHold := match mode with
      | .anew => decide (st.rows ≥ 2)
      | .since n => decide (st.env.committed - max n st.env.pruned ≥ 3)
      | .skip => false
    if hold && !okHold then none else
    let s0 : Sub := { mode := mode, cur := d.createdAt + 1, qHead := d.createdAt + 1, qTail := d.createdAt + 1 }
    let stuck := decide (st.env.published - d.createdAt > st.cfg.bcap)
    if hold then
      let s := runQ st.cfg st.env (fuel st) s0
      let s := stepMain st.cfg st.env s
      let s := if mode = .anew then stepMain st.cfg st.env s else s
      pure (setSub st { d with sub := some s, held := true, stuckAtAttach := stuck }, "ok held")
    else
      let s := runFree st.cfg st.env (fuel st) s0
      pure (setSub st { d with sub := some s, held := false, stuckAtAttach := stuck }, liveOrEnded s)
  | ["release", sid] => do
    let d ← findSub st sid
    let s ← d.sub
    if !d.held then none else
    let s := runFree st.cfg st.env (fuel st) s
    pure (setSub st { d with sub := some s, held := false }, liveOrEnded s)
  | ["recv", sid] => do
    let d ← findSub st sid
    let s ← d.sub
    if d.held then pure (st, "held") else
    let new := s.out.drop d.printed
    pure (setSub st { d with printed := s.out.length }, showList (showItems st new) " ")
  | _ => none

end Driver.C12
def main : IO Unit := Driver.runLoop Driver.C12.init Driver.C12.step
