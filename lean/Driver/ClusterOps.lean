import Corro.Model.Node
import Driver.Util
import Driver.CrdtFmt
/-! The cluster op family (`n*`), shared by the drivers of C01, C03, C05, C06. -/
namespace Driver.ClusterOps
open Corro Corro.Crdt Corro.Node Driver Driver.CrdtFmt

structure CState where
  nodes : List Node := []
  log : List ((Nat × Nat) × (List Chg × Nat)) := []   -- (site, ver) ↦ original changes, last_seq
  /-- (node, actor) pairs for which the real Bookie holds an entry although nothing is booked yet
  (`ensure` in `process_multiple_changes`, and the node's own actor): `process_sync` finds a
  `BookedVersions` with no head there, so its filter lets every need through. Outside C05's quantifier
  (requests within advertised heads), tracked so that model and code agree there too. -/
  ensured : List (Nat × Nat) := []

def CState.node (st : CState) (i : Nat) : Node :=
  match st.nodes.find? (·.id = i) with | some n => n | none => Node.fresh i

def CState.setNode (st : CState) (n : Node) : CState :=
  if st.nodes.any (·.id = n.id) then { st with nodes := st.nodes.map (fun x => if x.id = n.id then n else x) }
  else { st with nodes := st.nodes ++ [n] }

def nodeIdx (s : String) : Option Nat := s.toNat?.filter (· < 6)

def sortStrs (xs : List String) : List String := sortBy (fun (a b : String) => a < b) xs

def showPartial (vp : Nat × Partial) : String := s!"{vp.1}:{showRanges vp.2.seqs}/{vp.2.last}"

def showMem (n : Node) : String :=
  let ents := n.book.filterMap fun e =>
    let b := e.2
    if b.max = 0 ∧ b.needed.isEmpty ∧ b.partials.isEmpty then none
    else some s!"a{e.1} max={b.max} need={showRanges b.needed} part={showList (b.partials.map showPartial)}"
  " ".intercalate (sortStrs ents)

def showBook (n : Node) : String :=
  let gaps := n.book.flatMap fun e => e.2.needed.map fun r => s!"{e.1}:{r.1}:{r.2}"
  let seqs := n.seqRows.map fun r => s!"{r.site}:{r.ver}:{r.lo}:{r.hi}:{r.last}"
  let buf := n.buf.map fun c => s!"{c.site}:{c.dbv}:{c.seq}"
  let dbv := n.dbv.map fun e => s!"{e.1}:{e.2}"
  let j (xs : List String) := ",".intercalate (sortStrs xs)
  s!"mem[{showMem n}] gaps[{j gaps}] seqs[{j seqs}] buf[{j buf}] dbv[{j dbv}]"

def showState (s : Needs.SyncState) : String :=
  let heads := s.heads.map fun e => s!"{e.1}:{e.2}"
  let need := s.need.map fun e => s!"{e.1}:{showRanges e.2}"
  let part := s.partialNeed.flatMap fun e => e.2.map fun vp => s!"{e.1}:{vp.1}:{showRanges vp.2}"
  s!"heads={showList (sortStrs heads) ";"} need={showList (sortStrs need) ";"} partial={showList (sortStrs part) ";"}"

def showNeed (a : Nat) : Needs.Need → String
  | .full lo hi => s!"{a}:F{lo}-{hi}"
  | .part v seqs => s!"{a}:P{v}:{showRanges seqs}"

def showItemFull : Item → String
  | .empty s lo hi => s!"E{s}:{lo}-{hi}"
  | .full s v lo hi last cs => s!"F{s}:{v}:{lo}-{hi}/{last}:{showList (cs.map showChg)}"

def parseNeed (s : String) : Option Needs.Need :=
  if s.startsWith "F" then
    (range? (s.drop 1).toString).bind fun (lo, hi) => if 1 ≤ lo ∧ lo ≤ hi then some (.full lo hi) else none
  else if s.startsWith "P" then
    match (s.drop 1).toString.splitOn ":" with
    | [v, rs] => do
      let v ← v.toNat?; let rs ← rangeList? rs
      if rs.isEmpty ∨ rs.any (fun r => r.1 > r.2) then none else some (.part v rs)
    | _ => none
  else none

def showItem : Item → String
  | .empty s lo hi => s!"E{s}:{lo}-{hi}"
  | .full s v lo hi last cs => s!"F{s}:{v}:{lo}-{hi}/{last}:{showNats (cs.map (·.seq))}"

/-- chunk spec of an `o:` item: `lo-hi`, `all` (= 0..=last) or `p<k>of<n>` (k-th of n contiguous pieces) -/
def chunkSpec (spec : String) (last : Nat) : Option (Nat × Nat) :=
  if spec = "all" then some (0, last)
  else if spec.startsWith "p" then
    match (spec.drop 1).toString.splitOn "of" with
    | [k, n] => do
      let k ← k.toNat?; let n ← n.toNat?
      if n = 0 ∨ k ≥ n then none else
      let lo := k * (last + 1) / n
      let hi1 := (k + 1) * (last + 1) / n
      if hi1 ≤ lo then none else some (lo, hi1 - 1)
    | _ => none
  else range? spec

def parseItem (st : CState) (s : String) : Except String Item :=
  match s.splitOn ":" with
  | ["o", site, ver, seqs] =>
    match nodeIdx site, ver.toNat? with
    | some a, some v =>
      match st.log.find? (·.1 = (a, v)) with
      | none => .error "err no-such-version"
      | some (_, (chs, last)) =>
        match chunkSpec seqs last with
        | none => .error "err bad-chunk"
        | some (lo, hi) => .ok (.full a v lo hi last (chs.filter (fun c => lo ≤ c.seq ∧ c.seq ≤ hi)))
    | _, _ => .error "bad-op"
  | ["x", site, ver, seqs, last] =>
    match nodeIdx site, ver.toNat?, range? seqs, last.toNat? with
    | some a, some v, some (lo, hi), some l => .ok (.full a v lo hi l [])
    | _, _, _, _ => .error "bad-op"
  | ["e", site, vers] =>
    match nodeIdx site, range? vers with
    | some a, some (lo, hi) => if lo = 0 ∨ hi < lo then .error "bad-op" else .ok (.empty a lo hi)
    | _, _ => .error "bad-op"
  | _ => .error "bad-op"

def parseItems (st : CState) : List String → Except String (List Item)
  | [] => .ok []
  | s :: rest =>
    match parseItem st s with
    | .error e => .error e
    | .ok it => match parseItems st rest with
      | .error e => .error e
      | .ok its => .ok (it :: its)

def applyFilter (f : String) (msgs : List Item) : Option (List Item) :=
  if f = "all" then some msgs
  else if f = "rev" then some msgs.reverse
  else if f.startsWith "skip:" then
    let idx := ((f.drop 5).toString.splitOn ",").filterMap String.toNat?
    some ((msgs.zipIdx.filter (fun (_, i) => !idx.contains i)).map (·.1))
  else none

def step (st : CState) (toks : List String) : Option (CState × String) :=
  match toks with
  | ["nw", n, stmts] => do
    let i ← nodeIdx n
    let ss ← (stmts.splitOn ";").mapM parseStmt
    match (st.node i).localWrite ss with
    | .error .constraint => pure (st.setNode (st.node i), "err constraint")
    | .error .badOp => none
    | .ok (nd, none) => pure (st.setNode nd, "noop")
    | .ok (nd, some (ver, chs)) =>
      let last := chs.foldl (fun m c => Nat.max m c.seq) 0
      pure ({ st.setNode nd with log := ((i, ver), (chs, last)) :: st.log }, s!"ok v={ver} {showChgs chs}")
  | ["nb", n, items] => do
    let i ← nodeIdx n
    match parseItems st (items.splitOn "|") with
    | .error e => if e = "bad-op" then none else pure (st.setNode (st.node i), e)
    | .ok its =>
      let st := { st with ensured := st.ensured ++ its.map (fun (it : Item) => (i, it.site)) }
      pure (st.setNode ((st.node i).deliver its), "ok")
  | ["nsync", d, s, f] => do
    let di ← nodeIdx d; let si ← nodeIdx s
    if di = si then none else
    let dst := st.node di; let src := st.node si
    let needs := Needs.computeAvailableNeeds dst.syncState src.syncState
    -- canonical order (the real partial needs come out of a HashMap): per actor, Full by start, then Partial by version
    let needKey : Needs.Need → Nat
      | .full lo _ => lo
      | .part v _ => 1000000000 + v
    let flat := needs.flatMap fun an =>
      (an.2.foldl (fun acc nd => Corro.Node.insertSortedBy needKey nd acc) []).map fun nd => (an.1, nd)
    let msgs := flat.flatMap fun an => handleNeed src an.1 an.2
    let kept ← applyFilter f msgs
    let dst' := if kept.isEmpty then dst else dst.deliver kept
    let st := { st with ensured := st.ensured ++ kept.map (fun (it : Item) => (di, it.site)) }
    let st1 := (st.setNode src).setNode dst'
    pure (st1, s!"ok needs={showList (flat.map fun an => showNeed an.1 an.2) ";"} msgs={showList (msgs.map showItem) ";"}")
  | ["nserve", n, site, need] => do
    let i ← nodeIdx n; let a ← nodeIdx site; let nd ← parseNeed need
    let node := st.node i
    let msgs :=
      if node.book.any (·.1 = a) then node.serve a nd
      else if a = i ∨ st.ensured.contains (i, a) then handleNeed node a nd
      else []
    pure (st.setNode node, s!"ok msgs={showList (msgs.map showItemFull) ";"}")
  | ["tag", _] => pure (st, "ok")
  | ["nstate", n] => do
    let i ← nodeIdx n
    pure (st.setNode (st.node i), showState (st.node i).syncState)
  | ["ndump", n] => do
    let i ← nodeIdx n
    let nd := st.node i
    pure (st.setNode nd, s!"{dump nd.db} | {showBook nd}")
  | ["nkill", n] => do
    let i ← nodeIdx n
    pure (st.setNode (st.node i).kill, "ok")
  | ["nrestart", n] => do
    let i ← nodeIdx n
    pure ({ st.setNode (st.node i).restart with ensured := st.ensured.filter (·.1 ≠ i) }, "ok")
  | _ => none

end Driver.ClusterOps
