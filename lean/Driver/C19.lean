import Driver.Util
/-! Driver stub for C19: not built yet. -/
namespace Driver.C19
abbrev State := Unit
def init : State := ()
def step (st : State) (_toks : List String) : Option (State × String) := some (st, "bad-op")
end Driver.C19
def main : IO Unit := Driver.runLoop Driver.C19.init Driver.C19.step
