import Corro.Model.Crdt
import Corro.Model.Backup
import Corro.Model.Locks
import Driver.Util
/-!
Driver for C19.  Nodes 0..7 hold a cr-sqlite database grown with the `c*` ops of the CRDT family
(`Corro.Crdt`, tied to the real extension by `hx C01`), from which the site table and the clock rows
of the file are derived; `backup`, `restore`, `inspect` run `Corro.Backup`; `trace` prints the
restore's lock program of `Corro.Locks`.
-/
namespace Driver.C19
open Corro.Crdt

-- ---------------------------------------------------------------- parser / printer of the c* family (as Driver.C01)

def hexDigit (c : Char) : Option Nat :=
  if '0' ≤ c ∧ c ≤ '9' then some (c.toNat - '0'.toNat)
  else if 'a' ≤ c ∧ c ≤ 'f' then some (c.toNat - 'a'.toNat + 10) else none

def parseHex : List Char → Option (List Nat)
  | [] => some []
  | [_] => none
  | a :: b :: rest => do
    let x ← hexDigit a; let y ← hexDigit b; let r ← parseHex rest
    pure ((x * 16 + y) :: r)

def hexOf (n : Nat) : String :=
  let d (k : Nat) : Char := if k < 10 then Char.ofNat (48 + k) else Char.ofNat (87 + k)
  String.ofList [d (n / 16), d (n % 16)]

def showHex (bs : List Nat) : String := String.join (bs.map hexOf)

def parseVal (s : String) : Option Val :=
  match s.toList with
  | ['n'] => some .null
  | 'i' :: rest => (String.ofList rest).toInt?.map Val.int
  | 't' :: rest => (parseHex rest).map Val.text
  | 'b' :: rest => (parseHex rest).map Val.blob
  | _ => none

def showVal : Val → String
  | .null => "n"
  | .int i => s!"i{i}"
  | .text b => "t" ++ showHex b
  | .blob b => "b" ++ showHex b

def showChg (c : Chg) : String :=
  s!"{c.tbl}/{c.pk}/{c.cid}={showVal c.val}@{c.colv}.{c.cl}.{c.site}.{c.dbv}.{c.seq}"

def showChgs (cs : List Chg) : String := Driver.showList (cs.map showChg) ";"

def insertSorted (lt : α → α → Bool) (x : α) : List α → List α
  | [] => [x]
  | y :: ys => if lt x y then x :: y :: ys else y :: insertSorted lt x ys

def sortBy (lt : α → α → Bool) (xs : List α) : List α := xs.foldl (fun acc x => insertSorted lt x acc) []

def keyLt (a b : Chg) : Bool :=
  a.tbl < b.tbl ∨ (a.tbl = b.tbl ∧ (a.pk < b.pk ∨ (a.pk = b.pk ∧ a.cid < b.cid)))

/-- rendered rows of the replicated tables, in `dump_db` order -/
def rowLines (db : Db) : List String :=
  let rowsOf (tbl : String) : List String :=
    match tableCols tbl with
    | none => []
    | some cols =>
      sortBy (fun (a b : String) => a < b) <|
        (db.rows.filter (fun r => r.tbl = tbl ∧ r.cl % 2 = 1)).map fun r =>
          let vals := cols.map fun c => match r.findCell c with | some x => showVal x.val | none => "n"
          s!"{tbl}/{r.pk}:" ++ ",".intercalate vals
  rowsOf "k" ++ rowsOf "t" ++ rowsOf "u"

def dump (db : Db) : String :=
  showChgs (sortBy keyLt db.changes) ++ " | " ++ Driver.showList (rowLines db) ";"

def typeOk (c : String) : Val → Bool
  | .null => true
  | .int _ => c == "b"
  | .text _ => c == "a" || c == "x"
  | .blob _ => c == "a" || c == "x"

def parseAssigns (s : String) : Option (List (String × Val)) :=
  (Driver.splitList s).mapM fun kv =>
    match kv.splitOn "=" with
    | [c, v] => (parseVal v).bind fun x => if typeOk c x then some (c, x) else none
    | _ => none

def pkOk (tbl pk : String) : Bool :=
  let n := (pk.splitOn "+").length
  ((pk.splitOn "+").all (fun t => (parseVal t).isSome)) &&
  (match tbl with | "u" => n == 2 | "t" => n == 1 | "k" => n == 1 | _ => false)

def parseStmt (s : String) : Option Stmt :=
  match s.splitOn ":" with
  | ["ins", tbl, pk] => if pkOk tbl pk then some (.ins tbl pk []) else none
  | ["ins", tbl, pk, a] => do
      let cols ← tableCols tbl
      let asg ← parseAssigns a
      if pkOk tbl pk ∧ asg.all (fun x => cols.contains x.1) then some (.ins tbl pk asg) else none
  | ["upd", tbl, pk, a] => do
      let cols ← tableCols tbl
      let asg ← parseAssigns a
      if pkOk tbl pk ∧ ¬ asg.isEmpty ∧ asg.all (fun x => cols.contains x.1) then some (.upd tbl pk asg) else none
  | ["del", tbl, pk] => if pkOk tbl pk then some (.del tbl pk) else none
  | _ => none

def parseSeqs (s : String) : Option (Nat × Nat) :=
  if s = "all" then some (0, 1000000000) else Driver.range? s

def dbIdx (s : String) : Option Nat := s.toNat?.filter (· < 8)

-- ---------------------------------------------------------------- state

/-- a database file: what `Corro.Backup` sees of it, plus what is needed to print `crsql_changes`
(value and causal length of every entry, which neither command touches) -/
structure Image where
  db : Corro.Backup.Db
  pay : List Chg
deriving Inhabited

/-- a database that is still being grown by local writes and merges -/
structure Grown where
  crdt : Db
  /-- other sites in the order cr-sqlite gave them ordinals 1, 2, … -/
  others : List Nat := []
  members : Nat := 0
  subs : Option Nat := none
  consulServices : Option Nat := none
  consulChecks : Option Nat := none
  wal : Bool := true
deriving Inhabited

inductive File where
  | absent
  | empty
  | grown (g : Grown)
  /-- written by `restore`: no further growth -/
  | frozen (im : Image)
deriving Inhabited

structure NodeSt where
  file : File := .absent
  subsDir : Nat := 0
deriving Inhabited

structure State where
  nodes : List (Nat × NodeSt) := []
  /-- original change list of (site, version) -/
  log : List ((Nat × Nat) × List Chg) := []
  snaps : List (Nat × Image) := []

def init : State := {}

def State.node (st : State) (i : Nat) : NodeSt :=
  match st.nodes.find? (·.1 = i) with | some p => p.2 | none => {}

def State.setNode (st : State) (i : Nat) (n : NodeSt) : State :=
  if st.nodes.any (·.1 = i) then { st with nodes := st.nodes.map (fun p => if p.1 = i then (i, n) else p) }
  else { st with nodes := st.nodes ++ [(i, n)] }

def State.snap (st : State) (i : Nat) : Option Image := (st.snaps.find? (·.1 = i)).map (·.2)

def State.setSnap (st : State) (i : Nat) (im : Image) : State :=
  if st.snaps.any (·.1 = i) then { st with snaps := st.snaps.map (fun p => if p.1 = i then (i, im) else p) }
  else { st with snaps := st.snaps ++ [(i, im)] }

/-- the growable database of node `i` (created on first use, as `open_plain_db` does) -/
def growable (st : State) (i : Nat) : Option Grown :=
  match (st.node i).file with
  | .absent => some { crdt := { site := i } }
  | .grown g => some g
  | _ => none

def setGrown (st : State) (i : Nat) (g : Grown) : State :=
  st.setNode i { st.node i with file := .grown g }

/-- cr-sqlite gives a site an ordinal the first time one of its changes is written to a clock table -/
def mergeTracking (g : Grown) (cs : List Chg) : Grown :=
  cs.foldl (fun g c =>
    let d := merge g.crdt c
    let others :=
      if d.rows ≠ g.crdt.rows ∧ c.site ≠ g.crdt.site ∧ ¬ g.others.contains c.site then g.others ++ [c.site]
      else g.others
    { g with crdt := d, others := others }) g

def Grown.sites (g : Grown) : List (Nat × Nat) :=
  (0, g.crdt.site) :: g.others.zipIdx.map (fun (s, i) => (i + 1, s))

def Grown.image (g : Grown) : Image :=
  let sites := g.sites
  let chs := g.crdt.changes
  { db := {
      sites := sites
      clock := chs.map fun c =>
        ⟨c.tbl, c.pk, c.cid, c.colv, c.dbv, c.seq, (Corro.Backup.ordOf sites c.site).getD 999⟩
      data := (rowLines g.crdt).map fun l => ("", "", l)
      members := g.members, subs := g.subs
      consulServices := g.consulServices, consulChecks := g.consulChecks, wal := g.wal }
    pay := chs }

def fileImage : File → Option Image
  | .grown g => some g.image
  | .frozen im => some im
  | _ => none

def toDst : File → Corro.Backup.Dst
  | .absent => .absent
  | .empty => .empty
  | .grown g => .db g.image.db
  | .frozen im => .db im.db

-- ---------------------------------------------------------------- printing an image

def showSite : Option Nat → String
  | some s => toString s
  | none => "?"

def showOpt : Option Nat → String
  | some n => toString n
  | none => "-"

def pairLt (a b : Nat × Nat) : Bool := a.1 < b.1

def showImage (im : Image) : String :=
  let sites := (sortBy pairLt im.db.sites).map fun p => s!"{p.1}:{p.2}"
  let chs : List Chg := im.db.changes.map fun c =>
    let p := im.pay.find? (fun x => x.tbl = c.tbl ∧ x.pk = c.key ∧ x.cid = c.col)
    { tbl := c.tbl, pk := c.key, cid := c.col, val := (p.map (·.val)).getD .null, colv := c.colv,
      cl := (p.map (·.cl)).getD 0, site := c.site.getD 99, dbv := c.dbv, seq := c.seq }
  let unresolved := im.db.changes.any (·.site.isNone)
  let shown := (sortBy keyLt chs).map fun c =>
    if unresolved ∧ c.site = 99 then
      s!"{c.tbl}/{c.pk}/{c.cid}={showVal c.val}@{c.colv}.{c.cl}.?.{c.dbv}.{c.seq}"
    else showChg c
  s!"sites={Driver.showList sites} local=m{im.db.members},s{showOpt im.db.subs},cs{showOpt im.db.consulServices},cc{showOpt im.db.consulChecks} mode={if im.db.wal then "wal" else "delete"} | " ++
    Driver.showList shown ";" ++ " | " ++ Driver.showList (im.db.data.map (·.2.2)) ";"

def showNode (n : NodeSt) : String :=
  match n.file with
  | .absent => s!"absent dir={n.subsDir}"
  | .empty => s!"empty dir={n.subsDir}"
  | f => match fileImage f with
    | some im => s!"dir={n.subsDir} " ++ showImage im
    | none => "?"

def parseKeep (s : String) : Option Corro.Backup.Keep :=
  if s = "no" then some .no
  else if s = "self" then some .self
  else match s.splitOn ":" with
    | ["actor", i] => (dbIdx i).map .actor
    | _ => none

def parseOptNat (s : String) : Option (Option Nat) :=
  if s = "-" then some none else s.toNat?.map some

def bulkStmts (n len : Nat) : List Stmt :=
  (List.range n).map fun j =>
    .ins "t" s!"i{1000 + j}" [("a", .text (List.replicate len (0x61 + j % 26))), ("b", .int j)]

/-- what `restore` leaves behind: the destination node and the (edited) snapshot -/
def applyRestore (st : State) (sn dn : Nat) (im : Image) (keep : Corro.Backup.Keep) :
    State × String :=
  let n := st.node dn
  match Corro.Backup.restore { file := toDst n.file, subsDir := n.subsDir } im.db keep with
  | .error (.noSelf, n') =>
    let file := match n'.file, n.file with
      | .empty, .absent => File.empty
      | _, f => f
    (st.setNode dn { file := file, subsDir := n'.subsDir }, "err no-self")
  | .ok r =>
    let st := st.setSnap sn { im with db := r.snapshot }
    (st.setNode dn { file := .frozen { im with db := r.snapshot }, subsDir := r.node.subsDir }, "ok")

def step (st : State) (toks : List String) : Option (State × String) :=
  match toks with
  | ["cw", db, stmts] => do
    let i ← dbIdx db
    let ss ← (stmts.splitOn ";").mapM parseStmt
    match growable st i with
    | none => pure (st, "err frozen")
    | some g =>
      match localTx g.crdt ss with
      | .error .constraint => pure (setGrown st i g, "err constraint")
      | .error .badOp => none
      | .ok (_, none) => pure (setGrown st i g, "noop")
      | .ok (d, some (ver, chs)) =>
        pure ({ setGrown st i { g with crdt := d } with log := ((i, ver), chs) :: st.log },
              s!"ok v={ver} {showChgs chs}")
  | ["bulk", db, n, len] => do
    let i ← dbIdx db; let n ← n.toNat?; let len ← len.toNat?
    if n = 0 ∨ n > 2000 ∨ len > 4000 then none else
    match growable st i with
    | none => pure (st, "err frozen")
    | some g =>
      match localTx g.crdt (bulkStmts n len) with
      | .error _ => pure (setGrown st i g, "err constraint")
      | .ok (_, none) => pure (setGrown st i g, "noop")
      | .ok (d, some (ver, chs)) =>
        pure ({ setGrown st i { g with crdt := d } with log := ((i, ver), chs) :: st.log }, s!"ok v={ver}")
  | ["cm", dst, frm, site, ver, seqs] => do
    let d ← dbIdx dst; let f ← dbIdx frm; let s ← dbIdx site; let v ← ver.toNat?
    let (lo, hi) ← parseSeqs seqs
    match growable st d, growable st f with
    | some g, some gf =>
      let st := setGrown st f gf
      let chs := sortBySeq (gf.crdt.changesOf s v lo hi)
      let g' := mergeTracking g chs
      pure (setGrown st d g', s!"ok n={chs.length} | {dump g'.crdt}")
    | _, _ => pure (st, "err frozen")
  | ["co", dst, site, ver, seqs] => do
    let d ← dbIdx dst; let s ← dbIdx site; let v ← ver.toNat?
    let (lo, hi) ← parseSeqs seqs
    match growable st d with
    | none => pure (st, "err frozen")
    | some g =>
      match st.log.find? (·.1 = (s, v)) with
      | none => pure (setGrown st d g, "err no-such-version")
      | some (_, all) =>
        let chs := all.filter (fun c => lo ≤ c.seq ∧ c.seq ≤ hi)
        let g' := mergeTracking g chs
        pure (setGrown st d g', s!"ok n={chs.length} | {dump g'.crdt}")
  | ["local", db, m, s, cs, cc, dir] => do
    let i ← dbIdx db; let m ← m.toNat?; let s ← parseOptNat s; let cs ← parseOptNat cs
    let cc ← parseOptNat cc; let dir ← dir.toNat?
    match growable st i with
    | none => pure (st, "err frozen")
    | some g =>
      let st := setGrown st i { g with members := m, subs := s, consulServices := cs, consulChecks := cc }
      pure (st.setNode i { st.node i with subsDir := dir }, "ok")
  | ["mode", db, m] => do
    let i ← dbIdx db
    let wal ← if m = "wal" then some true else if m = "delete" then some false else none
    match growable st i with
    | none => pure (st, "err frozen")
    | some g => pure (setGrown st i { g with wal := wal }, "ok")
  | ["mkempty", db, dir] => do
    let i ← dbIdx db; let dir ← dir.toNat?
    match (st.node i).file with
    | .absent => pure (st.setNode i { file := .empty, subsDir := dir }, "ok")
    | _ => pure (st, "err exists")
  | ["backup", src, snap] => do
    let i ← dbIdx src; let k ← dbIdx snap
    if (st.snap k).isSome then pure (st, "err exists") else
    match fileImage (st.node i).file with
    | none => pure (st, "err no-db")
    | some im =>
      match Corro.Backup.backup im.db with
      | none => pure (st, "err backup")
      | some b => pure (st.setSnap k { im with db := b }, "ok")
  | ["restore", snap, dst, keep] => do
    let k ← dbIdx snap; let d ← dbIdx dst; let keep ← parseKeep keep
    match st.snap k with
    | none => pure (st, "err no-snapshot")
    | some im => pure (applyRestore st k d im keep)
  | ["trace", snap, dst, keep] => do
    let k ← dbIdx snap; let d ← dbIdx dst; let keep ← parseKeep keep
    match st.snap k with
    | none => pure (st, "err no-snapshot")
    | some im =>
      let prog := match fileImage (st.node d).file with
        | some old => Corro.Locks.restoreProg old.db.wal
        | none => Corro.Locks.restoreProgEmpty
      let (st', out) := applyRestore st k d im keep
      if out = "ok" then pure (st', "ok " ++ Driver.showList (prog.map (·.name))) else pure (st', out)
  | ["race", snap, dst, keep, readers, style] => do
    let k ← dbIdx snap; let d ← dbIdx dst; let keep ← parseKeep keep
    let r ← readers.toNat?
    if r = 0 ∨ r > 4 then none else
    if ¬ ["plain", "mmap", "alt", "altmmap", "tiny", "alttiny"].contains style then none else
    match st.snap k with
    | none => pure (st, "err no-snapshot")
    | some im =>
      match fileImage (st.node d).file with
      | none => pure (st, "err no-db")
      | some _ => pure (applyRestore st k d im keep)
  | ["timeout", snap, dst, keep, slot] => do
    let k ← dbIdx snap; let d ← dbIdx dst; let keep ← parseKeep keep
    match st.snap k with
    | none => pure (st, "err no-snapshot")
    | some im =>
      match fileImage (st.node d).file with
      | none => pure (st, "err no-db")
      | some old =>
        -- the slot must be one the restore wants exclusively in the destination's journal mode
        let wanted := ((Corro.Locks.restoreProg old.db.wal).filterMap fun
          | .acquire s .ex => some s.name
          | _ => none)
        if ¬ wanted.contains slot then none else
        -- the snapshot is edited and the subscriptions wiped before the locks are tried
        let (st', out) := applyRestore st k d im keep
        if out = "ok" then
          pure ((st'.setNode d { file := (st.node d).file, subsDir := 0 }), "err lock-timeout")
        else pure (st', out)
  | ["tag", _] => pure (st, "ok")
  | ["inspect", db] => do
    let i ← dbIdx db
    pure (st, showNode (st.node i))
  | ["inspects", snap] => do
    let k ← dbIdx snap
    match st.snap k with
    | none => pure (st, "err no-snapshot")
    | some im => pure (st, showImage im)
  | _ => none

end Driver.C19
def main : IO Unit := Driver.runLoop Driver.C19.init Driver.C19.step
