import Driver.Util
/-! Driver stub for C03: not built yet. -/
namespace Driver.C03
abbrev State := Unit
def init : State := ()
def step (st : State) (_toks : List String) : Option (State × String) := some (st, "bad-op")
end Driver.C03
def main : IO Unit := Driver.runLoop Driver.C03.init Driver.C03.step
