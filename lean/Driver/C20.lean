import Driver.Util
/-! Driver stub for C20: not built yet. -/
namespace Driver.C20
abbrev State := Unit
def init : State := ()
def step (st : State) (_toks : List String) : Option (State × String) := some (st, "bad-op")
end Driver.C20
def main : IO Unit := Driver.runLoop Driver.C20.init Driver.C20.step
