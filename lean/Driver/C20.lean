import Corro.Model.WritePool
import Driver.Util
/-! Line-protocol driver for C20: the harness steers the real `SplitPool` on a current-thread
runtime (it polls the requesters' futures itself and lets the dispatcher task run only inside `run`),
this driver performs the same ops on `Corro.WritePool`.

```
req <id> <p|n|l>     first poll of `write_priority|normal|low()`      -> queued
run                  let the dispatcher task run until it blocks       -> ok
poll <id>            poll the requester's future once                  -> pending | granted live=<n> | holding | gone
drop <id>            drop the future / the WriteConn                   -> dropped future|conn|none
dropheld             drop whichever WriteConn is held                  -> dropped <id>|none
ext take|release     an outside party takes / returns the write permit -> ok | busy | none | refused
state                                                                  -> holding=<ids> pending=<ids>
stress <threads> <p:hold_us:cancel_us|-;…>   oracle-only family (real threads)  -> done n=<k>
agent <cap> <k> <split> <local>              oracle-only family (real agent)    -> done applied=<k> local=<local>
```
-/
namespace Driver.C20
open Corro.WritePool

structure State where
  st : Corro.WritePool.State := Corro.WritePool.init
  ids : List Nat := []          -- ids in order of creation

def init : State := {}

def cfg : Cfg := Cfg.standard

def parsePrio : String → Option Prio
  | "p" => some .priority
  | "n" => some .normal
  | "l" => some .low
  | _ => none

def idsWhere (s : State) (f : Phase → Bool) : List Nat :=
  (s.ids.filter fun r => f (s.st.phase r))

def isPending : Phase → Bool
  | .queued | .granted | .hasGuard | .hasConn => true
  | _ => false

def isWokenNotHolding : Phase → Bool
  | .granted | .hasGuard | .hasConn => true
  | _ => false

def sortNats (l : List Nat) : List Nat := (l.toArray.qsort (· < ·)).toList

def validSpec (s : String) : Bool :=
  match s.splitOn ":" with
  | [p, h, c] => (parsePrio p).isSome && h.toNat?.isSome && (c == "-" || c.toNat?.isSome)
  | _ => false

def step (s : State) (toks : List String) : Option (State × String) :=
  match toks with
  | ["req", id, p] => do
    let r ← id.toNat?
    let p ← parsePrio p
    if s.ids.contains r then none else
    let st ← Corro.WritePool.step cfg s.st (.enqueue r p)
    pure ({ st := st, ids := s.ids ++ [r] }, "queued")
  | ["run"] =>
    pure ({ s with st := runDispatcher cfg (2 * totalQueued s.st + 4) s.st }, "ok")
  | ["poll", id] => do
    let r ← id.toNat?
    if !s.ids.contains r then none else
    match s.st.phase r with
    | .holding => pure (s, "holding")
    | .gone => pure (s, "gone")
    | _ =>
      let st := pollRequester cfg s.st r
      let s' := { s with st := st }
      if st.phase r = .holding then
        pure (s', s!"granted live={(idsWhere s' (· == .holding)).length}")
      else pure (s', "pending")
  | ["drop", id] => do
    let r ← id.toNat?
    if !s.ids.contains r then none else
    match s.st.phase r with
    | .gone => pure (s, "dropped none")
    | .holding =>
      let st ← Corro.WritePool.step cfg s.st (.release r)
      pure ({ s with st := st }, "dropped conn")
    | _ =>
      let st ← Corro.WritePool.step cfg s.st (.cancel r)
      pure ({ s with st := st }, "dropped future")
  | ["dropheld"] =>
    match idsWhere s (· == .holding) with
    | r :: _ => do
      let st ← Corro.WritePool.step cfg s.st (.release r)
      pure ({ s with st := st }, s!"dropped {r}")
    | [] => pure (s, "dropped none")
  | ["ext", "take"] =>
    if !(idsWhere s isWokenNotHolding).isEmpty then pure (s, "refused") else
    match Corro.WritePool.step cfg s.st .extAcquire with
    | some st => pure ({ s with st := st }, "ok")
    | none => pure (s, "busy")
  | ["ext", "release"] =>
    match Corro.WritePool.step cfg s.st .extRelease with
    | some st => pure ({ s with st := st }, "ok")
    | none => pure (s, "none")
  | ["state"] =>
    pure (s, s!"holding={showNats (sortNats (idsWhere s (· == .holding)))} pending={showNats (sortNats (idsWhere s isPending))}")
  | ["stress", th, specs] => do
    let t ← th.toNat?
    if t = 0 || t > 16 then none else
    let sp := splitList specs ";"
    if sp.isEmpty || !sp.all validSpec then none else
    pure (s, s!"done n={sp.length}")
  | ["agent", cap, k, split, loc] => do
    let cap ← cap.toNat?; let k ← k.toNat?; let split ← split.toNat?; let loc ← loc.toNat?
    if cap = 0 || cap > 64 || k = 0 || k > 64 || split = 0 || split > 3 || loc > 8 then none else
    pure (s, s!"done applied={k} local={loc}")
  | _ => none

end Driver.C20
def main : IO Unit := Driver.runLoop Driver.C20.init Driver.C20.step
