import Corro.Model.Crdt
import Driver.Util
import Driver.CrdtFmt
import Driver.ClusterOps
/-! Driver for C01: the `c*` op family (plain cr-sqlite databases) and the cluster ops (`n*`). -/
namespace Driver.C01
open Corro.Crdt Driver.CrdtFmt

structure State where
  dbs : List Db := []                              -- index = site
  log : List ((Nat × Nat) × List Chg) := []        -- original change list of (site, version)
  cluster : Driver.ClusterOps.CState := {}

def init : State := {}

def State.db (st : State) (i : Nat) : Db :=
  match st.dbs.find? (·.site = i) with | some d => d | none => { site := i }

def State.setDb (st : State) (d : Db) : State :=
  if st.dbs.any (·.site = d.site) then { st with dbs := st.dbs.map (fun x => if x.site = d.site then d else x) }
  else { st with dbs := st.dbs ++ [d] }

def parseSeqs (s : String) : Option (Nat × Nat) :=
  if s = "all" then some (0, 1000000000) else range? s

def dbIdx (s : String) : Option Nat := s.toNat?.filter (· < 8)

def stepCrdt (st : State) (toks : List String) : Option (State × String) :=
  match toks with
  | ["cw", db, stmts] => do
    let i ← dbIdx db
    let ss ← (stmts.splitOn ";").mapM parseStmt
    match localTx (st.db i) ss with
    | .error .constraint => pure (st, "err constraint")
    | .error .badOp => none
    | .ok (_, none) => pure (st, "noop")
    | .ok (d, some (ver, chs)) =>
      pure ({ st.setDb d with log := ((i, ver), chs) :: st.log }, s!"ok v={ver} {showChgs chs}")
  | ["cm", dst, frm, site, ver, seqs] => do
    let d ← dbIdx dst; let f ← dbIdx frm; let s ← dbIdx site; let v ← ver.toNat?
    let (lo, hi) ← parseSeqs seqs
    let chs := sortBySeq ((st.db f).changesOf s v lo hi)
    let nd := mergeAll (st.db d) chs
    pure (st.setDb nd, s!"ok n={chs.length} | {dump nd}")
  | ["co", dst, site, ver, seqs] => do
    let d ← dbIdx dst; let s ← dbIdx site; let v ← ver.toNat?
    let (lo, hi) ← parseSeqs seqs
    match st.log.find? (·.1 = (s, v)) with
    | none => pure (st, "err no-such-version")
    | some (_, all) =>
      let chs := all.filter (fun c => lo ≤ c.seq ∧ c.seq ≤ hi)
      let nd := mergeAll (st.db d) chs
      pure (st.setDb nd, s!"ok n={chs.length} | {dump nd}")
  | ["dump", db] => do
    let i ← dbIdx db
    pure (st, dump (st.db i))
  | _ => none

def step (st : State) (toks : List String) : Option (State × String) :=
  match toks with
  | t :: _ =>
    if t.startsWith "n" || t == "tag" then
      (Driver.ClusterOps.step st.cluster toks).map fun (c, o) => ({ st with cluster := c }, o)
    else stepCrdt st toks
  | [] => none

end Driver.C01
def main : IO Unit := Driver.runLoop Driver.C01.init Driver.C01.step
