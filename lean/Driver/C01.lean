import Corro.Model.Crdt
import Driver.Util
/-! Driver for C01: the `c*` op family (plain cr-sqlite databases). -/
namespace Driver.C01
open Corro.Crdt

def hexDigit (c : Char) : Option Nat :=
  if '0' ≤ c ∧ c ≤ '9' then some (c.toNat - '0'.toNat)
  else if 'a' ≤ c ∧ c ≤ 'f' then some (c.toNat - 'a'.toNat + 10) else none

def parseHex : List Char → Option (List Nat)
  | [] => some []
  | [_] => none
  | a :: b :: rest => do
    let x ← hexDigit a; let y ← hexDigit b; let r ← parseHex rest
    pure ((x * 16 + y) :: r)

def hexOf (n : Nat) : String :=
  let d (k : Nat) : Char := if k < 10 then Char.ofNat (48 + k) else Char.ofNat (87 + k)
  String.ofList [d (n / 16), d (n % 16)]

def showHex (bs : List Nat) : String := String.join (bs.map hexOf)

def parseVal (s : String) : Option Val :=
  match s.toList with
  | ['n'] => some .null
  | 'i' :: rest => (String.ofList rest).toInt?.map Val.int
  | 't' :: rest => (parseHex rest).map Val.text
  | 'b' :: rest => (parseHex rest).map Val.blob
  | _ => none

def showVal : Val → String
  | .null => "n"
  | .int i => s!"i{i}"
  | .text b => "t" ++ showHex b
  | .blob b => "b" ++ showHex b

def showChg (c : Chg) : String :=
  s!"{c.tbl}/{c.pk}/{c.cid}={showVal c.val}@{c.colv}.{c.cl}.{c.site}.{c.dbv}.{c.seq}"

def showChgs (cs : List Chg) : String := showList (cs.map showChg) ";"

def insertSorted (lt : α → α → Bool) (x : α) : List α → List α
  | [] => [x]
  | y :: ys => if lt x y then x :: y :: ys else y :: insertSorted lt x ys

def sortBy (lt : α → α → Bool) (xs : List α) : List α := xs.foldl (fun acc x => insertSorted lt x acc) []

def keyLt (a b : Chg) : Bool :=
  a.tbl < b.tbl ∨ (a.tbl = b.tbl ∧ (a.pk < b.pk ∨ (a.pk = b.pk ∧ a.cid < b.cid)))

def dump (db : Db) : String :=
  let chs := sortBy keyLt db.changes
  let rowsOf (tbl : String) : List String :=
    match tableCols tbl with
    | none => []
    | some cols =>
      sortBy (fun (a b : String) => a < b) <|
        (db.rows.filter (fun r => r.tbl = tbl ∧ r.cl % 2 = 1)).map fun r =>
          let vals := cols.map fun c => match r.findCell c with | some x => showVal x.val | none => "n"
          s!"{tbl}/{r.pk}:" ++ ",".intercalate vals
  let rows := rowsOf "k" ++ rowsOf "t" ++ rowsOf "u"
  showChgs chs ++ " | " ++ showList rows ";"

/-- stored == written: no integers into TEXT-affinity columns, only integers/NULL into `b` -/
def typeOk (c : String) : Val → Bool
  | .null => true
  | .int _ => c == "b"
  | .text _ => c == "a" || c == "x"
  | .blob _ => c == "a" || c == "x"

def parseAssigns (s : String) : Option (List (String × Val)) :=
  (splitList s).mapM fun kv =>
    match kv.splitOn "=" with
    | [c, v] => (parseVal v).bind fun x => if typeOk c x then some (c, x) else none
    | _ => none

def pkOk (tbl pk : String) : Bool :=
  let n := (pk.splitOn "+").length
  ((pk.splitOn "+").all (fun t => (parseVal t).isSome)) &&
  (match tbl with | "u" => n == 2 | "t" => n == 1 | "k" => n == 1 | _ => false)

def parseStmt (s : String) : Option Stmt :=
  match s.splitOn ":" with
  | ["ins", tbl, pk] => if pkOk tbl pk then some (.ins tbl pk []) else none
  | ["ins", tbl, pk, a] => do
      let cols ← tableCols tbl
      let asg ← parseAssigns a
      if pkOk tbl pk ∧ asg.all (fun x => cols.contains x.1) then some (.ins tbl pk asg) else none
  | ["upd", tbl, pk, a] => do
      let cols ← tableCols tbl
      let asg ← parseAssigns a
      if pkOk tbl pk ∧ ¬ asg.isEmpty ∧ asg.all (fun x => cols.contains x.1) then some (.upd tbl pk asg) else none
  | ["del", tbl, pk] => if pkOk tbl pk then some (.del tbl pk) else none
  | _ => none

structure State where
  dbs : List Db := []                              -- index = site
  log : List ((Nat × Nat) × List Chg) := []        -- original change list of (site, version)

def init : State := {}

def State.db (st : State) (i : Nat) : Db :=
  match st.dbs.find? (·.site = i) with | some d => d | none => { site := i }

def State.setDb (st : State) (d : Db) : State :=
  if st.dbs.any (·.site = d.site) then { st with dbs := st.dbs.map (fun x => if x.site = d.site then d else x) }
  else { st with dbs := st.dbs ++ [d] }

def parseSeqs (s : String) : Option (Nat × Nat) :=
  if s = "all" then some (0, 1000000000) else range? s

def dbIdx (s : String) : Option Nat := s.toNat?.filter (· < 8)

def step (st : State) (toks : List String) : Option (State × String) :=
  match toks with
  | ["cw", db, stmts] => do
    let i ← dbIdx db
    let ss ← (stmts.splitOn ";").mapM parseStmt
    match localTx (st.db i) ss with
    | .error .constraint => pure (st, "err constraint")
    | .error .badOp => none
    | .ok (_, none) => pure (st, "noop")
    | .ok (d, some (ver, chs)) =>
      pure ({ st.setDb d with log := ((i, ver), chs) :: st.log }, s!"ok v={ver} {showChgs chs}")
  | ["cm", dst, frm, site, ver, seqs] => do
    let d ← dbIdx dst; let f ← dbIdx frm; let s ← dbIdx site; let v ← ver.toNat?
    let (lo, hi) ← parseSeqs seqs
    let chs := sortBySeq ((st.db f).changesOf s v lo hi)
    let nd := mergeAll (st.db d) chs
    pure (st.setDb nd, s!"ok n={chs.length} | {dump nd}")
  | ["co", dst, site, ver, seqs] => do
    let d ← dbIdx dst; let s ← dbIdx site; let v ← ver.toNat?
    let (lo, hi) ← parseSeqs seqs
    match st.log.find? (·.1 = (s, v)) with
    | none => pure (st, "err no-such-version")
    | some (_, all) =>
      let chs := all.filter (fun c => lo ≤ c.seq ∧ c.seq ≤ hi)
      let nd := mergeAll (st.db d) chs
      pure (st.setDb nd, s!"ok n={chs.length} | {dump nd}")
  | ["dump", db] => do
    let i ← dbIdx db
    pure (st, dump (st.db i))
  | _ => none

end Driver.C01
def main : IO Unit := Driver.runLoop Driver.C01.init Driver.C01.step
