import Driver.Util
/-! Driver stub for C01: not built yet. -/
namespace Driver.C01
abbrev State := Unit
def init : State := ()
def step (st : State) (_toks : List String) : Option (State × String) := some (st, "bad-op")
end Driver.C01
def main : IO Unit := Driver.runLoop Driver.C01.init Driver.C01.step
