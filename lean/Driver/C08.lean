import Corro.Model.Chunker
import Driver.Util
namespace Driver.C08
open Corro.Chunker

def parseChg (s : String) : Option Chg :=
  match s.splitOn ":" with
  | [a, b] => do let x ← a.toNat?; let y ← b.toNat?; pure ⟨x, y⟩
  | _ => none

def showChunk (c : Chunk) : String :=
  s!"{c.lo}-{c.hi}:" ++ showNats (c.changes.map (·.seq))

/-- `chunk <start> <last> <limits> <seq:size,...>` ; the last limit repeats for later calls. -/
def run (toks : List String) : Option String :=
  match toks with
  | ["chunk", s, l, lims, cs] => do
    let s ← s.toNat?; let l ← l.toNat?
    let lims ← natList? lims
    let cs ← (splitList cs).mapM parseChg
    let lim := fun k => lims.getD k (lims.getLast?.getD 0)
    pure (showList ((chunks s l lim cs).map showChunk) ";")
  | ["crange", lo, hi, k] => do
    let lo ← lo.toNat?; let hi ← hi.toNat?; let k ← k.toNat?
    if k = 0 then pure "err zero-step" else
    pure (showRanges (chunkRange lo hi k))
  | _ => none

abbrev State := Unit
def init : State := ()
def step (st : State) (toks : List String) : Option (State × String) := (run toks).map (st, ·)

end Driver.C08
def main : IO Unit := Driver.runLoop Driver.C08.init Driver.C08.step
