import Corro.Model.Authz
import Driver.Util
/-! Line-protocol driver for C17.

`req <cfg:token|none> <METHOD> <path> <hdr-shape>`  → `pass` | `401` | `400-hdr`
     what the authz middleware does with the request (every route is served through it, theorem
     `all_routes_guarded`); `pass` = the inner handler runs, its own status is not modelled.
`query <cfg> <id> <class:r|w|e|v|u> <hex sql>`      → `ran` | `refused` | `prep-error` | `not-run` | `ran|prep-error`
     /v1/queries with the right credentials; class = sqlite's verdict on the text (trusted input of the
     model): r = prepares and `stmt_readonly`, w = prepares and not readonly, e = does not prepare,
     v = e or w, u = r or e, depending on the pooled read connection's state left behind by earlier
     requests (`PRAGMA writable_schema = ON`, an open `BEGIN`).
`sub <cfg> <id> <class:s|n|x> <hex sql>`            → `accepted` | `refused`
     /v1/subscriptions; s = single SELECT the matcher accepts, n = first command is not a SELECT (or no
     parse), x = a SELECT that later checks refuse.

The header shapes are expanded to raw header values by the table below (the same table is in
harness/src/c17.rs) and parsed by the model's `parseHeader`. -/
namespace Driver.C17
open Corro.Authz

def token : String := "c17-S3cr3t.Tok_en"
def tokenUpper : String := "C17-S3CR3T.TOK_EN"
def tokenLower : String := "c17-s3cr3t.tok_en"
def wrongTok : String := "not-the-token"
def basicVal : String := "Basic dXNlcjpjMTctUzNjcjN0LlRva19lbg=="

def hexVal (c : Char) : Option Nat :=
  if '0' ≤ c ∧ c ≤ '9' then some (c.toNat - '0'.toNat)
  else if 'a' ≤ c ∧ c ≤ 'f' then some (c.toNat - 'a'.toNat + 10)
  else none

def hexBytes : List Char → Option (List Nat)
  | [] => some []
  | [_] => none
  | a :: b :: r => do
    let x ← hexVal a; let y ← hexVal b; let t ← hexBytes r
    pure ((x * 16 + y) :: t)

/-- raw header value given in the op line: non-empty, bytes a server accepts in a field value
(0x20..0x7e, 0x80..0xff), no leading/trailing whitespace (HTTP strips it) -/
def rawOk (bs : List Nat) : Bool :=
  !bs.isEmpty && bs.all (fun b => (32 ≤ b && b < 127) || (128 ≤ b && b < 256))
    && bs.head? != some 32 && bs.getLast? != some 32

/-- shape name → the Authorization header values sent, in order -/
def shapeValues (s : String) : Option (List (List Char)) :=
  let one (v : String) := some [v.toList]
  match s with
  | "missing" => some []
  | "proxy-auth" => some []            -- `Proxy-Authorization: Bearer <token>` only
  | "empty" => one ""
  | "basic" => one basicVal
  | "basic-token" => one ("Basic " ++ token)
  | "token-only" => one token
  | "scheme-only" => one "Bearer"
  | "no-space" => one ("Bearer" ++ token)
  | "tab-sep" => one ("Bearer\t" ++ token)
  | "wrong" => one ("Bearer " ++ wrongTok)
  | "prefix" => one ("Bearer " ++ String.ofList (token.toList.dropLast))
  | "prefix1" => one ("Bearer " ++ String.ofList (token.toList.take 1))
  | "suffix" => one ("Bearer " ++ token ++ "x")
  | "case" => one ("Bearer " ++ tokenUpper)
  | "case-lower" => one ("Bearer " ++ tokenLower)
  | "lowercase-scheme" => one ("bearer " ++ token)
  | "uppercase-scheme" => one ("BEARER " ++ token)
  | "extra-space" => one ("Bearer  " ++ token)
  | "trailing-junk" => one ("Bearer " ++ token ++ " x")
  | "quoted" => one ("Bearer \"" ++ token ++ "\"")
  | "token-twice" => one ("Bearer " ++ token ++ token)
  | "comma-list" => one ("Bearer " ++ wrongTok ++ ", Bearer " ++ token)
  | "non-ascii" => some [("Bearer " ++ token).toList ++ [Char.ofNat 233]]
  | "dup-wrong-correct" => some [("Bearer " ++ wrongTok).toList, ("Bearer " ++ token).toList]
  | "dup-correct-wrong" => some [("Bearer " ++ token).toList, ("Bearer " ++ wrongTok).toList]
  | "dup-basic-correct" => some [basicVal.toList, ("Bearer " ++ token).toList]
  | "correct" => one ("Bearer " ++ token)
  | _ =>
    if s.startsWith "raw:" then do
      let bs ← hexBytes (s.toList.drop 4)
      if rawOk bs then pure [bs.map Char.ofNat] else none
    else none

def cfgOf : String → Option (Option Token)
  | "token" => some (some token)
  | "none" => some none
  | _ => none

def methodOk (m : String) : Bool := !m.isEmpty && m.toList.all (fun c => 'A' ≤ c ∧ c ≤ 'Z')
def pathOk (p : String) : Bool := p.startsWith "/" && p.toList.all (fun c => 33 ≤ c.toNat && c.toNat < 127)
def hexOk (h : String) : Bool := (hexBytes h.toList).isSome

/-- the inner handler of the model run: status 0 marks "the handler ran" -/
def probe : Handler Unit := fun st => (0, st)

def run (toks : List String) : Option String :=
  match toks with
  | ["req", cfg, m, p, shape] => do
    let cfg ← cfgOf cfg
    if !(methodOk m && pathOk p) then none
    let vals ← shapeValues shape
    let (status, _) := serve true cfg (parseHeader vals) probe ()
    pure (if status = 0 then "pass" else if status = 401 then "401" else if status = 400 then "400-hdr" else s!"status {status}")
  | ["query", cfg, _id, cls, hex] => do
    let _ ← cfgOf cfg
    if !hexOk hex then none
    if cls = "v" then
      -- the text either does not prepare or prepares to a non-readonly statement: not executed in both
      let (s1, _) := queryHandler Prep.error probe ()
      let (s2, _) := queryHandler (Prep.ok false) probe ()
      pure (if s1 ≠ 0 ∧ s2 ≠ 0 then "not-run" else "ran")
    else if cls = "u" then
      -- flag-only statement that sqlite compiles or not depending on connection state: never the refusal
      let (s1, _) := queryHandler Prep.error probe ()
      let (s2, _) := queryHandler (Prep.ok true) probe ()
      pure (if s1 = 400 ∧ s2 = 0 then "ran|prep-error" else "refused")
    else
    let p ← (match cls with
      | "r" => some (Prep.ok true) | "w" => some (Prep.ok false) | "e" => some Prep.error | _ => none)
    let (status, _) := queryHandler p probe ()
    pure (if status = 0 then "ran" else match p with | .error => "prep-error" | _ => "refused")
  | ["sub", cfg, _id, cls, hex] => do
    let _ ← cfgOf cfg
    if !hexOk hex then none
    -- s: select, later checks pass; x: select, later checks refuse; n: not a select
    let (isSel, laterOk) ← (match cls with
      | "s" => some (true, true) | "x" => some (true, false) | "n" => some (false, true) | _ => none)
    let later : Handler Unit := fun st => (if laterOk then 0 else 500, st)
    let (status, _) := subHandler isSel later ()
    pure (if status = 0 then "accepted" else "refused")
  | _ => none

abbrev State := Unit
def init : State := ()
def step (st : State) (toks : List String) : Option (State × String) := (run toks).map (st, ·)

end Driver.C17
def main : IO Unit := Driver.runLoop Driver.C17.init Driver.C17.step
