import Driver.Util
/-! Driver stub for C17: not built yet. -/
namespace Driver.C17
abbrev State := Unit
def init : State := ()
def step (st : State) (_toks : List String) : Option (State × String) := some (st, "bad-op")
end Driver.C17
def main : IO Unit := Driver.runLoop Driver.C17.init Driver.C17.step
