import Corro.Model.Ivm
import Driver.Util
/-! Line-protocol driver for C11: the model database, the change lists of transactions, the
candidate buffers of every subscription and `Corro.Ivm.step`. -/
namespace Driver.C11
open Corro.Ivm

/-! ### schema of the correspondence: t(id; a,b) u(k1,k2; x) k(id) w(id; y) -/

structure TDef where
  name : String
  id : Nat
  nk : Nat
  cols : List String
  ty : List Char
deriving Inhabited

def tables : List TDef := [
  ⟨"t", 0, 1, ["id", "a", "b"], ['i', 't', 'i']⟩,
  ⟨"u", 1, 2, ["k1", "k2", "x"], ['i', 't', 't']⟩,
  ⟨"k", 2, 1, ["id"], ['i']⟩,
  ⟨"w", 3, 1, ["id", "y"], ['t', 'i']⟩]

def tdef? (n : String) : Option TDef := tables.find? (·.name = n)
def tdefById (i : Nat) : TDef := (tables.find? (·.id = i)).getD default

/-! ### values -/

def hexVal (c : Char) : Option Nat :=
  if '0' ≤ c ∧ c ≤ '9' then some (c.toNat - '0'.toNat)
  else if 'a' ≤ c ∧ c ≤ 'f' then some (c.toNat - 'a'.toNat + 10)
  else none

def parseHex : List Char → Option (List Nat)
  | [] => some []
  | [_] => none
  | a :: b :: rest => do
    let x ← hexVal a; let y ← hexVal b; let r ← parseHex rest
    pure ((x * 16 + y) :: r)

def okText (b : List Nat) : Bool := b.all (fun c => (97 ≤ c ∧ c ≤ 122) ∨ (48 ≤ c ∧ c ≤ 57))

/-- value tokens of the harness: `n`, `i<decimal>`, `t<hex of [a-z0-9]*>` -/
def parseVal (s : String) : Option Val :=
  match s.toList with
  | ['n'] => some .null
  | 'i' :: rest => (String.ofList rest).toInt?.map Val.int
  | 't' :: rest => (parseHex rest).bind fun b => if okText b then some (.text b) else none
  | _ => none

def hexDigit (n : Nat) : Char := if n < 10 then Char.ofNat (48 + n) else Char.ofNat (87 + n)
def showHex (b : List Nat) : String := String.ofList (b.flatMap fun x => [hexDigit (x / 16), hexDigit (x % 16)])

def showVal : Val → String
  | .null => "n"
  | .int i => s!"i{i}"
  | .text b => "t" ++ showHex b
  | .blob b => "b" ++ showHex b

def valOk (v : Val) (ty : Char) (key : Bool) : Bool :=
  match v with
  | .null => !key
  | .int _ => ty = 'i'
  | .text _ => ty = 't'
  | .blob _ => false

/-! ### statements -/

inductive Stmt where
  | ins (t : TDef) (k : Key) (assigns : List (Nat × Val))
  | upd (t : TDef) (k : Key) (assigns : List (Nat × Val))
  | del (t : TDef) (k : Key)
  | mov (t : TDef) (k k' : Key)

def parseKey (t : TDef) (s : String) : Option Key := do
  let vs ← (s.splitOn "+").mapM parseVal
  if vs.length = t.nk ∧ (vs.zip t.ty).all (fun (v, ty) => valOk v ty true) then some vs else none

def parseAssigns (t : TDef) (s : String) : Option (List (Nat × Val)) :=
  if s = "-" ∨ s = "" then some [] else
  (s.splitOn ",").foldlM (fun acc kv =>
    match kv.splitOn "=" with
    | [c, v] => do
      let ci ← t.cols.idxOf? c
      let x ← parseVal v
      if ci < t.nk ∨ !(valOk x (t.ty.getD ci 'i') false) ∨ acc.any (·.1 = ci) then none else some (acc ++ [(ci, x)])
    | _ => none) []

def parseStmt (s : String) : Option Stmt :=
  match s.splitOn ":" with
  | ["ins", tn, k] => do let t ← tdef? tn; let k ← parseKey t k; pure (.ins t k [])
  | ["ins", tn, k, a] => do let t ← tdef? tn; let k ← parseKey t k; let a ← parseAssigns t a; pure (.ins t k a)
  | ["upd", tn, k, a] => do
    let t ← tdef? tn; let k ← parseKey t k; let a ← parseAssigns t a
    if a.isEmpty then none else pure (.upd t k a)
  | ["del", tn, k] => do let t ← tdef? tn; let k ← parseKey t k; pure (.del t k)
  | ["mov", tn, k, k'] => do let t ← tdef? tn; let k ← parseKey t k; let k' ← parseKey t k'; pure (.mov t k k')
  | _ => none

def parseTx (s : String) : Option (List Stmt) := (s.splitOn ";").mapM parseStmt

/-! ### query specs -/

abbrev Ctx := List TDef

def eat (p : String) (cs : List Char) : Option (List Char) :=
  if p.toList.isPrefixOf cs then some (cs.drop p.length) else none

def takeNat (cs : List Char) : Option (Nat × List Char) :=
  let ds := cs.takeWhile Char.isDigit
  if ds.isEmpty then none else (String.ofList ds).toNat?.map (·, cs.drop ds.length)

partial def pExpr (ctx : Ctx) (cs : List Char) : Option (Expr × List Char) :=
  let bin (name : String) (mk : Expr → Expr → Expr) : Option (Expr × List Char) := do
    let r ← eat name cs
    let (a, r) ← pExpr ctx r
    let r ← eat "," r
    let (b, r) ← pExpr ctx r
    let r ← eat ")" r
    pure (mk a b, r)
  (bin "cat(" .cat) <|> (bin "add(" .add) <|>
  (do
    let r ← eat "c" cs
    let (p, r) ← takeNat r
    let r ← eat "." r
    let (c, r) ← takeNat r
    let t ← ctx[p]?
    if c < t.cols.length then pure (.col p c, r) else none) <|>
  (do
    let r ← eat "v" cs
    let tok := r.takeWhile (fun ch => ch.isAlphanum || ch = '-')
    let v ← parseVal (String.ofList tok)
    pure (.const v, r.drop tok.length))

partial def pPred (ctx : Ctx) (cs : List Char) : Option (Pred × List Char) :=
  let cmp (name : String) (op : CmpOp) : Option (Pred × List Char) := do
    let r ← eat name cs
    let (a, r) ← pExpr ctx r
    let r ← eat "," r
    let (b, r) ← pExpr ctx r
    let r ← eat ")" r
    pure (.cmp op a b, r)
  let un (name : String) (mk : Expr → Pred) : Option (Pred × List Char) := do
    let r ← eat name cs
    let (a, r) ← pExpr ctx r
    let r ← eat ")" r
    pure (mk a, r)
  let bin (name : String) (mk : Pred → Pred → Pred) : Option (Pred × List Char) := do
    let r ← eat name cs
    let (a, r) ← pPred ctx r
    let r ← eat "," r
    let (b, r) ← pPred ctx r
    let r ← eat ")" r
    pure (mk a b, r)
  (cmp "eq(" .eq) <|> (cmp "ne(" .ne) <|> (cmp "lt(" .lt) <|> (cmp "le(" .le) <|> (cmp "gt(" .gt) <|> (cmp "ge(" .ge)
  <|> (un "nul(" .isNull) <|> (un "nn(" .notNull) <|> (bin "and(" .and) <|> (bin "or(" .or)
  <|> ((eat "T" cs).map fun r => (.tt, r))

def full {α} (r : Option (α × List Char)) : Option α :=
  match r with
  | some (a, []) => some a
  | _ => none

structure QSpec where
  q : Query
  ctx : Ctx

def parseQuery (spec : String) : Option QSpec :=
  match spec.splitOn "|" with
  | [fr, wh, pr] => do
    let froms := fr.splitOn ";"
    let base ← tdef? (froms.headD "")
    let (ctx, joins) ← (froms.drop 1).foldlM (fun (acc : Ctx × List Join) j =>
      match j.splitOn ":" with
      | [kd, tn, on] => do
        let kind ← if kd = "I" then some JoinKind.inner else if kd = "L" then some JoinKind.left else none
        let t ← tdef? tn
        if acc.1.any (·.name = t.name) then none else
        let ctx := acc.1 ++ [t]
        let p ← full (pPred ctx on.toList)
        pure (ctx, acc.2 ++ [⟨kind, ⟨t.id, t.nk⟩, p⟩])
      | _ => none) ([base], [])
    if ctx.length > 3 then none else
    let w ← full (pPred ctx wh.toList)
    let proj ← (pr.splitOn ";").mapM (fun e => full (pExpr ctx e.toList))
    pure ⟨⟨⟨base.id, base.nk⟩, joins, w, proj⟩, ctx⟩
  | _ => none

/-! ### the model world -/

structure SubSt where
  sid : String
  q : Query
  st : State
  printed : Nat := 0
  buf : List (Nat × List Key) := []

structure World where
  rows : List (Nat × List Row) := []     -- table number ↦ rows
  seen : List (Nat × Key) := []          -- keys that ever existed (their next insert carries a sentinel)
  subs : List SubSt := []
  /-- `ro1`: the peer's first transaction is still on its way: (tables after both, its change list) -/
  pending : Option (List (Nat × List Row) × List Chg × List Chg) := none

def World.tbl (w : World) (t : Nat) : List Row := ((w.rows.find? (·.1 = t)).map (·.2)).getD []
def World.db (w : World) : Db := fun t => w.tbl t
def World.setTbl (w : World) (t : Nat) (rs : List Row) : World :=
  { w with rows := (w.rows.filter (·.1 ≠ t)) ++ [(t, rs)] }

abbrev Log := List Chg

def logDropRow (l : Log) (t : Nat) (k : Key) : Log := l.filter (fun c => !(c.tbl = t ∧ c.key = k))
def logCell (l : Log) (t : Nat) (k : Key) (c : Nat) : Log :=
  (l.filter (fun x => !(x.tbl = t ∧ x.key = k ∧ x.cid = some c))) ++ [⟨t, k, some c⟩]

def mkRow (t : TDef) (k : Key) (assigns : List (Nat × Val)) : Row :=
  k ++ ((List.range t.cols.length).drop t.nk).map fun c =>
    match assigns.find? (·.1 = c) with | some (_, v) => v | none => .null

/-- one statement inside a transaction; `none` = constraint violation -/
def applyStmt (w : World) (l : Log) : Stmt → Option (World × Log)
  | .ins t k a =>
    let rs := w.tbl t.id
    if rs.any (fun r => keyOf t.nk r = k) then none else
    let rc := if (w.seen.contains (t.id, k)) then RowChange.reinsert else RowChange.insertNew
    let l := (logDropRow l t.id k) ++ changesOf t.id t.nk t.cols.length k rc
    some ({ w.setTbl t.id (rs ++ [mkRow t k a]) with seen := if w.seen.contains (t.id, k) then w.seen else w.seen ++ [(t.id, k)] }, l)
  | .upd t k a =>
    let rs := w.tbl t.id
    match rs.find? (fun r => keyOf t.nk r = k) with
    | none => some (w, l)
    | some r =>
      let changed := a.filter (fun (c, v) => r.getD c .null ≠ v)
      let r' := (List.range r.length).map fun c =>
        match a.find? (·.1 = c) with | some (_, v) => v | none => r.getD c .null
      let l := changed.foldl (fun l (c, _) => logCell l t.id k c) l
      some (w.setTbl t.id (rs.map fun x => if keyOf t.nk x = k then r' else x), l)
  | .del t k =>
    let rs := w.tbl t.id
    if rs.any (fun r => keyOf t.nk r = k) then
      some (w.setTbl t.id (rs.filter fun r => keyOf t.nk r ≠ k), (logDropRow l t.id k) ++ [⟨t.id, k, none⟩])
    else some (w, l)
  | .mov t k k' =>
    let rs := w.tbl t.id
    match rs.find? (fun r => keyOf t.nk r = k) with
    | none => some (w, l)
    | some r =>
      if k = k' then some (w, l) else
      if rs.any (fun x => keyOf t.nk x = k') then none else
      let l := (logDropRow l t.id k) ++ [⟨t.id, k, none⟩]
      let l := (logDropRow l t.id k') ++ changesOf t.id t.nk t.cols.length k' .reinsert
      let w' := w.setTbl t.id (rs.map fun x => if keyOf t.nk x = k then k' ++ r.drop t.nk else x)
      some ({ w' with seen := if w'.seen.contains (t.id, k') then w'.seen else w'.seen ++ [(t.id, k')] }, l)

def applyTx (w : World) (stmts : List Stmt) : Option (World × Log) :=
  stmts.foldlM (fun (acc : World × Log) s => applyStmt acc.1 acc.2 s) (w, [])

def showChg (c : Chg) : String :=
  let t := tdefById c.tbl
  let cid := match c.cid with | none => "-1" | some i => t.cols.getD i "?"
  s!"{t.name}/{"+".intercalate (c.key.map showVal)}/{cid}"

def showLog (l : Log) : String := showList (l.map showChg)

/-- deliver one change list (one `match_changes` call) to every subscription: matched count per sub -/
def deliver (w : World) (l : Log) : World × List Nat :=
  let res := w.subs.map fun s =>
    let cs := candidates s.q l
    let buf := cs.foldl (fun b (c : Nat × List Key) => c.2.foldl (fun b k => addCand c.1 k b) b) s.buf
    ({ s with buf := buf }, candCount cs)
  ({ w with subs := res.map (·.1) }, res.map (·.2))

/-- what the node holds after it merged only the LATER of two peer transactions: every cell the
later one wrote has its value, the other cells keep the node's value (NULL for a row the node did
not have), a row the later one deleted is gone -/
def patchRows (vis : World) (after : World) (l2 : Log) : World :=
  l2.foldl (fun (w : World) (c : Chg) =>
    let t := tdefById c.tbl
    match (after.tbl c.tbl).find? (fun r => keyOf t.nk r = c.key) with
    | none => w.setTbl c.tbl ((w.tbl c.tbl).filter fun r => keyOf t.nk r ≠ c.key)
    | some r2 =>
      let base := ((w.tbl c.tbl).find? (fun r => keyOf t.nk r = c.key)).getD (c.key ++ (List.replicate (t.cols.length - t.nk) Val.null))
      let row := (List.range t.cols.length).map fun i =>
        if i < t.nk then r2.getD i .null
        else if l2.any (fun x => x.tbl = c.tbl ∧ x.key = c.key ∧ x.cid = some i) then r2.getD i .null
        else base.getD i .null
      if (w.tbl c.tbl).any (fun r => keyOf t.nk r = c.key) then
        w.setTbl c.tbl ((w.tbl c.tbl).map fun r => if keyOf t.nk r = c.key then row else r)
      else w.setTbl c.tbl (w.tbl c.tbl ++ [row])) vis

def insertSorted (s : String) : List String → List String
  | [] => [s]
  | x :: xs => if s < x then s :: x :: xs else x :: insertSorted s xs
def sortStrs (xs : List String) : List String := xs.foldl (fun acc s => insertSorted s acc) []

def showSorted (xs : List String) : String := showList (sortStrs xs) ";"

def showCells (cs : List Val) : String := ",".intercalate (cs.map showVal)

def addLists : List Nat → List Nat → List Nat
  | a :: as, b :: bs => (a + b) :: addLists as bs
  | _, _ => []

def step (w : World) (toks : List String) : Option (World × String) :=
  match toks with
  | ["sub", sid, spec, mode] =>
    if mode ≠ "plain" ∧ mode ≠ "alias" then none else do
    let qs ← parseQuery spec
    if w.subs.any (·.sid = sid) then none else
    let st := initial qs.q w.db
    let out := s!"ok n={st.rows.length} " ++ showSorted (st.rows.map fun m => showCells m.cells)
    pure ({ w with subs := w.subs ++ [⟨sid, qs.q, st, 0, []⟩] }, out)
  | ["sync"] =>
    let res := w.subs.map fun s =>
      if candCount s.buf = 0 then ({ s with buf := [] }, 0)
      else ({ s with st := Corro.Ivm.step s.q w.db s.st s.buf, buf := [] }, 1)
    pure ({ w with subs := res.map (·.1) }, s!"ok b={showNats (res.map (·.2))}")
  | ["rows", sid] => do
    let s ← w.subs.find? (·.sid = sid)
    let rows := s.st.rows.map fun m => "+".intercalate (m.pks.flatten.map showVal) ++ "|" ++ showCells m.cells
    pure (w, s!"n={rows.length} " ++ showSorted rows)
  | ["events", sid] => do
    let s ← w.subs.find? (·.sid = sid)
    let evs := s.st.events.drop s.printed
    let w' := { w with subs := w.subs.map fun x => if x.sid = sid then { x with printed := s.st.events.length } else x }
    match evs.head?, evs.getLast? with
    | some a, some b =>
      let list := evs.map fun e => (match e.kind with | .insert => "I" | .update => "U" | .delete => "D") ++ ":" ++ showCells e.cells
      pure (w', s!"n={evs.length} ids={a.id}-{b.id} " ++ showSorted list)
    | _, _ => pure (w', "n=0 ids=- -")
  | ["ro2"] =>
    match w.pending with
    | none => none
    | some (rows, l1, l2) =>
      let w1 := { w with rows := rows, pending := none }
      if l1.isEmpty then pure (w1, s!"ok ch=- m={showNats (w.subs.map fun _ => 0)}") else
      -- `process_multiple_changes` only matches the changes that had an impact: an entry of the earlier
      -- version loses against the later one where that one rewrote the same cell, and entirely where it
      -- moved the row to a new incarnation (sentinel)
      let impact := l1.filter fun c =>
        let rowB := l2.filter (fun x => x.tbl = c.tbl ∧ x.key = c.key)
        if rowB.any (fun x => x.cid = none) then false
        else match c.cid with
          | none => rowB.isEmpty
          | some i => !(rowB.any (fun x => x.cid = some i))
      let (w2, ms) := deliver w1 impact
      pure (w2, s!"ok ch={showLog l1} m={showNats ms}")
  | ["ro1", txs] =>
    if w.pending.isSome then none else do
    let parsed ← (txs.splitOn "|").mapM parseTx
    match parsed with
    | [tx1, tx2] =>
      match applyTx w tx1 with
      | none => pure (w, "err constraint")
      | some (w1, l1) =>
        match applyTx w1 tx2 with
        | none => none
        | some (w2, l2) =>
          let vis := { patchRows w w2 l2 with seen := w2.seen, pending := some (w2.rows, l1, l2) }
          if l2.isEmpty then pure (vis, s!"ok ch=- m={showNats (w.subs.map fun _ => 0)}") else
          let (vis', ms) := deliver vis l2
          pure (vis', s!"ok ch={showLog l2} m={showNats ms}")
    | _ => none
  | [m, txs] =>
    if w.pending.isSome then none else
    if m ≠ "w" ∧ m ≠ "r" ∧ m ≠ "rp" ∧ m ≠ "rb" then none else do
    let parsed ← (txs.splitOn "|").mapM parseTx
    if m ≠ "rb" ∧ parsed.length ≠ 1 then none else
    let zero := w.subs.map fun _ => 0
    let r := parsed.foldl (fun (acc : Option (World × List String × List Nat)) tx =>
      match acc with
      | none => none
      | some (w, shown, m) =>
        match applyTx w tx with
        | none => none
        | some (w', l) =>
          if l.isEmpty then some (w', shown, m) else
          let (w'', ms) := deliver w' l
          some (w'', shown ++ [showLog l], addLists m ms)) (some (w, [], zero))
    match r with
    | none => pure (w, "err constraint")
    | some (w', shown, ms) =>
      pure (w', s!"ok ch={showList shown "|"} m={showNats ms}")
  | _ => none

abbrev State := World
def init : State := {}

end Driver.C11
def main : IO Unit := Driver.runLoop Driver.C11.init Driver.C11.step
