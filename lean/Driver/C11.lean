import Driver.Util
/-! Driver stub for C11: not built yet. -/
namespace Driver.C11
abbrev State := Unit
def init : State := ()
def step (st : State) (_toks : List String) : Option (State × String) := some (st, "bad-op")
end Driver.C11
def main : IO Unit := Driver.runLoop Driver.C11.init Driver.C11.step
