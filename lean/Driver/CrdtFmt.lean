import Corro.Model.Crdt
import Driver.Util
/-! Token syntax of values / changes / statements and canonical dumps shared by the drivers that use
the CRDT model. -/
namespace Driver.CrdtFmt
open Corro.Crdt Driver

def hexDigit (c : Char) : Option Nat :=
  if '0' ≤ c ∧ c ≤ '9' then some (c.toNat - '0'.toNat)
  else if 'a' ≤ c ∧ c ≤ 'f' then some (c.toNat - 'a'.toNat + 10) else none

def parseHex : List Char → Option (List Nat)
  | [] => some []
  | [_] => none
  | a :: b :: rest => do
    let x ← hexDigit a; let y ← hexDigit b; let r ← parseHex rest
    pure ((x * 16 + y) :: r)

def hexOf (n : Nat) : String :=
  let d (k : Nat) : Char := if k < 10 then Char.ofNat (48 + k) else Char.ofNat (87 + k)
  String.ofList [d (n / 16), d (n % 16)]

def showHex (bs : List Nat) : String := String.join (bs.map hexOf)

def parseVal (s : String) : Option Val :=
  match s.toList with
  | ['n'] => some .null
  | 'i' :: rest => (String.ofList rest).toInt?.map Val.int
  | 't' :: rest => (parseHex rest).map Val.text
  | 'b' :: rest => (parseHex rest).map Val.blob
  | _ => none

def showVal : Val → String
  | .null => "n"
  | .int i => s!"i{i}"
  | .text b => "t" ++ showHex b
  | .blob b => "b" ++ showHex b

def showChg (c : Chg) : String :=
  s!"{c.tbl}/{c.pk}/{c.cid}={showVal c.val}@{c.colv}.{c.cl}.{c.site}.{c.dbv}.{c.seq}"

def showChgs (cs : List Chg) : String := showList (cs.map showChg) ";"

def insertSorted (lt : α → α → Bool) (x : α) : List α → List α
  | [] => [x]
  | y :: ys => if lt x y then x :: y :: ys else y :: insertSorted lt x ys

def sortBy (lt : α → α → Bool) (xs : List α) : List α := xs.foldl (fun acc x => insertSorted lt x acc) []

def keyLt (a b : Chg) : Bool :=
  a.tbl < b.tbl ∨ (a.tbl = b.tbl ∧ (a.pk < b.pk ∨ (a.pk = b.pk ∧ a.cid < b.cid)))

def dump (db : Db) : String :=
  let chs := sortBy keyLt db.changes
  let rowsOf (tbl : String) : List String :=
    match tableCols tbl with
    | none => []
    | some cols =>
      sortBy (fun (a b : String) => a < b) <|
        (db.rows.filter (fun r => r.tbl = tbl ∧ r.cl % 2 = 1)).map fun r =>
          let vals := cols.map fun c => match r.findCell c with | some x => showVal x.val | none => "n"
          s!"{tbl}/{r.pk}:" ++ ",".intercalate vals
  let rows := rowsOf "k" ++ rowsOf "t" ++ rowsOf "u"
  showChgs chs ++ " | " ++ showList rows ";"

/-- stored == written: no integers into TEXT-affinity columns, only integers/NULL into `b` -/
def typeOk (c : String) : Val → Bool
  | .null => true
  | .int _ => c == "b"
  | .text _ => c == "a" || c == "x"
  | .blob _ => c == "a" || c == "x"

def parseAssigns (s : String) : Option (List (String × Val)) :=
  (splitList s).mapM fun kv =>
    match kv.splitOn "=" with
    | [c, v] => (parseVal v).bind fun x => if typeOk c x then some (c, x) else none
    | _ => none

def pkOk (tbl pk : String) : Bool :=
  let n := (pk.splitOn "+").length
  ((pk.splitOn "+").all (fun t => (parseVal t).isSome)) &&
  (match tbl with | "u" => n == 2 | "t" => n == 1 | "k" => n == 1 | _ => false)

def parseStmt (s : String) : Option Stmt :=
  match s.splitOn ":" with
  | ["ins", tbl, pk] => if pkOk tbl pk then some (.ins tbl pk []) else none
  | ["ins", tbl, pk, a] => do
      let cols ← tableCols tbl
      let asg ← parseAssigns a
      if pkOk tbl pk ∧ asg.all (fun x => cols.contains x.1) then some (.ins tbl pk asg) else none
  | ["upd", tbl, pk, a] => do
      let cols ← tableCols tbl
      let asg ← parseAssigns a
      if pkOk tbl pk ∧ ¬ asg.isEmpty ∧ asg.all (fun x => cols.contains x.1) then some (.upd tbl pk asg) else none
  | ["del", tbl, pk] => if pkOk tbl pk then some (.del tbl pk) else none
  | _ => none


end Driver.CrdtFmt
