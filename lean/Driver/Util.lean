/-! Parsing / printing helpers for the line protocol (import-free). -/
namespace Driver

def splitWs (s : String) : List String :=
  (s.trimAscii.toString.splitOn " ").filter (· ≠ "")

/-- `a,b,c` → list; `-` or empty → []. -/
def splitList (s : String) (sep : String := ",") : List String :=
  if s = "-" || s = "" then [] else s.splitOn sep

def natList? (s : String) : Option (List Nat) :=
  (splitList s).mapM String.toNat?

/-- `lo-hi` -/
def range? (s : String) : Option (Nat × Nat) :=
  match s.splitOn "-" with
  | [a, b] => do let x ← a.toNat?; let y ← b.toNat?; pure (x, y)
  | _ => none

def rangeList? (s : String) : Option (List (Nat × Nat)) :=
  (splitList s).mapM range?

def showRange (r : Nat × Nat) : String := s!"{r.1}-{r.2}"

def showList (xs : List String) (sep : String := ",") : String :=
  if xs.isEmpty then "-" else sep.intercalate xs

def showRanges (rs : List (Nat × Nat)) : String := showList (rs.map showRange)

def showNats (xs : List Nat) : String := showList (xs.map toString)

end Driver

namespace Driver

/-- The line protocol loop shared by all per-property drivers: one op per line on stdin, one
canonical answer per line on stdout.  `# case …` lines are echoed and reset the model state;
other `#` lines are echoed.  An op the model's parser rejects answers `bad-op`. -/
partial def runLoop {σ : Type} (init : σ) (step : σ → List String → Option (σ × String)) : IO Unit := do
  let inp ← IO.getStdin
  let out ← IO.getStdout
  let rec go (st : σ) : IO Unit := do
    let line ← inp.getLine
    if line.isEmpty then return ()
    let toks := splitWs line
    match toks with
    | [] => out.putStrLn ""; go st
    | t :: rest =>
      if t.startsWith "#" then
        out.putStrLn line.trimAscii.toString
        if rest.head? = some "case" then go init else go st
      else
        match step st toks with
        | some (st', o) => out.putStrLn o; go st'
        | none => out.putStrLn "bad-op"; go st
  go init
  out.flush

end Driver
