/-! Parsing / printing helpers for the line protocol (import-free). -/
namespace Driver

def splitWs (s : String) : List String :=
  (s.trimAscii.toString.splitOn " ").filter (· ≠ "")

/-- `a,b,c` → list; `-` or empty → []. -/
def splitList (s : String) (sep : String := ",") : List String :=
  if s = "-" || s = "" then [] else s.splitOn sep

def natList? (s : String) : Option (List Nat) :=
  (splitList s).mapM String.toNat?

/-- `lo-hi` -/
def range? (s : String) : Option (Nat × Nat) :=
  match s.splitOn "-" with
  | [a, b] => do let x ← a.toNat?; let y ← b.toNat?; pure (x, y)
  | _ => none

def rangeList? (s : String) : Option (List (Nat × Nat)) :=
  (splitList s).mapM range?

def showRange (r : Nat × Nat) : String := s!"{r.1}-{r.2}"

def showList (xs : List String) (sep : String := ",") : String :=
  if xs.isEmpty then "-" else sep.intercalate xs

def showRanges (rs : List (Nat × Nat)) : String := showList (rs.map showRange)

def showNats (xs : List Nat) : String := showList (xs.map toString)

end Driver
