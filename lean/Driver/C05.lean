import Driver.Util
/-! Driver stub for C05: not built yet. -/
namespace Driver.C05
abbrev State := Unit
def init : State := ()
def step (st : State) (_toks : List String) : Option (State × String) := some (st, "bad-op")
end Driver.C05
def main : IO Unit := Driver.runLoop Driver.C05.init Driver.C05.step
