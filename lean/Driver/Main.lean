import Driver.Util
import Driver.C08

/-! Line-protocol driver: one op per line on stdin, one canonical answer per line on stdout.
Lines starting with `#` are echoed (case markers). Unknown ops answer `bad-op`. -/
namespace Driver

structure St where
  dummy : Unit := ()

def step (st : St) (line : String) : St × String :=
  let toks := splitWs line
  match toks with
  | [] => (st, "")
  | t :: _ =>
    if t.startsWith "#" then (st, line.trimAscii.toString) else
    match C08.run toks with
    | some out => (st, out)
    | none => (st, "bad-op")

partial def loop (h : IO.FS.Stream) (out : IO.FS.Stream) (st : St) : IO Unit := do
  let line ← h.getLine
  if line.isEmpty then return ()
  let (st', o) := step st line
  out.putStrLn o
  loop h out st'

end Driver

def main : IO Unit := do
  let out ← IO.getStdout
  Driver.loop (← IO.getStdin) out {}
  out.flush
