import Driver.Util
/-! Driver stub for C15: not built yet. -/
namespace Driver.C15
abbrev State := Unit
def init : State := ()
def step (st : State) (_toks : List String) : Option (State × String) := some (st, "bad-op")
end Driver.C15
def main : IO Unit := Driver.runLoop Driver.C15.init Driver.C15.step
