import Corro.Model.Schema
import Driver.Util
/-! Line-protocol driver for C15 (`Corro.Schema`).  Op and statement syntax: see `harness/src/c15.rs`. -/
namespace Driver.C15
open Corro.Schema

/-! ### parsing -/

def isLowerC (c : Char) : Bool := 'a' ≤ c && c ≤ 'z'
def isUpperC (c : Char) : Bool := 'A' ≤ c && c ≤ 'Z'
def isDigitC (c : Char) : Bool := '0' ≤ c && c ≤ '9'

/-- identifiers: a lower-case letter, optionally followed by a digit or `_` and then `[a-z0-9_]*` -/
def ident? (s : String) : Option String :=
  match s.toList with
  | [] => none
  | c :: r =>
    if !isLowerC c then none else
    let second := match r with
      | [] => true
      | d :: _ => isDigitC d || d == '_'
    if second && r.all (fun x => isLowerC x || isDigitC x || x == '_') then some s else none

def distinct (xs : List String) : Bool := xs.eraseDups.length == xs.length

def flags? (s : String) : Option (Bool × Bool × Bool) :=
  if s = "-" then some (false, false, false) else
  let cs := s.toList
  if cs.isEmpty || !(cs.all (fun c => c == 'n' || c == 'p' || c == 'f')) || cs.eraseDups.length != cs.length then none
  else some (cs.contains 'n', cs.contains 'p', cs.contains 'f')

def parseCol (s : String) : Option (Name × Column) :=
  match s.splitOn "/" with
  | [n, ty, fl, d, g] => do
    let n ← ident? n
    if ty.isEmpty || !(ty.toList.all isUpperC) then none
    let (nn, ip, fk) ← flags? fl
    let dflt ← if d = "-" then some none
      else if d.isEmpty || !(d.toList.all (fun c => isLowerC c || isDigitC c)) then none
      else some (some d)
    let gen ← if g = "-" then some none else
      match g.toList with
      | 'v' :: r => (ident? (String.ofList r)).map (fun src => some { src := src, stored := false : Gen })
      | 's' :: r => (ident? (String.ofList r)).map (fun src => some { src := src, stored := true : Gen })
      | _ => none
    pure (n, { ty := ty, notNull := nn, dflt := dflt, gen := gen, inlinePk := ip, fk := fk, pk := false })
  | _ => none

def parseStmt (s : String) : Option Stmt :=
  if s = "E" then some .syntaxError else
  match s.splitOn ":" with
  | ["U", t] => (ident? t).map (fun _ => .unsupported)
  | ["T", name, cols, tpk] => do
    let name ← ident? name
    let cols ← (cols.splitOn ",").mapM parseCol
    let names := cols.map (·.1)
    if !distinct names then none
    -- a generated column copies an ordinary column of the same table
    if !(cols.all (fun e => match e.2.gen with
        | some g => cols.any (fun o => o.1 == g.src && o.2.gen.isNone)
        | none => true)) then none
    let inl := (cols.filter (fun e => e.2.inlinePk)).length
    if inl > 1 then none
    let (tpk, ex) ← if tpk = "-" then some (none, false) else
      let (body, ex) := if tpk.endsWith "!" then (String.ofList (tpk.toList.dropLast), true) else (tpk, false)
      match (body.splitOn ".").mapM ident? with
      | some l => if distinct l && l.all (fun n => names.contains n) && inl == 0 then some (some l, ex) else none
      | none => none
    pure (.table name cols tpk ex)
  | ["I", name, tbl, cols, whr, u] => do
    let name ← ident? name
    let tbl ← ident? tbl
    let cols ← (cols.splitOn ".").mapM ident?
    if !distinct cols then none
    let whr ← if whr = "-" then some none else (ident? whr).map some
    let u ← if u = "u" then some true else if u = "-" then some false else none
    pure (.index name tbl { cols := cols, whr := whr, unique := u })
  | _ => none

def parseStmts (toks : List String) : Option (List Stmt) :=
  match toks with
  | ["-"] => some []
  | [] => none
  | _ => toks.mapM parseStmt

/-! ### canonical printing -/

def insertSorted (lt : α → α → Bool) (x : α) : List α → List α
  | [] => [x]
  | y :: r => if lt x y then x :: y :: r else y :: insertSorted lt x r

def sortBy (lt : α → α → Bool) (xs : List α) : List α := xs.foldl (fun acc x => insertSorted lt x acc) []

def sortKeys {α : Type} (l : AList α) : AList α := sortBy (fun a b => a.1 < b.1) l

def orDash (s : String) : String := if s.isEmpty then "-" else s

def fnv (s : String) : UInt64 :=
  s.toUTF8.foldl (fun h b => (h ^^^ b.toUInt64) * 0x100000001b3) 0xcbf29ce484222325

def hex16 (x : UInt64) : String :=
  let ds := Nat.toDigits 16 x.toNat
  String.ofList (List.replicate (16 - ds.length) '0' ++ ds)

def digest (rows : List Row) : String :=
  let lines := rows.map (fun r => ",".intercalate (r.map (fun e => s!"{e.1}={e.2}")))
  let lines := sortBy (fun a b => a < b) lines
  s!"{rows.length}:{hex16 (fnv ("\n".intercalate lines))}"

def showDbTable (e : Name × DbTable) : String :=
  let t := e.2.tbl
  let cols := t.cols.map (fun c =>
    let g := match c.2.gen with
      | none => "-"
      | some g => if g.stored then "s" else "v"
    s!"{c.1}/{c.2.ty}/{if c.2.notNull then "n" else "-"}/{c.2.dflt.getD "-"}/{g}")
  let idx := (sortKeys t.idx).map (fun i => s!"{i.1}[{".".intercalate i.2.cols}:{if i.2.whr.isSome then "w" else "-"}]")
  s!"{e.1}({",".intercalate cols}|pk={orDash (".".intercalate t.pk)}|idx={orDash (",".intercalate idx)}|crr={if e.2.crr then 1 else 0}|rows={digest e.2.rows})"

def showMemTable (e : Name × Table) : String :=
  let t := e.2
  let cols := t.cols.map (fun c =>
    let fl := (if c.2.notNull then "n" else "") ++ (if c.2.pk then "k" else "")
    let g := match c.2.gen with
      | none => "-"
      | some g => "g" ++ g.src
    s!"{c.1}/{c.2.ty}/{orDash fl}/{c.2.dflt.getD "-"}/{g}")
  let idx := (sortKeys t.idx).map (fun i =>
    s!"{i.1}[{".".intercalate i.2.cols}:{if i.2.whr.isSome then "w" else "-"}{if i.2.unique then "u" else ""}]")
  s!"{e.1}({",".intercalate cols}|pk={orDash (".".intercalate t.pk)}|idx={orDash (",".intercalate idx)})"

def showState (st : State) : String :=
  let db := orDash (";".intercalate ((sortKeys st.db.tables).map showDbTable))
  let mem := orDash (";".intercalate ((sortKeys st.mem).map showMemTable))
  s!"db={db} mem={mem}"

def errName : Err → String
  | .empty => "empty" | .parse => "parse" | .unsupported => "unsupported"
  | .indexWithoutTable => "index-without-table" | .pkExpr => "pk-expr"
  | .notNullNeedsDefault => "not-null-needs-default" | .foreignKey => "foreign-key"
  | .uniqueIndex => "unique-index" | .dropTable => "drop-table"
  -- the four "edit of an existing table" kinds print as ONE token: `apply_schema` walks the existing tables in
  -- HashSet order, so WHICH of them is reported first is not determined when a submission has two wrong tables
  -- (accept / reject and the resulting state do not depend on the order and are compared exactly)
  | .removeColumn => "table-edit" | .changeColumn => "table-edit" | .addPk => "table-edit" | .modifyPk => "table-edit"
  | .importedPkMismatch => "imported-pk-mismatch" | .importedColsMismatch => "imported-cols-mismatch"
  | .sqlite => "sqlite"

/-! ### the loop -/

abbrev DState := Corro.Schema.State
def init : DState := State.init

def step (st : DState) (toks : List String) : Option (DState × String) :=
  match toks with
  | "submit" :: rest => do
    let stmts ← parseStmts rest
    let (st', out) := submit st stmts
    let v := match out with
      | .ok _ => "ok"
      | .error e => "err " ++ errName e
    pure (st', s!"{v} {showState st'}")
  | "extern" :: rest => do
    let stmts ← parseStmts rest
    -- REFERENCES columns are kept out of plain-SQL tables (foreign keys are enforced on inserts)
    if stmts.any (fun s => match s with
        | .table _ cols _ _ => cols.any (fun c => c.2.fk)
        | _ => false) then none
    match externAll st.db.tables stmts with
    | some tables' =>
      let st' : State := { db := { tables := tables', persisted := st.db.persisted }, mem := st.mem }
      pure (st', s!"ok {showState st'}")
    | none => pure (st, s!"err sqlite {showState st}")
  | ["rows", t, n] => do
    let t ← ident? t
    let n ← n.toNat?
    if n > 50 then none
    match insertRows st t n with
    | some st' => pure (st', s!"ok {showState st'}")
    | none => pure (st, s!"err no-table {showState st}")
  | ["restart"] =>
    let st' := restart st
    some (st', s!"ok {showState st'}")
  | _ => none

end Driver.C15
def main : IO Unit := Driver.runLoop Driver.C15.init Driver.C15.step
