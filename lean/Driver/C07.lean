import Corro.Model.LocalTx
import Driver.Util
import Driver.CrdtFmt
/-!
Driver for C07 (local write path of one node).  Ops:
  cfg <limit>                        byte limit of a broadcast chunk (read from the real constant by the harness)
  tx <stmt>;<stmt>;…                 one request; stmt = write mini-language | bad | badparam | missing ; `-` = no statement
  txt <secs> <stmt>;…                the same with `?timeout=<secs>`; additionally `slow` (a statement that outlives the timeout)
  txbig <n> <base> <len>             one request inserting rows `base .. base+n-1` into `t` (a = <len> bytes, b = index)
  rv <peer> <stmt>;…                 peer 1..3 commits a transaction, its complete changeset is ingested by the node
  conc <k> <tx>|<tx>|…               k requests issued concurrently (row-disjoint, so every serialisation gives the same set)
  state                              own need / head / db version / announced versions / store dump
-/
namespace Driver.C07
open Corro Corro.Crdt Corro.Node Corro.LocalTx Driver Driver.CrdtFmt

structure State where
  n : LNode := LNode.fresh 0
  limit : Nat := 8192
  peers : List Db := []

def init : State := {}

/-! ### `Change::estimated_byte_size` on the token form -/

def bytesNeeded (n : Nat) : Nat :=
  if n = 0 then 0 else if n < 256 then 1 else if n < 65536 then 2 else if n < 16777216 then 3
  else if n < 4294967296 then 4 else if n < 1099511627776 then 5 else if n < 281474976710656 then 6
  else if n < 72057594037927936 then 7 else 8

/-- packed length of one primary-key column (cr-sqlite's `pack_columns`) -/
def packedLen : Val → Nat
  | .null => 1
  | .int i => 1 + (if i < 0 then 8 else bytesNeeded i.toNat)
  | .text b => 1 + bytesNeeded b.length + b.length
  | .blob b => 1 + bytesNeeded b.length + b.length

def pkLen (pk : String) : Nat :=
  1 + ((pk.splitOn "+").map fun t => match parseVal t with | some v => packedLen v | none => 0).foldl (· + ·) 0

def valSize : Val → Nat
  | .null => 2
  | .int _ => 9
  | .text b => 5 + b.length
  | .blob b => 5 + b.length

def estSize (c : Chg) : Nat :=
  c.tbl.utf8ByteSize + pkLen c.pk + c.cid.utf8ByteSize + valSize c.val + 56

def cfgOf (st : State) : Cfg := { size := estSize, lim := fun _ => st.limit }

/-! ### printing -/

def fnv (s : String) : UInt64 :=
  s.toUTF8.foldl (fun h b => (h ^^^ b.toUInt64) * 0x100000001b3) 0xcbf29ce484222325

def hex64 (x : UInt64) : String :=
  String.join ((List.range 8).reverse.map fun i => hexOf ((x >>> (8 * i).toUInt64).toNat % 256))

/-- long fields are compared by digest -/
def clip (s : String) : String :=
  if s.length > 3000 then s!"fnv:{hex64 (fnv s)}:{s.length}" else s

/-- `0-3,5,7-8` -/
def showRuns (xs : List Nat) : String :=
  let runs := xs.foldl (fun (acc : List (Nat × Nat)) x =>
    match acc with
    | (a, b) :: t => if x = b + 1 then (a, x) :: t else (x, x) :: (a, b) :: t
    | [] => [(x, x)]) []
  showList (runs.reverse.map fun r => if r.1 = r.2 then toString r.1 else s!"{r.1}-{r.2}")

def showMsg (m : Msg) : String := s!"{m.lo}-{m.hi}/{m.last}:{showRuns (m.changes.map (·.seq))}"

def showMsgs (ms : List Msg) : String := showList (ms.map showMsg) ";"

def showChgMasked (c : Chg) : String :=
  s!"{c.tbl}/{c.pk}/{c.cid}={showVal c.val}@{c.colv}.{c.cl}.{c.site}.*.{c.seq}"

/-- `CrdtFmt.dump` with the version of every clock entry masked: which of several concurrent requests
got which version is up to the scheduler (the versions themselves are compared on every `tx`) -/
def dumpMasked (db : Db) : String :=
  let chs := sortBy keyLt db.changes
  let rowsOf (tbl : String) : List String :=
    match tableCols tbl with
    | none => []
    | some cols =>
      sortBy (fun (a b : String) => a < b) <|
        (db.rows.filter (fun r => r.tbl = tbl ∧ r.cl % 2 = 1)).map fun r =>
          let vals := cols.map fun c => match r.findCell c with | some x => showVal x.val | none => "n"
          s!"{tbl}/{r.pk}:" ++ ",".intercalate vals
  let rows := rowsOf "k" ++ rowsOf "t" ++ rowsOf "u"
  showList (chs.map showChgMasked) ";" ++ " | " ++ showList rows ";"

def showErr : ErrKind → Option String
  | .empty => some "err empty"
  | .constraint => some "err constraint"
  | .badOp => none
  | .injected .syntax => some "err syntax"
  | .injected .params => some "err params"
  | .injected .noTable => some "err no-table"
  | .injected .timeout => some "err timeout"

def showResp : Response → Option String
  | .ack v chs msgs => some s!"ok v={v} bc={clip (showMsgs msgs)} ch={clip (showChgs chs)}"
  | .noop => some "ok none"
  | .err e => showErr e

def showRespMasked : Response → Option String
  | .ack _ chs msgs => some s!"ok bc={clip (showMsgs msgs)} ch={clip (showList (chs.map showChgMasked) ";")}"
  | .noop => some "ok none"
  | .err e => showErr e

/-! ### parsing -/

def parseRStmt (allowSlow : Bool) (s : String) : Option RStmt :=
  if s = "bad" then some (.fail .syntax)
  else if s = "badparam" then some (.fail .params)
  else if s = "missing" then some (.fail .noTable)
  else if s = "slow" then (if allowSlow then some (.fail .timeout) else none)
  else (parseStmt s).map RStmt.sql

def parseReq (allowSlow : Bool) (s : String) : Option Request :=
  if s = "-" then some [] else (s.splitOn ";").mapM (parseRStmt allowSlow)

def bigReq (n base len : Nat) : Request :=
  (List.range n).map fun j =>
    .sql (.ins "t" s!"i{base + j}" [("a", .text (List.replicate len 0x61)), ("b", .int j)])

def step (st : State) (toks : List String) : Option (State × String) :=
  match toks with
  | ["cfg", l] => do
    let l ← l.toNat?
    pure ({ st with limit := l }, s!"limit={l}")
  | ["tx", stmts] => do
    let req ← parseReq false stmts
    let (n', r) := submit (cfgOf st) st.n req
    let o ← showResp r
    pure ({ st with n := n' }, o)
  | ["txt", secs, stmts] => do
    let secs ← secs.toNat?
    if secs = 0 then none else
    let req ← parseReq true stmts
    let (n', r) := submit (cfgOf st) st.n req
    let o ← showResp r
    pure ({ st with n := n' }, o)
  | ["txbig", n, base, len] => do
    let n ← n.toNat?; let base ← base.toNat?; let len ← len.toNat?
    if n = 0 ∨ n > 4000 ∨ len > 2000 then none else
    let (n', r) := submit (cfgOf st) st.n (bigReq n base len)
    let o ← showResp r
    pure ({ st with n := n' }, o)
  | ["conc", k, txs] => do
    let k ← k.toNat?
    let reqs ← (txs.splitOn "|").mapM (parseReq false)
    if reqs.length ≠ k ∨ k = 0 then none else
    let before := st.n.node.db.dbv
    let (n', rs) := run (cfgOf st) st.n reqs
    let outs ← rs.mapM showRespMasked
    let acks := (ackedVersions rs).length
    let block := if acks = 0 then "-" else s!"{before + 1}-{before + acks}"
    pure ({ st with n := n' },
      s!"acks={acks} block={block} results={" & ".intercalate (sortBy (fun (a b : String) => a < b) outs)}")
  | ["rv", peer, stmts] => do
    let p ← peer.toNat?
    if p = 0 ∨ p > 3 then none else
    let ss ← (stmts.splitOn ";").mapM parseStmt
    let pdb : Db := match st.peers.find? (·.site = p) with | some d => d | none => { site := p }
    match localTx pdb ss with
    | .error .constraint => pure (st, "err constraint")
    | .error .badOp => none
    | .ok (_, none) => pure (st, "noop")
    | .ok (d, some (ver, chs)) =>
      let peers := if st.peers.any (·.site = p) then st.peers.map (fun x => if x.site = p then d else x) else st.peers ++ [d]
      let n' := st.n.remote chs
      pure ({ st with n := n', peers := peers },
        s!"ok p={p} v={ver} n={chs.length} last={maxSeq chs} dbv={n'.node.db.dbv} ch={clip (showChgs chs)}")
  | ["state"] =>
    let own := st.n.own
    some (st, s!"need={showRanges own.needed} head={own.max} dbv={st.n.node.db.dbv} announced={showNats (st.n.outbox.map (·.1))} stray=0 dump={clip (dumpMasked st.n.node.db)}")
  | _ => none

end Driver.C07
def main : IO Unit := Driver.runLoop Driver.C07.init Driver.C07.step
