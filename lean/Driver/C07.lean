import Driver.Util
/-! Driver stub for C07: not built yet. -/
namespace Driver.C07
abbrev State := Unit
def init : State := ()
def step (st : State) (_toks : List String) : Option (State × String) := some (st, "bad-op")
end Driver.C07
def main : IO Unit := Driver.runLoop Driver.C07.init Driver.C07.step
