import Driver.Util
/-! Driver stub for C14: not built yet. -/
namespace Driver.C14
abbrev State := Unit
def init : State := ()
def step (st : State) (_toks : List String) : Option (State × String) := some (st, "bad-op")
end Driver.C14
def main : IO Unit := Driver.runLoop Driver.C14.init Driver.C14.step
