import Corro.Model.Updates
import Corro.Model.Crdt
import Driver.Util
/-! Driver for C14: the update feed of table `t` on node A (site 0), a peer database B (site 1).

Ops (harness/src/c14.rs runs the same lines on the real code):
  attach <cap> <keep> <thr>   start the feed (parameters as extracted from the source)
  m <k:cl,…>                  one raw candidate batch through `match_changes` (`!k:cl` = other table)
  w <stmts>                   local transaction + its notification (read right after the commit)
  wc <stmts>                  local transaction, notification held back
  notify <v>                  held notification delivered now, changes READ NOW (`broadcast_changes`)
  notifyc <v>                 held notification delivered now with the changes read AT COMMIT
  wfill <lo> <hi>             `w ins:t:i<n>:a=t66` for n = lo..hi, one transaction each
  pw <stmts>                  transaction on the peer
  r <v,…>                     peer versions applied here in this order (`process_multiple_changes`)
  rc <v> <chunk,…>            chunks (`p<k>of<n>` | `lo-hi` | `all`) of ONE peer version in one
                              `process_multiple_changes` call; a chunk that is not the whole version is
                              buffered; once the version is fully buffered the background loop applies it
                              (`process_fully_buffered_changes`) and notifies from the RE-READ live entries
  force                       `thr` batches of one sentinel candidate → threshold flush; events so far
  drain                       one sentinel batch, then (if still buffering) the deadline; events so far
  rows                        primary keys present in table t of A
  tag <word>                  marker
-/
namespace Driver.C14
open Corro.Crdt
open Corro.Updates (Params Event In Cand)

def hexDigit (c : Char) : Option Nat :=
  if '0' ≤ c ∧ c ≤ '9' then some (c.toNat - '0'.toNat)
  else if 'a' ≤ c ∧ c ≤ 'f' then some (c.toNat - 'a'.toNat + 10) else none

def parseHex : List Char → Option (List Nat)
  | [] => some []
  | [_] => none
  | a :: b :: rest => do
    let x ← hexDigit a; let y ← hexDigit b; let r ← parseHex rest
    pure ((x * 16 + y) :: r)

def parseVal (s : String) : Option Val :=
  match s.toList with
  | ['n'] => some .null
  | 'i' :: rest => (String.ofList rest).toInt?.map Val.int
  | 't' :: rest => (parseHex rest).map Val.text
  | 'b' :: rest => (parseHex rest).map Val.blob
  | _ => none

/-- stored == written: no integers into TEXT-affinity columns, only integers/NULL into `b` -/
def typeOk (c : String) : Val → Bool
  | .null => true
  | .int _ => c == "b"
  | .text _ => c == "a" || c == "x"
  | .blob _ => c == "a" || c == "x"

def parseAssigns (s : String) : Option (List (String × Val)) :=
  (splitList s).mapM fun kv =>
    match kv.splitOn "=" with
    | [c, v] => (parseVal v).bind fun x => if typeOk c x then some (c, x) else none
    | _ => none

def pkOk (tbl pk : String) : Bool :=
  let n := (pk.splitOn "+").length
  ((pk.splitOn "+").all (fun t => (parseVal t).isSome)) &&
  (match tbl with | "u" => n == 2 | "t" => n == 1 | "k" => n == 1 | _ => false)

def parseStmt (s : String) : Option Stmt :=
  match s.splitOn ":" with
  | ["ins", tbl, pk] => if pkOk tbl pk then some (.ins tbl pk []) else none
  | ["ins", tbl, pk, a] => do
      let cols ← tableCols tbl
      let asg ← parseAssigns a
      if pkOk tbl pk ∧ asg.all (fun x => cols.contains x.1) then some (.ins tbl pk asg) else none
  | ["upd", tbl, pk, a] => do
      let cols ← tableCols tbl
      let asg ← parseAssigns a
      if pkOk tbl pk ∧ ¬ asg.isEmpty ∧ asg.all (fun x => cols.contains x.1) then some (.upd tbl pk asg) else none
  | ["del", tbl, pk] => if pkOk tbl pk then some (.del tbl pk) else none
  | _ => none

def insertSorted (x : String) : List String → List String
  | [] => [x]
  | y :: ys => if x < y then x :: y :: ys else y :: insertSorted x ys

def sortStrs (xs : List String) : List String := xs.foldl (fun acc x => insertSorted x acc) []

structure State where
  params  : Option Params := none
  upd     : Corro.Updates.St := {}
  keys    : List String := []                 -- interned primary-key tokens; index = model key
  a       : Db := { site := 0 }
  b       : Db := { site := 1 }
  alog    : List (Nat × List Chg) := []       -- A's versions as read at commit
  pending : List Nat := []
  blog    : List (Nat × List Chg) := []
  applied : List Nat := []                    -- peer versions A's bookkeeping already knows
  buffered : List (Nat × List (Nat × Nat)) := []  -- peer version -> seq ranges held in the buffer
  drains  : Nat := 0
  out     : List Event := []                  -- emitted, not yet reported

def init : State := {}

def internGo (tok : String) : List String → Nat → Option Nat
  | [], _ => none
  | x :: xs, i => if x = tok then some i else internGo tok xs (i + 1)

def State.intern (st : State) (tok : String) : State × Nat :=
  match internGo tok st.keys 0 with
  | some i => (st, i)
  | none => ({ st with keys := st.keys ++ [tok] }, st.keys.length)

def isSentinel (tok : String) : Bool := tok.startsWith "S"

/-- one batch into the feed (nothing happens before `attach`) -/
def State.feed (st : State) (b : List Cand) : State :=
  match st.params with
  | none => st
  | some p =>
    let r := Corro.Updates.step p st.upd (.batch b)
    { st with upd := r.1, out := st.out ++ r.2 }

def State.tick (st : State) : State :=
  match st.params with
  | none => st
  | some p =>
    let r := Corro.Updates.step p st.upd .tick
    { st with upd := r.1, out := st.out ++ r.2 }

def State.toChanges (st : State) (chs : List Chg) : State × List Corro.Updates.Change :=
  chs.foldl (fun (acc : State × List Corro.Updates.Change) c =>
      let (s, i) := acc.1.intern c.pk
      (s, acc.2 ++ [⟨c.tbl == "t", i, c.cl⟩])) (st, [])

/-- what `match_changes` does with one change list -/
def State.notifyChanges (st : State) (chs : List Chg) : State :=
  if chs.isEmpty then st else
  let (st, cs) := st.toChanges chs
  st.feed (Corro.Updates.filterChanges cs)

/-- what `process_fully_buffered_changes` does after the apply: nothing unless a row was impacted,
else `match_changes_from_db_version` over the re-read live entries (a batch is sent even when it
holds no candidate) -/
def State.notifyReread (st : State) (impacted : Bool) (live : List Chg) : State :=
  let (st, cs) := st.toChanges live
  match Corro.Updates.rereadBatch impacted cs with
  | none => st
  | some b => st.feed b

def showEvent (st : State) (e : Event) : String :=
  let tok := st.keys.getD e.key "?"
  tok ++ ":" ++ (match e.kind with | .update => "u" | .delete => "d")

def State.report (st : State) : State × String :=
  let evs := st.out.filter (fun e => !isSentinel (st.keys.getD e.key "?"))
  ({ st with out := [] }, "ev " ++ showList (evs.map (showEvent st)))

def repeatFeed (b : List Cand) : Nat → State → State
  | 0, st => st
  | n + 1, st => repeatFeed b n (st.feed b)

def parseCand (s : String) : Option (Bool × String × Nat) :=
  let (mine, body) := if s.startsWith "!" then (false, (s.drop 1).toString) else (true, s)
  match body.splitOn ":" with
  | [k, cl] => do
    let c ← cl.toNat?
    if (parseVal k).isSome then pure (mine, k, c) else none
  | _ => none

def localWrite (st : State) (ss : List Stmt) (hold : Bool) : State × String :=
  match localTx st.a ss with
  | .error .constraint => (st, "err constraint")
  | .error .badOp => (st, "bad-op")
  | .ok (_, none) => (st, "noop")
  | .ok (d, some (ver, chs)) =>
    let st := { st with a := d, alog := (ver, chs) :: st.alog }
    let st := if hold then { st with pending := st.pending ++ [ver] } else st.notifyChanges chs
    (st, s!"ok v={ver}")

def fillGo (st : State) : Nat → Nat → State
  | _, 0 => st
  | n, fuel + 1 =>
    let (st, _) := localWrite st [.ins "t" s!"i{n}" [("a", .text [0x66])]] false
    fillGo st (n + 1) fuel

/-- `process_complete_version` for one peer version: a change is kept as "impactful" when it moved
`crsql_rows_impacted()`, whose baseline is read at the top of every changeset (repo commit 80d703f;
before it the baseline restarted at 0 per changeset although the counter runs per transaction, and
the first change of a later changeset of a batch was kept even when it lost the merge — the pinned
regression case `corpus/C14/remote_batch_spurious_candidate.ops`). -/
def applyVersion (a : Db) (chs : List Chg) : Db × List Chg :=
  chs.foldl (fun (acc : Db × List Chg) c =>
    let a' := merge acc.1 c
    if a'.rows != acc.1.rows then (a', acc.2 ++ [c]) else (a', acc.2)) (a, [])

/-- chunk spec → seq range of `0..=last`: `all`, `p<k>of<n>` (k-th of n contiguous pieces), `lo-hi`.
Outer `none` = malformed, inner `none` = empty piece / outside the version. -/
def chunkSpec (spec : String) (last : Nat) : Option (Option (Nat × Nat)) :=
  if spec = "all" then some (some (0, last)) else
  if spec.startsWith "p" then
    match ((spec.drop 1).toString).splitOn "of" with
    | [k, n] => do
      let k ← k.toNat?; let n ← n.toNat?
      if n = 0 ∨ k ≥ n then pure none else
      let lo := k * (last + 1) / n
      let hi1 := (k + 1) * (last + 1) / n
      if hi1 ≤ lo then pure none else pure (some (lo, hi1 - 1))
    | _ => none
  else
    match range? spec with
    | some (lo, hi) => if lo ≤ hi ∧ hi ≤ last then some (some (lo, hi)) else some none
    | none => none

def covered (rs : List (Nat × Nat)) (last : Nat) : Bool :=
  (List.range (last + 1)).all fun s => rs.any fun r => r.1 ≤ s && s ≤ r.2

def State.bufOf (st : State) (v : Nat) : List (Nat × Nat) :=
  match st.buffered.find? (·.1 = v) with | some (_, rs) => rs | none => []

def State.setBuf (st : State) (v : Nat) (rs : List (Nat × Nat)) : State :=
  { st with buffered := (v, rs) :: st.buffered.filter (·.1 ≠ v) }

def step (st : State) (toks : List String) : Option (State × String) :=
  match toks with
  | ["attach", c, k, t] => do
    let c ← c.toNat?; let k ← k.toNat?; let t ← t.toNat?
    if st.params.isSome then pure (st, "err attached") else
    pure ({ st with params := some ⟨c, k, t⟩ }, "ok")
  | ["tag", _] => pure (st, "ok")
  | ["m", cands] => do
    let cs ← (splitList cands).mapM parseCand
    if cs.isEmpty then none else
    let (st, chs) := cs.foldl (fun (acc : State × List Corro.Updates.Change) c =>
      let (s, i) := acc.1.intern c.2.1
      (s, acc.2 ++ [⟨c.1, i, c.2.2⟩])) (st, [])
    pure (st.feed (Corro.Updates.filterChanges chs), "ok")
  | ["w", stmts] => do
    let ss ← (stmts.splitOn ";").mapM parseStmt
    let (st, o) := localWrite st ss false
    if o = "bad-op" then none else pure (st, o)
  | ["wc", stmts] => do
    let ss ← (stmts.splitOn ";").mapM parseStmt
    let (st, o) := localWrite st ss true
    if o = "bad-op" then none else pure (st, o)
  | ["wfill", lo, hi] => do
    let lo ← lo.toNat?; let hi ← hi.toNat?
    if hi < lo ∨ hi - lo ≥ 5000 then none else
    pure (fillGo st lo (hi - lo + 1), "ok")
  | ["notify", v] => do
    let v ← v.toNat?
    if ¬ st.pending.contains v then pure (st, "err no-such-pending") else
    let chs := sortBySeq (st.a.changesOf 0 v 0 1000000000)
    pure ({ st with pending := st.pending.filter (· ≠ v) }.notifyChanges chs, "ok")
  | ["notifyc", v] => do
    let v ← v.toNat?
    if ¬ st.pending.contains v then pure (st, "err no-such-pending") else
    match st.alog.find? (·.1 = v) with
    | none => pure (st, "err no-such-pending")
    | some (_, chs) => pure ({ st with pending := st.pending.filter (· ≠ v) }.notifyChanges chs, "ok")
  | ["pw", stmts] => do
    let ss ← (stmts.splitOn ";").mapM parseStmt
    match localTx st.b ss with
    | .error .constraint => pure (st, "err constraint")
    | .error .badOp => none
    | .ok (_, none) => pure (st, "noop")
    | .ok (d, some (ver, chs)) => pure ({ st with b := d, blog := (ver, chs) :: st.blog }, s!"ok v={ver}")
  | ["r", vs] => do
    let vs ← natList? vs
    if vs.isEmpty then none else
    if vs.any (fun v => (st.blog.find? (·.1 = v)).isNone) then pure (st, "err no-such-version") else
    -- all versions are merged in one transaction, then notified in order
    let (st, notes) := vs.foldl (fun (acc : State × List (List Chg)) v =>
      let (st, notes) := acc
      if st.applied.contains v then acc else
      match st.blog.find? (·.1 = v) with
      | none => acc
      | some (_, chs) =>
        let (a', kept) := applyVersion st.a chs
        ({ st with a := a', applied := v :: st.applied, buffered := st.buffered.filter (·.1 ≠ v) }, notes ++ [kept])) (st, [])
    pure (notes.foldl (fun s kept => s.notifyChanges kept) st, "ok")
  | ["rc", v, specs] => do
    let v ← v.toNat?
    match st.blog.find? (·.1 = v) with
    | none => pure (st, "err no-such-version")
    | some (_, chs) =>
      let last := chs.foldl (fun m c => max m c.seq) 0
      let specs := splitList specs
      if specs.isEmpty then none else
      let parsed ← specs.mapM (fun sp => chunkSpec sp last)
      match parsed.mapM id with
      | none => pure (st, "err empty-chunk")
      | some pieces =>
        -- the pieces in order, inside one transaction
        let (st, notes) := pieces.foldl (fun (acc : State × List (List Chg)) pc =>
          let (st, notes) := acc
          if st.applied.contains v then acc else
          if covered (st.bufOf v) last then acc else      -- already fully buffered: contained, skipped
          if pc.1 = 0 ∧ pc.2 = last then
            let (a', kept) := applyVersion st.a chs
            ({ st with a := a', applied := v :: st.applied, buffered := st.buffered.filter (·.1 ≠ v) }, notes ++ [kept])
          else (st.setBuf v (pc :: st.bufOf v), notes)) (st, [])
        let st := notes.foldl (fun s kept => s.notifyChanges kept) st
        -- fully buffered now: the background loop applies the buffered copy and re-reads
        if ¬ st.applied.contains v ∧ covered (st.bufOf v) last then
          let a' := mergeAll st.a (sortBySeq chs)
          let impacted := (sortBySeq chs).foldl (fun (acc : Db × Bool) c =>
              let n := merge acc.1 c
              (n, acc.2 || n.rows != acc.1.rows)) (st.a, false)
          let live := sortBySeq (a'.changesOf 1 v 0 1000000000)
          let st := { st with a := a', applied := v :: st.applied, buffered := st.buffered.filter (·.1 ≠ v) }
          pure (st.notifyReread impacted.2 live, "ok applied")
        else
          pure (st, if st.applied.contains v then "ok applied" else "ok buffered")
  | ["force"] => do
    let p ← st.params
    let tok := s!"S{st.drains}"
    let (st, i) := st.intern tok
    let st := repeatFeed [(i, 1)] p.thr { st with drains := st.drains + 1 }
    pure st.report
  | ["drain"] => do
    let _ ← st.params
    let tok := s!"S{st.drains}"
    let (st, i) := st.intern tok
    let st := ({ st with drains := st.drains + 1 }.feed [(i, 1)]).tick
    pure st.report
  | ["rows"] =>
    let ks := (st.a.rows.filter (fun r => r.tbl = "t" ∧ r.cl % 2 = 1)).map (·.pk)
    pure (st, "rows " ++ showList (sortStrs ks))
  | _ => none

end Driver.C14
def main : IO Unit := Driver.runLoop Driver.C14.init Driver.C14.step
