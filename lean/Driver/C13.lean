import Corro.Model.SubLife
import Driver.Util
/-! Line-protocol driver for C13: the op lines of `harness/src/c13.rs` translated into sequences of
model operations of `Corro.SubLife` (what the harness does and waits for at each op). -/
namespace Driver.C13
open Corro.SubLife

/-- the harness's own flags next to the model state -/
structure Node where
  s        : S
  /-- the case follows a subscription directory (set by `sub` / `plant`, never cleared) -/
  tracked  : Bool
  planted  : Bool
  /-- `drop_handles()` has been called in this incarnation -/
  wound    : Bool
  /-- the read pool is held: match steps are deferred -/
  holding  : Bool
  /-- the initial query is known to have finished (`sub` without `nowait`, `sync`, restore) -/
  eoq      : Bool

structure State where
  n        : Node
  images   : List (String × Node)
  /-- a `kill` line has been seen (only the first one is interpreted) -/
  killSeen : Bool
  /-- the node was killed somewhere inside its stop sequence (the model does not say where):
      1 = dead, 2 = restarted: only `restart live` and then `check` answer; 3 = the kill did not apply, dead end -/
  racy     : Nat

def init : State :=
  { n := { s := Corro.SubLife.init, tracked := false, planted := false, wound := false, holding := false, eoq := false },
    images := [], killSeen := false, racy := 0 }

def keyDomain : Nat := 32

def showStatus : Option Status → String
  | none => "nometa"
  | some .created => "created"
  | some .running => "running"
  | some .cancelled => "cancelled"
  | some .completed => "completed"

def showState (s : S) : String := if s.dir then showStatus s.state else "nodir"

def rowsOk (s : S) : Bool := (List.range keyDomain).all (fun k => s.rows k == s.db k)

/-- `<pk>=<v|x>,...` -/
def parseTx (spec : String) : Option Tx :=
  (spec.splitOn ",").mapM fun kv =>
    match kv.splitOn "=" with
    | [k, v] => do
      let k ← k.toNat?
      if k ≥ keyDomain then none else
      if v = "x" then pure (k, none) else do
        let v ← v.toNat?
        pure (k, some v)
    | _ => none

/-- the statements the harness really issues: those that change the row, judged in order -/
def effective (db : Tbl) : Tx → Tx
  | [] => []
  | (k, v) :: r => if db k = v then effective db r else (k, v) :: effective (db.set k v) r

def runN (n : Node) (ops : List Op) : Node := { n with s := run n.s ops }

def syncable (n : Node) : Bool := n.s.up && n.s.reg && !n.s.tripped && !n.holding && n.eoq

/-- wait until the matcher is quiescent -/
def quiesce (n : Node) : Node := { runN n [.initialDone, .process] with eoq := true }

def validTag (t : String) : Bool := t ≠ "live" && !t.isEmpty && t.toList.all Char.isAlphanum

def doWind (n : Node) : Node × String :=
  let n' := { runN n [.unreg false, .dropClone, .initialDone, .ack, .drainEnd] with wound := true }
  (n', if n'.tracked && !n'.planted then s!"ok state={showState n'.s}" else "ok")

def doExit (n : Node) : Node :=
  let n1 := if n.holding then { runN n [.matchHeld] with holding := false } else n
  runN n1 [.stop]

def restarted (n : Node) : Node × String :=
  let n' := { runN n [.restart] with wound := false, holding := false, eoq := true }
  (n', if n'.tracked then (if n'.s.reg then "ok restored" else "ok removed") else "ok")

def observe (n : Node) : Option (Node × String) :=
  if n.s.up && n.tracked && !n.s.tripped && (!n.s.served || n.eoq) then
    let n' := if syncable n && !n.s.pending.isEmpty then quiesce n else n
    if n'.s.served then
      some (n', s!"found state={showState n'.s} rows={if rowsOk n'.s then "ok" else "STALE"} last={n'.s.lastId}")
    else some (n', s!"404 dir={if n'.s.dir then "present" else "gone"}")
  else none

def doWrite (n : Node) (spec : String) (andSync : Bool) : Option (Node × String) := do
  let tx ← parseTx spec
  if !n.s.up then none else
  let eff := effective n.s.db tx
  if eff.isEmpty then pure (n, "noop") else
  let n1 := if n.holding then runN n [.writeHeld eff] else runN n [.write eff]
  let n2 := if andSync && syncable n1 then quiesce n1 else n1
  pure (n2, "ok")

def stepNormal (st : State) (toks : List String) : Option (State × String) :=
  let n := st.n
  let ret (r : Node × String) : Option (State × String) := some ({ st with n := r.1 }, r.2)
  match toks with
  | ["tag", name] =>
    if name.toList.all (fun c => c.isAlphanum || c = '-') then ret (n, "ok") else none
  | ["fill", k] => do
    let k ← k.toNat?
    if n.s.up && !n.tracked && k > 0 && k ≤ 20000 then ret (n, "ok") else none
  | ["sub", q] =>
    if (q = "all" || q = "slow") && n.s.up && !n.s.tripped && !n.s.dir then
      ret ({ runN n [.mkdir, .create, .initialDone] with tracked := true, planted := false, eoq := true }, "ok new")
    else none
  | ["sub", q, "nowait"] =>
    if (q = "all" || q = "slow") && n.s.up && !n.s.tripped && !n.s.dir then
      ret ({ runN n [.mkdir, .create] with tracked := true, planted := false, eoq := false }, "ok new")
    else none
  | ["w", spec] => (doWrite n spec true).bind ret
  | ["wp", spec] => (doWrite n spec false).bind ret
  | ["hold"] => if n.s.up && !n.holding then ret ({ n with holding := true }, "ok") else none
  | ["release"] =>
    if n.s.up && n.holding then ret ({ runN n [.matchHeld] with holding := false }, "ok") else none
  | ["sync"] =>
    if n.s.up && n.s.reg && !n.s.tripped && !n.holding then
      let n' := quiesce n
      ret (n', s!"ok last={n'.s.lastId}")
    else none
  | ["trip"] =>
    -- (the matcher, if it is in its loop, notices the tripwire: the harness waits for that)
    if n.s.up && !n.s.tripped then ret (runN n [.trip, .ack], "ok") else none
  | ["wind"] => if n.s.up && n.s.tripped && !n.wound then ret (doWind n) else none
  | ["exit"] => if n.s.up && n.wound then ret (doExit n, "ok") else none
  | ["graceful"] =>
    if n.s.up && !n.s.tripped then
      let (n1, out) := doWind (runN n [.trip, .ack])
      ret (doExit n1, out)
    else none
  | ["graceful", "fast"] =>
    -- `drop_handles()` may reach the matcher before it has looked at the tripwire
    if n.s.up && !n.s.tripped then
      let (n1, out) := doWind (runN n [.trip])
      ret (doExit n1, out)
    else none
  | ["unsub"] =>
    if n.s.up && n.s.reg && !n.s.tripped then
      let n' := runN n [.unreg false, .initialDone, .ack, .drainEnd]
      ret (n', s!"ok state={showState n'.s}")
    else none
  | ["unsub", "hold"] =>
    if n.s.up && n.s.reg && !n.s.tripped then
      let n' := runN n [.unreg true, .initialDone, .ack]
      ret (n', s!"ok state={showState n'.s}")
    else none
  | ["drophold"] =>
    if n.s.up && n.s.clone then
      let n' := runN n [.dropClone, .drainEnd]
      ret (n', s!"ok state={showState n'.s}")
    else none
  | ["plant"] =>
    if n.s.up && !n.tracked then ret ({ runN n [.mkdir] with tracked := true, planted := true }, "ok") else none
  | ["snapshot", tag] =>
    if validTag tag && !(st.images.any (·.1 = tag)) then
      some ({ st with images := (tag, runN n [.stop]) :: st.images }, "ok")
    else none
  | ["restart", tag] =>
    if tag = "live" then
      if !n.s.up then ret (restarted n) else none
    else
      match st.images.find? (·.1 = tag) with
      | some (_, img) =>
        let (n', out) := restarted img
        some ({ st with n := n', images := st.images.filter (·.1 ≠ tag) }, out)
      | none => none
  | ["subinfo"] => (observe n).bind ret
  | ["check"] => (observe n).bind fun r => ret (r.1, "ok")
  | _ => none

/-- thorough tier: the node is a child process that is SIGKILLed.  `idle` / `busy`: a stop right
here (`busy` writes keys outside the model's key space meanwhile); `wind`: somewhere inside the stop
sequence. -/
def step (st : State) (toks : List String) : Option (State × String) :=
  match toks with
  | "kill" :: rest =>
    if st.killSeen || st.racy ≠ 0 then none else
    let st := { st with killSeen := true }
    match rest with
    | [m, k] =>
      match k.toNat? with
      | some k =>
        if k > 100000 || !(m = "idle" || m = "busy" || m = "wind") then some (st, "bad-op") else
        -- (the images taken so far lived in the killed process's scratch space: forgotten)
        let st := { st with images := [] }
        if m = "wind" then
          if st.n.s.up && !st.n.wound then some ({ st with racy := 1 }, "ok")
          else some ({ st with racy := 3 }, "bad-op")
        else
          if st.n.s.up then some ({ st with n := runN st.n [.stop] }, "ok")
          else some ({ st with racy := 3 }, "bad-op")
      | none => some (st, "bad-op")
    | _ => some (st, "bad-op")
  | _ =>
    if st.racy = 1 then
      if toks = ["restart", "live"] then some ({ st with racy := 2, n := { st.n with eoq := true } }, "ok") else none
    else if st.racy = 2 then
      if toks = ["check"] && st.n.tracked && st.killSeen && st.n.eoq && st.n.s.up then some (st, "ok") else none
    else if st.racy = 3 then none
    else stepNormal st toks

end Driver.C13
def main : IO Unit := Driver.runLoop Driver.C13.init Driver.C13.step
