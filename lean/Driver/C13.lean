import Driver.Util
/-! Driver stub for C13: not built yet. -/
namespace Driver.C13
abbrev State := Unit
def init : State := ()
def step (st : State) (_toks : List String) : Option (State × String) := some (st, "bad-op")
end Driver.C13
def main : IO Unit := Driver.runLoop Driver.C13.init Driver.C13.step
