import Driver.Util
/-! Driver stub for C10: not built yet. -/
namespace Driver.C10
abbrev State := Unit
def init : State := ()
def step (st : State) (_toks : List String) : Option (State × String) := some (st, "bad-op")
end Driver.C10
def main : IO Unit := Driver.runLoop Driver.C10.init Driver.C10.step
