import Corro.Model.Crdt
import Corro.Model.Node
import Corro.Model.Ingest
import Corro.Gen.IngestCode
import Driver.Util
import Driver.CrdtFmt
import Driver.ClusterOps
/-! Driver for C10: origin databases (`cw`), the node under test behind the ingest loop model.
Op language: see harness/src/c10.rs. -/
namespace Driver.C10
open Corro Corro.Crdt Corro.Node Corro.Ingest Driver Driver.CrdtFmt

def nutId : Nat := 3

structure Offered where
  text : String
  item : Item

structure State where
  dbs : List Db := []
  /-- item parsing is shared with the cluster ops: only `log` of this state is used -/
  cl : Driver.ClusterOps.CState := {}
  params : Option Params := none
  ing : Ingest.State := Ingest.State.init (Node.fresh nutId)
  isHeld : Bool := false
  locked : Bool := false
  offered : List Offered := []

def init : State := {}

def State.db (st : State) (i : Nat) : Db :=
  match st.dbs.find? (·.site = i) with | some d => d | none => { site := i }

def State.setDb (st : State) (d : Db) : State :=
  if st.dbs.any (·.site = d.site) then { st with dbs := st.dbs.map (fun x => if x.site = d.site then d else x) }
  else { st with dbs := st.dbs ++ [d] }

/-- `Err` carries the canonical answer (`bad-op` → the op is rejected) -/
def parseItem (st : State) (s : String) : Except String Item :=
  match Driver.ClusterOps.parseItem st.cl s with
  | .error e => .error e
  | .ok it =>
    match it with
    | .full _ _ lo hi _ _ => if lo ≤ hi ∨ !s.startsWith "o" then .ok it else .error "err bad-chunk"
    | .empty .. => .ok it

def isHeldItem (st : State) (it : Item) : Bool := Ingest.held st.ing.node it

/-- `hold`: the connection is taken and the burst starts right after a tick -/
def doHold (p : Params) (st : State) : State :=
  { st with isHeld := true, ing := Ingest.step p st.ing .tick }

/-- `(state, drop, spawn, rb)` -/
def doOffer (p : Params) (st : State) (text : String) (it : Item) (bcast : Bool) : State × String :=
  let s := st.ing
  let acc := Ingest.accepts s it
  let s' := Ingest.step p s (.offer it bcast)
  let drop := s'.droppedItems.length - s.droppedItems.length
  let spawn := s'.inflight.length - s.inflight.length
  let rb := if acc && bcast && !it.isEmpty then 1 else 0
  let offered := if it.site ≠ nutId ∧ !(Ingest.inverted it) ∧ !(st.offered.any (·.text = text)) then st.offered ++ [⟨text, it⟩] else st.offered
  ({ st with ing := s', offered := offered }, s!"ok drop={drop} spawn={spawn} rb={rb}")

/-- `release`: every running and queued batch finishes (`Err` while the database is locked by the
second connection), observed at a tick -/
def doRelease (p : Params) (st : State) : State :=
  let s1 := Ingest.drain p (!st.locked) st.ing
  { st with isHeld := false, ing := Ingest.step p s1 .tick }

def chunksOf {α : Type} (n : Nat) : Nat → List α → List (List α)
  | 0, _ => []
  | _, [] => []
  | fuel + 1, xs => xs.take n :: chunksOf n fuel (xs.drop n)

def reofferRound (p : Params) (st : State) (todo : List Offered) : State :=
  let group := Nat.max p.maxQueueLen 1
  (chunksOf group (todo.length + 1) todo).foldl (fun st g =>
    let st1 := doHold p st
    let st2 := g.foldl (fun st o => (doOffer p st o.text o.item false).1) st1
    doRelease p st2) st

def reoffer (p : Params) : Nat → Nat → State → State × Nat
  | 0, done, st => (st, done)
  | r + 1, done, st =>
    let todo := st.offered.filter (fun o => !isHeldItem st o.item)
    if todo.isEmpty then (st, done) else reoffer p r (done + 1) (reofferRound p st todo)

/-- the parameters and the eviction rule the code has (regenerated from the source on every run) -/
def codeParams (q c : Nat) : Params :=
  ⟨q, c, Corro.Gen.IngestCode.maxConcurrent, keepSeenOf q, Corro.Gen.IngestCode.evictDropped,
   Corro.Gen.IngestCode.clearOnFail⟩

def showDump (n : Node) : String := s!"{dump n.db} | {Driver.ClusterOps.showBook n}"

def step (st : State) (toks : List String) : Option (State × String) :=
  match toks with
  | ["tag", _] => some (st, "ok")
  | ["cw", db, stmts] => do
    let i ← db.toNat?.filter (· < 3)
    let ss ← (stmts.splitOn ";").mapM parseStmt
    match localTx (st.db i) ss with
    | .error .constraint => pure (st, "err constraint")
    | .error .badOp => none
    | .ok (_, none) => pure (st, "noop")
    | .ok (d, some (ver, chs)) =>
      let last := chs.foldl (fun m c => Nat.max m c.seq) 0
      pure ({ st.setDb d with cl := { st.cl with log := ((i, ver), (chs, last)) :: st.cl.log } }, s!"ok v={ver} {showChgs chs}")
  | "cfg" :: q :: chunk :: rest => do
    let tickOk ← match rest with
      | [] => some true
      | [t] => (t.toNat?.filter (fun t => 10 ≤ t ∧ t ≤ 5000)).map (fun _ => true)
      | _ => none
    let q ← q.toNat?.filter (fun x => 1 ≤ x ∧ x ≤ 100000)
    let c ← chunk.toNat?.filter (fun x => 1 ≤ x ∧ x ≤ 100000)
    if !tickOk then none else
    if st.params.isSome then pure (st, "err configured") else
    let p := codeParams q c
    -- the interval's first tick fires at once
    pure ({ st with params := some p, ing := Ingest.step p st.ing .tick }, "ok")
  | ["hold"] =>
    match st.params with
    | none => some (st, "err no-node")
    | some p => if st.isHeld then some (st, "err held") else some (doHold p st, "ok")
  | ["release"] =>
    match st.params with
    | none => some (st, "err no-node")
    | some p => if !st.isHeld then some (st, "err not-held") else some (doRelease p st, "ok")
  | ["tickwait"] =>
    match st.params with
    | none => some (st, "err no-node")
    | some p =>
      let s := st.ing
      some ({ st with ing := Ingest.step p s .tick }, s!"ok q={s.queue.length} cost={s.bufCost} jobs={s.inflight.length}")
  | ["lock"] =>
    match st.params with
    | none => some (st, "err no-node")
    | some _ => if st.locked then some (st, "err locked") else some ({ st with locked := true }, "ok")
  | ["unlock"] =>
    match st.params with
    | none => some (st, "err no-node")
    | some _ => if !st.locked then some (st, "err not-locked") else some ({ st with locked := false }, "ok")
  | ["offer", item, src] =>
    if src ≠ "b" ∧ src ≠ "s" then none else
    match parseItem st item with
    | .error e => if e = "bad-op" then none else some (st, e)
    | .ok it =>
      match st.params with
      | none => some (st, "err no-node")
      | some p => if !st.isHeld then some (st, "err not-held") else some (doOffer p st item it (src == "b"))
  | ["held", site, vs, seqs] => do
    let a ← site.toNat?.filter (· < 4)
    let (vlo, vhi) ← range? vs
    let sq ← if seqs = "-" then some none else (range? seqs).map some
    if vlo = 0 ∨ vlo > vhi then none else
    if (match sq with | some (a, b) => decide (a > b) | none => false) then none else
    match st.params with
    | none => pure (st, "err no-node")
    | some _ => pure (st, if (st.ing.node.booked a).containsAll vlo vhi sq then "yes" else "no")
  | ["retire", item] =>
    match parseItem st item with
    | .error _ => none
    | .ok _ => some ({ st with offered := st.offered.filter (·.text ≠ item) }, "ok")
  | ["reoffer", r] => do
    let r ← r.toNat?.filter (fun r => 1 ≤ r ∧ r ≤ 5)
    match st.params with
    | none => pure (st, "err no-node")
    | some p =>
      if st.isHeld then pure (st, "err held") else
      if st.locked then pure (st, "err locked") else
      let (st', done) := reoffer p r 0 st
      let left := (st'.offered.filter (fun o => !isHeldItem st' o.item)).map (·.text)
      pure (st', s!"ok rounds={done} left={showList left}")
  | ["dump"] =>
    match st.params with
    | none => some (st, "err no-node")
    | some _ => if st.isHeld then some (st, "err held") else some (st, showDump st.ing.node)
  | _ => none

end Driver.C10
def main : IO Unit := Driver.runLoop Driver.C10.init Driver.C10.step
