import Corro.Model.ClusterGate
import Driver.Util
/-!
Line-protocol driver for C16 (model side).  Ops (one scenario per case):

  bcast <sender|absent> <receiver>        → `applied` | `dropped`
  sync <client|absent> <server>           → `first=<state|rejection:different-cluster> changesets=<yes|no> psync=<synced|rejected|->`
                                            (one changeset is requested; `psync` is the real client
                                            `parallel_sync` of a node of cluster <client>, `-` for `absent`)
  candidates <mine> <members>             → `chosen <ids>`     (all sync candidates)
  targets <mine> <local|relay> <members>  → `ring0=<ids> sent=<ids>`
  switch <old> <new> <local|relay|sync> <members>
                                          → `before <r> after <r>`: the node runs with id <old>, decides once,
                                            then `set-id <new>` at run time on the SAME table, decides again;
                                            <r> = `ring0=<ids> sent=<ids>` (local|relay) or `chosen=<ids>` (sync)
  reconf <A> <B> <declared|absent>        → `stale-conn=<applied|dropped> fresh-conn=<applied|dropped>`:
                                            a receiver with id <A> accepts a connection, its id is set to <B>;
                                            a payload on the old connection is judged with the id captured at
                                            accept time, one on a new connection with <B>

members: announcements `id:cluster:ring[:ts[:addr]]` joined by `,` (`-` = empty table), applied in list
order; id = 0..11 or `s` (the node itself); cluster ≤ 65535 (u16 in the code); ring = `-` | 0..5;
ts = 1..9 (default 1); addr = 0..11 (default: the id; not allowed for `s`).  The same id may be announced
several times: the table holds the FINAL identity of each actor — a strictly newer ts replaces address and
cluster, an older or equal one is ignored (`Members::add_member`, the rule C18 is about); the ring is the
one of the winning announcement.  An address belongs to one actor only (`bad-op` otherwise).  Printed sets
are addresses (= ids unless an announcement moved the member).
-/
namespace Driver.C16
open Corro.ClusterGate

def selfId : Nat := 1000000
def maxCandidates : Nat := 6
def maxTargets : Nat := 8

def cluster? (s : String) : Option Nat := do
  let n ← s.toNat?
  if n ≤ 65535 then some n else none

def declared? (s : String) : Option (Option Nat) :=
  if s = "absent" then some none else (cluster? s).map some

def member? (s : String) : Option (Member × Nat) := do
  let parts := s.splitOn ":"
  let (i, c, r, rest) ← match parts with
    | i :: c :: r :: rest => some (i, c, r, rest)
    | _ => none
  let id ← if i = "s" then some selfId else (i.toNat?).bind (fun n => if n ≤ 11 then some n else none)
  let c ← cluster? c
  let ring ← if r = "-" then some none else (r.toNat?).bind (fun n => if n ≤ 5 then some (some n) else none)
  let ts? (t : String) : Option Nat := (t.toNat?).bind (fun n => if 1 ≤ n ∧ n ≤ 9 then some n else none)
  match rest with
  | [] => pure (⟨id, id, c, ring⟩, 1)
  | [t] => do let ts ← ts? t; pure (⟨id, id, c, ring⟩, ts)
  | [t, a] => do
    let ts ← ts? t
    let addr ← (a.toNat?).bind (fun n => if n ≤ 11 then some n else none)
    if id = selfId then none else pure (⟨id, addr, c, ring⟩, ts)
  | _ => none

/-- an address is used by one actor only -/
def addrsOwned : List Member → Bool
  | [] => true
  | x :: r => r.all (fun y => y.actor == x.actor || y.addr != x.addr) && addrsOwned r

/-- `Members::add_member` as far as this property needs it: first announcement inserts, a strictly newer
ts replaces the identity, anything else is ignored. -/
def upsert (acc : List (Member × Nat)) (m : Member) (ts : Nat) : List (Member × Nat) :=
  match acc with
  | [] => [(m, ts)]
  | (x, xts) :: r =>
    if x.actor = m.actor then (if ts > xts then (m, ts) :: r else (x, xts) :: r)
    else (x, xts) :: upsert r m ts

def members? (s : String) : Option (List Member) := do
  let anns ← (splitList s).mapM member?
  if addrsOwned (anns.map (·.1)) then
    some ((anns.foldl (fun acc a => upsert acc a.1 a.2) []).map (·.1))
  else none

def insertSorted (x : Nat) : List Nat → List Nat
  | [] => [x]
  | y :: r => if x < y then x :: y :: r else if x = y then y :: r else y :: insertSorted x r

def sortDedup (xs : List Nat) : List Nat := xs.foldl (fun acc x => insertSorted x acc) []

def showIds (xs : List Nat) : String :=
  showList ((sortDedup xs).map (fun n => if n = selfId then "s" else toString n))

def eligible (mine : Nat) (ms : List Member) : Nat :=
  (ms.filter (fun m => m.cluster == mine && m.actor != selfId)).length

def run (toks : List String) : Option String :=
  match toks with
  | ["bcast", s, r] => do
    let s ← declared? s
    let r ← cluster? r
    pure (if acceptBroadcast r s then "applied" else "dropped")
  | ["sync", c, s] => do
    let c ← declared? c
    let s ← cluster? s
    let resp := serveSync s c true 1
    let first := match firstIsRejection resp with
      | some Rejection.differentCluster => "rejection:different-cluster"
      | some Rejection.maxConcurrencyReached => "rejection:max-concurrency"
      | none => match resp with
        | Msg.state :: _ => "state"
        | _ => "other"
    let cs := if changesetCount resp > 0 then "yes" else "no"
    let ps := match c with
      | none => "-"
      | some cid => if clientSync cid s true 1 > 0 then "synced" else "rejected"
    pure s!"first={first} changesets={cs} psync={ps}"
  | ["candidates", mine, ms] => do
    let mine ← cluster? mine
    let ms ← members? ms
    if eligible mine ms > maxCandidates then pure "err too-many-eligible" else
    pure ("chosen " ++ showIds ((syncCandidates selfId mine ms).map (·.addr)))
  | ["targets", mine, mode, ms] => do
    let mine ← cluster? mine
    let isLocal ← if mode = "local" then some true else if mode = "relay" then some false else none
    let ms ← members? ms
    if eligible mine ms > maxTargets then pure "err too-many-eligible" else
    let r0 := ring0Targets mine ms
    -- a local broadcast goes to ring 0 at once; the pending copy is sent in a later turn of the loop,
    -- where the `ring0` set of that turn is empty again
    let sent := if isLocal then r0 ++ broadcastTargets selfId mine true [] [] ms
                else broadcastTargets selfId mine false [] [] ms
    pure s!"ring0={showIds r0} sent={showIds sent}"
  | ["switch", old, new, mode, ms] => do
    let old ← cluster? old
    let new ← cluster? new
    let ms ← members? ms
    let n0 : Node := ⟨selfId, old⟩
    let n1 := n0.setCluster new
    if mode = "sync" then
      if eligible old ms > maxCandidates || eligible new ms > maxCandidates then pure "err too-many-eligible" else
      let f (n : Node) := "chosen=" ++ showIds ((n.candidates ms).map (·.addr))
      pure s!"before {f n0} after {f n1}"
    else
      let isLocal ← if mode = "local" then some true else if mode = "relay" then some false else none
      if eligible old ms > maxTargets || eligible new ms > maxTargets then pure "err too-many-eligible" else
      let f (n : Node) :=
        let r0 := n.ring0 ms
        let sent := if isLocal then r0 ++ n.targets true [] [] ms else n.targets false [] [] ms
        s!"ring0={showIds r0} sent={showIds sent}"
      pure s!"before {f n0} after {f n1}"
  | ["reconf", a, b, d] => do
    let a ← cluster? a
    let b ← cluster? b
    let d ← declared? d
    let n0 : Node := ⟨selfId, a⟩
    let conn := n0.accept
    let n1 := n0.setCluster b
    let sh (x : Bool) := if x then "applied" else "dropped"
    pure s!"stale-conn={sh (acceptOnConn conn d)} fresh-conn={sh (acceptOnConn n1.accept d)}"
  | _ => none

abbrev State := Unit
def init : State := ()
def step (st : State) (toks : List String) : Option (State × String) := (run toks).map (st, ·)

end Driver.C16
def main : IO Unit := Driver.runLoop Driver.C16.init Driver.C16.step
