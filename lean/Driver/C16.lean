import Driver.Util
/-! Driver stub for C16: not built yet. -/
namespace Driver.C16
abbrev State := Unit
def init : State := ()
def step (st : State) (_toks : List String) : Option (State × String) := some (st, "bad-op")
end Driver.C16
def main : IO Unit := Driver.runLoop Driver.C16.init Driver.C16.step
