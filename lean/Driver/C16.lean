import Corro.Model.ClusterGate
import Driver.Util
/-!
Line-protocol driver for C16 (model side).  Ops (one scenario per case):

  bcast <sender|absent> <receiver>        → `applied` | `dropped`
  sync <client|absent> <server>           → `first=<state|rejection:different-cluster> changesets=<yes|no> psync=<synced|rejected|->`
                                            (one changeset is requested; `psync` is the real client
                                            `parallel_sync` of a node of cluster <client>, `-` for `absent`)
  candidates <mine> <members>             → `chosen <ids>`     (all sync candidates)
  targets <mine> <local|relay> <members>  → `ring0=<ids> sent=<ids>`

members: `id:cluster:ring` joined by `,` (`-` = empty table); id = 0..11 or `s` (the node itself);
cluster ≤ 65535 (u16 in the code); ring = `-` | 0..5.  An address is identified with its member id.
-/
namespace Driver.C16
open Corro.ClusterGate

def selfId : Nat := 1000000
def maxCandidates : Nat := 6
def maxTargets : Nat := 8

def cluster? (s : String) : Option Nat := do
  let n ← s.toNat?
  if n ≤ 65535 then some n else none

def declared? (s : String) : Option (Option Nat) :=
  if s = "absent" then some none else (cluster? s).map some

def member? (s : String) : Option Member :=
  match s.splitOn ":" with
  | [i, c, r] => do
    let id ← if i = "s" then some selfId else (i.toNat?).bind (fun n => if n ≤ 11 then some n else none)
    let c ← cluster? c
    let ring ← if r = "-" then some none else (r.toNat?).bind (fun n => if n ≤ 5 then some (some n) else none)
    pure ⟨id, id, c, ring⟩
  | _ => none

def nodup : List Nat → Bool
  | [] => true
  | x :: r => !r.contains x && nodup r

def members? (s : String) : Option (List Member) := do
  let ms ← (splitList s).mapM member?
  if nodup (ms.map (·.actor)) then some ms else none

def insertSorted (x : Nat) : List Nat → List Nat
  | [] => [x]
  | y :: r => if x < y then x :: y :: r else if x = y then y :: r else y :: insertSorted x r

def sortDedup (xs : List Nat) : List Nat := xs.foldl (fun acc x => insertSorted x acc) []

def showIds (xs : List Nat) : String :=
  showList ((sortDedup xs).map (fun n => if n = selfId then "s" else toString n))

def eligible (mine : Nat) (ms : List Member) : Nat :=
  (ms.filter (fun m => m.cluster == mine && m.actor != selfId)).length

def run (toks : List String) : Option String :=
  match toks with
  | ["bcast", s, r] => do
    let s ← declared? s
    let r ← cluster? r
    pure (if acceptBroadcast r s then "applied" else "dropped")
  | ["sync", c, s] => do
    let c ← declared? c
    let s ← cluster? s
    let resp := serveSync s c true 1
    let first := match firstIsRejection resp with
      | some Rejection.differentCluster => "rejection:different-cluster"
      | some Rejection.maxConcurrencyReached => "rejection:max-concurrency"
      | none => match resp with
        | Msg.state :: _ => "state"
        | _ => "other"
    let cs := if changesetCount resp > 0 then "yes" else "no"
    let ps := match c with
      | none => "-"
      | some cid => if clientSync cid s true 1 > 0 then "synced" else "rejected"
    pure s!"first={first} changesets={cs} psync={ps}"
  | ["candidates", mine, ms] => do
    let mine ← cluster? mine
    let ms ← members? ms
    if eligible mine ms > maxCandidates then pure "err too-many-eligible" else
    pure ("chosen " ++ showIds ((syncCandidates selfId mine ms).map (·.actor)))
  | ["targets", mine, mode, ms] => do
    let mine ← cluster? mine
    let isLocal ← if mode = "local" then some true else if mode = "relay" then some false else none
    let ms ← members? ms
    if eligible mine ms > maxTargets then pure "err too-many-eligible" else
    let r0 := ring0Targets mine ms
    -- a local broadcast goes to ring 0 at once; the pending copy is sent in a later turn of the loop,
    -- where the `ring0` set of that turn is empty again
    let sent := if isLocal then r0 ++ broadcastTargets selfId mine true [] [] ms
                else broadcastTargets selfId mine false [] [] ms
    pure s!"ring0={showIds r0} sent={showIds sent}"
  | _ => none

abbrev State := Unit
def init : State := ()
def step (st : State) (toks : List String) : Option (State × String) := (run toks).map (st, ·)

end Driver.C16
def main : IO Unit := Driver.runLoop Driver.C16.init Driver.C16.step
