//! C18 — real `Members` (crates/klukai-types/src/members.rs), driven the way `handle_notifications`
//! drives it (MemberUp → add_member, MemberDown → remove_member), vs the Lean model `Corro.Members`.
//!
//! ops:  `up <actor> <addr> <ts> <cluster>` · `down <actor> <addr> <ts> <cluster>` ·
//!       `rtt <addr> <millis>` · `ring0 <cluster>`
//! after every op one line `<ret> | <states> | <by_addr> | <rtts>` (see lean/Driver/C18.lean).
//!
//! Small integers are mapped to real values so that the orders the code uses agree with the order
//! of the integers: actor n → `Uuid::from_u128(n)` (BTreeMap order = numeric), address n →
//! `127.0.0.1:(10000+n)`, identity timestamp n → `NTP64(n << 32)` (whole seconds, so that
//! `to_duration()` — which drops the low bits of the fraction — compares exactly like n; checked
//! on every notification), cluster n → `ClusterId(n)`, rtt → `Duration::from_millis`.
//!
//! The oracle is the property itself, written independently of the model: a fold by newest identity
//! timestamp over the notifications, plus the ring rule over the oracle's own record of the samples.
use std::collections::BTreeMap;
use std::net::SocketAddr;
use std::time::Duration;

use klukai_types::actor::{Actor, ActorId, ClusterId};
use klukai_types::broadcast::Timestamp;
use klukai_types::members::{MemberAddedResult, Members};
use uuid::Uuid;

use crate::rng::Rng;
use crate::runner::{CaseResult, Prop, Tier};
use crate::util::*;

pub struct C18;

const PORT0: u64 = 10_000;

fn addr_of(n: u64) -> SocketAddr {
    SocketAddr::from(([127, 0, 0, 1], (PORT0 + n) as u16))
}
fn addr_num(a: &SocketAddr) -> u64 {
    a.port() as u64 - PORT0
}
fn actor_of(n: u64) -> ActorId {
    ActorId(Uuid::from_u128(n as u128))
}
fn actor_num(a: &ActorId) -> u64 {
    a.0.as_u128() as u64
}
fn ts_of(n: u64) -> Timestamp {
    Timestamp::from(n << 32)
}
fn ts_num(t: &Timestamp) -> u64 {
    t.0.as_u64() >> 32
}

fn show_ring(r: Option<u64>) -> String {
    match r {
        None => "n".into(),
        Some(r) => r.to_string(),
    }
}

/// canonical print of the REAL state
fn show_state(m: &Members) -> String {
    let st: Vec<String> = m
        .states
        .iter()
        .map(|(id, s)| {
            format!(
                "{}:{}:{}:{}:{}",
                actor_num(id),
                addr_num(&s.addr),
                ts_num(&s.ts),
                s.cluster_id.0,
                show_ring(s.ring.map(|r| r as u64))
            )
        })
        .collect();
    let ba: Vec<String> = m.by_addr.iter().map(|(a, id)| format!("{}>{}", addr_num(a), actor_num(id))).collect();
    let rt: Vec<String> = m
        .rtts
        .iter()
        .map(|(a, r)| format!("{}:{}:{}", addr_num(a), r.buf.len(), r.buf.iter().sum::<u64>()))
        .collect();
    format!("{} | {} | {}", show_list(&st, ","), show_list(&ba, ","), show_list(&rt, ","))
}

// ------------------------------------------------------------------ the oracle (independent of the model)

/// `RING_BUCKETS` as the property understands them: ring i = average in [lo, hi) milliseconds
const ORACLE_BUCKETS: [(u64, u64); 6] = [(0, 6), (6, 15), (15, 50), (50, 100), (100, 200), (200, 300)];
const ORACLE_WINDOW: usize = 20;

#[derive(Clone, Copy, Debug, PartialEq)]
struct Ident {
    ts: u64,
    addr: u64,
    cluster: u64,
    up: bool,
}

#[derive(Default)]
struct Oracle {
    /// per actor: newest identity heard of, and whether the last notification about it was an up
    newest: BTreeMap<u64, Ident>,
    /// per actor: highest identity timestamp reported down so far (for the side condition)
    max_down: BTreeMap<u64, u64>,
    /// the sequence so far satisfies "an up never carries an identity older than one already reported down"
    admissible: bool,
    /// at some point two listed peers had the same address (the SWIM layer keeps one identity per address)
    shared: bool,
    /// every sample per address, oldest first
    samples: BTreeMap<u64, Vec<u64>>,
    stale_seen: bool,
    addr_change_seen: bool,
    fails: Vec<String>,
}

impl Oracle {
    fn new() -> Self {
        Oracle { admissible: true, ..Default::default() }
    }

    fn listed(&self, id: u64) -> Option<(u64, u64, u64)> {
        self.newest.get(&id).filter(|e| e.up).map(|e| (e.addr, e.ts, e.cluster))
    }

    fn expected_ring(&self, addr: u64) -> Option<u64> {
        let all = self.samples.get(&addr)?;
        if all.is_empty() {
            return None;
        }
        let newest: Vec<u64> = all.iter().rev().take(ORACLE_WINDOW).copied().collect();
        let avg = newest.iter().sum::<u64>() / newest.len() as u64;
        ORACLE_BUCKETS.iter().position(|(lo, hi)| *lo <= avg && avg < *hi).map(|i| i as u64)
    }

    fn notify(&mut self, is_up: bool, id: u64, addr: u64, ts: u64, cluster: u64) {
        if is_up {
            if let Some(d) = self.max_down.get(&id) {
                if ts < *d {
                    self.admissible = false;
                }
            }
        } else {
            let d = self.max_down.entry(id).or_insert(ts);
            if ts > *d {
                *d = ts;
            }
        }
        match self.newest.get(&id).copied() {
            None => {
                self.newest.insert(id, Ident { ts, addr, cluster, up: is_up });
            }
            Some(e) => {
                if ts < e.ts {
                    self.stale_seen = true;
                } else if ts > e.ts {
                    if e.up && is_up && e.addr != addr {
                        self.addr_change_seen = true;
                    }
                    self.newest.insert(id, Ident { ts, addr, cluster, up: is_up });
                } else if is_up {
                    // same identity timestamp: a listed identity stays as first seen; a peer that was
                    // down is listed again as announced
                    if !e.up {
                        self.newest.insert(id, Ident { ts, addr, cluster, up: true });
                    }
                } else {
                    self.newest.insert(id, Ident { up: false, ..e });
                }
            }
        }
    }

    /// the property, evaluated on the real state
    fn check(&mut self, m: &Members, step: usize) {
        let real: BTreeMap<u64, (u64, u64, u64, Option<u64>)> = m
            .states
            .iter()
            .map(|(id, s)| (actor_num(id), (addr_num(&s.addr), ts_num(&s.ts), s.cluster_id.0 as u64, s.ring.map(|r| r as u64))))
            .collect();
        let index: BTreeMap<u64, u64> = m.by_addr.iter().map(|(a, id)| (addr_num(a), actor_num(id))).collect();

        // (1) listed exactly if the last notification about the newest identity was an up, with its address/cluster
        if self.admissible {
            let ids: Vec<u64> = self.newest.keys().chain(real.keys()).copied().collect();
            for id in ids {
                let want = self.listed(id);
                let got = real.get(&id).map(|r| (r.0, r.1, r.2));
                if want != got {
                    self.fails.push(format!(
                        "membership view does not follow the newest identity: after step {step} actor {id} is listed as (addr,ts,cluster)={got:?} but its newest identity says {want:?}"
                    ));
                }
            }
        }
        // has the sequence ever had two listed peers on one address?
        {
            let mut seen: BTreeMap<u64, u64> = BTreeMap::new();
            let addrs: Vec<(u64, u64)> = if self.admissible {
                self.newest.iter().filter(|(_, e)| e.up).map(|(id, e)| (*id, e.addr)).collect()
            } else {
                real.iter().map(|(id, r)| (*id, r.0)).collect()
            };
            for (id, a) in addrs {
                if seen.insert(a, id).is_some() {
                    self.shared = true;
                }
            }
        }
        // (3a) every index entry points to a listed member whose current address it is (always)
        for (a, id) in &index {
            if real.get(id).map(|r| r.0) != Some(*a) {
                self.fails.push(format!(
                    "address index is stale: after step {step} by_addr[{a}]={id} but that actor is listed as {:?}",
                    real.get(id)
                ));
            }
        }
        // (3b) every listed member is indexed under its current address (one identity per address)
        if !self.shared {
            for (id, r) in &real {
                if index.get(&r.0) != Some(id) {
                    self.fails.push(format!(
                        "address index misses a member: after step {step} actor {id} is listed at address {} but by_addr there is {:?}",
                        r.0,
                        index.get(&r.0)
                    ));
                }
            }
        }
        // (4) the ring of a member whose current address is indexed for it is the bucket of the newest samples
        //     of that address
        for (id, r) in &real {
            if index.get(&r.0) == Some(id) {
                let want = self.expected_ring(r.0);
                if r.3 != want {
                    self.fails.push(format!(
                        "ring does not follow the samples of the current address: after step {step} actor {id} at address {} has ring {:?} but its samples give {:?}",
                        r.0, r.3, want
                    ));
                }
            }
        }
    }

    /// (5) priority targets
    fn check_ring0(&mut self, m: &Members, cluster: u64, got: &[u64], step: usize) {
        let sound: Vec<u64> = m
            .states
            .values()
            .filter(|s| s.cluster_id.0 as u64 == cluster && s.ring == Some(0))
            .map(|s| addr_num(&s.addr))
            .collect();
        if sound != got {
            self.fails.push(format!(
                "ring0 targets are not the same-cluster ring-0 members: step {step} cluster {cluster} returned {got:?}, listed ring-0 members of the cluster are {sound:?}"
            ));
        }
        if self.admissible && !self.shared {
            let want: Vec<u64> = self
                .newest
                .values()
                .filter(|e| e.up && e.cluster == cluster && self.expected_ring(e.addr) == Some(0))
                .map(|e| e.addr)
                .collect();
            if want != got {
                self.fails.push(format!(
                    "ring0 targets differ from the peers whose current address averages in bucket 0: step {step} cluster {cluster} returned {got:?}, expected {want:?}"
                ));
            }
        }
    }
}

fn parse4(toks: &[&str]) -> Option<(u64, u64, u64, u64)> {
    let id: u64 = toks[1].parse().ok()?;
    let addr: u64 = toks[2].parse().ok()?;
    let ts: u64 = toks[3].parse().ok()?;
    let cl: u64 = toks[4].parse().ok()?;
    // values the mapping to real types can carry
    if addr >= 50_000 || ts >= (1 << 31) || cl > u16::MAX as u64 {
        return None;
    }
    Some((id, addr, ts, cl))
}

fn exec(ops: &[String]) -> CaseResult {
    let mut r = CaseResult::default();
    let mut m = Members::default();
    let mut o = Oracle::new();
    let mut max_samples = 0usize;
    let mut out_of_bucket = false;
    for (step, op) in ops.iter().enumerate() {
        let toks: Vec<&str> = op.split_whitespace().collect();
        let line = match toks.first().copied() {
            Some(k @ ("up" | "down")) if toks.len() == 5 => match parse4(&toks) {
                None => "bad-op".to_string(),
                Some((id, addr, ts, cl)) => {
                    if ts_of(ts).to_duration() != Duration::from_secs(ts) {
                        o.fails.push(format!("harness: timestamp {ts} does not map to {ts} seconds"));
                    }
                    let actor = Actor::new(actor_of(id), addr_of(addr), ts_of(ts), ClusterId(cl as u16));
                    let before = o.listed(id);
                    let ret = if k == "up" {
                        match m.add_member(&actor) {
                            MemberAddedResult::NewMember => "new",
                            MemberAddedResult::Updated => "upd",
                            MemberAddedResult::Ignored => "ign",
                        }
                    } else if m.remove_member(&actor) {
                        "removed=true"
                    } else {
                        "removed=false"
                    };
                    o.notify(k == "up", id, addr, ts, cl);
                    if o.admissible {
                        let after = o.listed(id);
                        let want = if k == "up" {
                            match (before, after) {
                                (None, Some(_)) => "new",
                                (Some(b), Some(a)) if b != a => "upd",
                                _ => "ign",
                            }
                        } else if before.is_some() && after.is_none() {
                            "removed=true"
                        } else {
                            "removed=false"
                        };
                        if want != ret {
                            o.fails.push(format!(
                                "notification result does not match the change of the membership view: step {step} `{op}` returned {ret}, the newest-identity fold says {want}"
                            ));
                        }
                    }
                    o.check(&m, step);
                    format!("{ret} | {}", show_state(&m))
                }
            },
            Some("rtt") if toks.len() == 3 => match (toks[1].parse::<u64>(), toks[2].parse::<u64>()) {
                (Ok(addr), Ok(ms)) if addr < 50_000 && ms < (1 << 40) => {
                    m.add_rtt(addr_of(addr), Duration::from_millis(ms));
                    let v = o.samples.entry(addr).or_default();
                    v.push(ms);
                    max_samples = max_samples.max(v.len());
                    if o.expected_ring(addr).is_none() {
                        out_of_bucket = true;
                    }
                    o.check(&m, step);
                    format!("ok | {}", show_state(&m))
                }
                _ => "bad-op".to_string(),
            },
            Some("ring0") if toks.len() == 2 => match toks[1].parse::<u64>() {
                Ok(cl) if cl <= u16::MAX as u64 => {
                    let got: Vec<u64> = m.ring0(ClusterId(cl as u16)).map(|a| addr_num(&a)).collect();
                    o.check_ring0(&m, cl, &got, step);
                    o.check(&m, step);
                    format!("r0={} | {}", show_nats(&got), show_state(&m))
                }
                _ => "bad-op".to_string(),
            },
            _ => "bad-op".to_string(),
        };
        r.outputs.push(line);
    }
    r.nontrivial = o.stale_seen;
    r.tags.push(if o.admissible { "admissible(oracle-applies)" } else { "inadmissible(view-oracle-skipped)" }.into());
    r.tags.push(if o.shared { "shared-address" } else { "one-identity-per-address" }.into());
    if o.stale_seen {
        r.tags.push("stale-notification".into());
    }
    if o.addr_change_seen {
        r.tags.push("address-change-of-listed-member".into());
    }
    if max_samples > ORACLE_WINDOW {
        r.tags.push("more-than-20-samples".into());
    }
    if out_of_bucket {
        r.tags.push("average-outside-buckets".into());
    }
    r.tags.push(format!("len:{}", match ops.len() { 0..=5 => "1-5", 6..=12 => "6-12", _ => "13-25" }));
    // one report per kind of failure is enough for a case
    // the first failure of a case is the finding; later ones are usually its consequences
    o.fails.truncate(1);
    r.oracle_failures = o.fails;
    r
}

// ------------------------------------------------------------------ generators

const BOUNDARY_MS: [u64; 14] = [0, 5, 6, 14, 15, 49, 50, 99, 100, 199, 200, 299, 300, 1000];

/// tiny alphabet of the exhaustive enumeration: 2 peers, 2 timestamps, peer 1 on 2 addresses,
/// peer 2 on address 1 (shared with peer 1), samples below/above every bucket
const ALPHABET: [&str; 13] = [
    "up 1 1 1 0",
    "up 1 2 1 0",
    "up 1 1 2 0",
    "up 1 2 2 0",
    "up 2 1 1 0",
    "up 2 1 2 0",
    "down 1 1 1 0",
    "down 1 1 2 0",
    "down 2 1 1 0",
    "down 2 1 2 0",
    "rtt 1 3",
    "rtt 1 1000",
    "rtt 2 3",
];

struct GenState {
    newest: BTreeMap<u64, Ident>,
    max_down: BTreeMap<u64, u64>,
}

impl GenState {
    fn apply(&mut self, is_up: bool, id: u64, addr: u64, ts: u64, cluster: u64) {
        if !is_up {
            let d = self.max_down.entry(id).or_insert(ts);
            *d = (*d).max(ts);
        }
        match self.newest.get(&id).copied() {
            None => {
                self.newest.insert(id, Ident { ts, addr, cluster, up: is_up });
            }
            Some(e) if ts > e.ts || (ts == e.ts && is_up && !e.up) => {
                self.newest.insert(id, Ident { ts, addr, cluster, up: is_up });
            }
            Some(e) if ts == e.ts && !is_up => {
                self.newest.insert(id, Ident { up: false, ..e });
            }
            _ => {}
        }
    }
    fn occupied_by_other(&self, id: u64, addr: u64) -> bool {
        self.newest.iter().any(|(i, e)| *i != id && e.up && e.addr == addr)
    }
}

fn gen_seq(rng: &mut Rng) -> Vec<String> {
    let n_peers = rng.range(1, 4);
    let n_ts = rng.range(1, 4);
    let n_addr = rng.range(1, 3);
    let n_cl = rng.range(1, 3);
    // a minority of sequences may break the side condition / share addresses between listed peers
    let keep_admissible = !rng.chance(3, 20);
    let keep_distinct = rng.chance(13, 20);
    let burst_at = if rng.chance(1, 8) { Some(rng.below(4) as usize) } else { None };
    let len = match rng.below(10) {
        _ if burst_at.is_some() => 25,
        0 => rng.range(1, 5),
        1..=4 => rng.range(4, 12),
        _ => rng.range(10, 25),
    } as usize;
    // home cluster per peer: mostly cluster 0 so that ring0 has something to return
    let home: Vec<u64> = (0..=n_peers).map(|_| if rng.chance(2, 3) { 0 } else { rng.below(n_cl) }).collect();
    let mut st = GenState { newest: BTreeMap::new(), max_down: BTreeMap::new() };
    let mut ops: Vec<String> = vec![];
    while ops.len() < len {
        if Some(ops.len()) == burst_at {
            // more than 20 samples for one address: one outlier, then a run on the other side of a boundary
            let a = rng.range(1, n_addr);
            let first = *rng.pick(&BOUNDARY_MS);
            let rest = *rng.pick(&BOUNDARY_MS);
            ops.push(format!("rtt {a} {first}"));
            let n = rng.range(20, 21);
            for _ in 0..n {
                ops.push(format!("rtt {a} {rest}"));
            }
            continue;
        }
        match rng.below(20) {
            0..=7 => {
                // up
                let id = rng.range(1, n_peers);
                let mut ts = rng.range(1, n_ts);
                if keep_admissible {
                    if let Some(d) = st.max_down.get(&id) {
                        ts = ts.max(*d);
                    }
                }
                let cur = st.newest.get(&id).copied();
                // mostly re-announce the current address; sometimes move
                let mut addr = match cur {
                    Some(e) if rng.chance(1, 2) => e.addr,
                    _ => rng.range(1, n_addr),
                };
                if keep_distinct && st.occupied_by_other(id, addr) {
                    let free: Vec<u64> = (1..=n_addr).filter(|a| !st.occupied_by_other(id, *a)).collect();
                    if free.is_empty() {
                        // no free address: a sample instead
                        ops.push(format!("rtt {} {}", rng.range(1, n_addr), rng.pick(&BOUNDARY_MS)));
                        continue;
                    }
                    addr = *rng.pick(&free);
                }
                let cl = if rng.chance(5, 6) { home[id as usize] } else { rng.below(n_cl) };
                st.apply(true, id, addr, ts, cl);
                ops.push(format!("up {id} {addr} {ts} {cl}"));
            }
            8..=11 => {
                // down: same, older or newer identity than the one known
                let id = rng.range(1, n_peers);
                let cur = st.newest.get(&id).copied();
                let ts = match cur {
                    Some(e) if rng.chance(1, 2) => e.ts,
                    _ => rng.range(1, n_ts),
                };
                let addr = match cur {
                    Some(e) if rng.chance(4, 5) => e.addr,
                    _ => rng.range(1, n_addr),
                };
                let cl = match cur {
                    Some(e) if rng.chance(4, 5) => e.cluster,
                    _ => rng.below(n_cl),
                };
                st.apply(false, id, addr, ts, cl);
                ops.push(format!("down {id} {addr} {ts} {cl}"));
            }
            12..=17 => {
                // sample for a current or a former/unused address, around the bucket boundaries
                let listed: Vec<u64> = st.newest.values().filter(|e| e.up).map(|e| e.addr).collect();
                let a = if !listed.is_empty() && rng.chance(2, 3) { *rng.pick(&listed) } else { rng.range(1, n_addr) };
                let ms = match rng.below(5) {
                    0 => rng.range(0, 7),
                    1 => rng.range(0, 400),
                    _ => *rng.pick(&BOUNDARY_MS),
                };
                ops.push(format!("rtt {a} {ms}"));
            }
            _ => {
                ops.push(format!("ring0 {}", if rng.chance(2, 3) { 0 } else { rng.below(n_cl) }));
            }
        }
    }
    ops.truncate(25);
    ops
}

impl Prop for C18 {
    fn id(&self) -> &'static str {
        "C18"
    }
    fn rule(&self) -> &'static str {
        "one case = one sequence of up/down notifications, rtt samples and ring0 queries applied to a fresh Members; \
         non-trivial iff it contains at least one stale notification (identity timestamp older than the newest one \
         already heard for that actor); distinct by hash of the op list"
    }
    fn default_cases(&self, tier: Tier) -> usize {
        match tier {
            Tier::Quick => 20_000,
            Tier::Thorough => 200_000,
        }
    }
    fn enumerated_case(&self, tier: Tier, index: usize) -> Option<Vec<String>> {
        // every sequence of 1..=L letters of ALPHABET, followed by one ring0 query
        let l_max = if tier == Tier::Thorough { 5 } else { 4 };
        let k = ALPHABET.len();
        let mut idx = index;
        let mut count = k;
        for len in 1..=l_max {
            if idx < count {
                let mut ops = Vec::with_capacity(len + 1);
                let mut x = idx;
                for _ in 0..len {
                    ops.push(ALPHABET[x % k].to_string());
                    x /= k;
                }
                ops.push("ring0 0".to_string());
                return Some(ops);
            }
            idx -= count;
            count *= k;
        }
        None
    }
    fn gen_case(&self, rng: &mut Rng, _tier: Tier, _index: usize) -> Vec<String> {
        gen_seq(rng)
    }
    fn exec_case(&self, ops: &[String]) -> CaseResult {
        exec(ops)
    }
}
