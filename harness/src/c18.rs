//! C18 — real `Members` (crates/klukai-types/src/members.rs), driven the way `handle_notifications`
//! drives it (MemberUp → add_member, MemberDown → remove_member), vs the Lean model `Corro.Members`.
//!
//! ops:  `up <actor> <addr> <ts> <cluster>` · `down <actor> <addr> <ts> <cluster>` ·
//!       `rtt <addr> <millis>` · `ring0 <cluster>`
//!       the glue family — notifications that go through the REAL `handle_notifications` of a real agent:
//!       `nup|ndown|nrename|nrejoin <actor> <addr> <ts> <cluster>` · `nactive` · `nidle` · `ndefunct`
//!       queue an `OwnedNotification` (answer `queued`); `flush` moves the case's `Members` into the
//!       agent, runs `handle_notifications` over the queue (one-slot channel, two trailing `Active`), and takes the
//!       table back (answer `flushed | <state>`).
//! after every op one line `<ret> | <states> | <by_addr> | <rtts>` (see lean/Driver/C18.lean).
//!
//! Small integers are mapped to real values so that the orders the code uses agree with the order
//! of the integers: actor n → `Uuid::from_u128(n)` (BTreeMap order = numeric), address n →
//! `127.0.0.1:(10000+n)`, identity timestamp n → `NTP64(n << 32)` (whole seconds, so that
//! `to_duration()` — which drops the low bits of the fraction — compares exactly like n; checked
//! on every notification), cluster n → `ClusterId(n)`, rtt → `Duration::from_millis`.
//!
//! The oracle is the property itself, written independently of the model: a fold by newest identity
//! timestamp over the notifications, plus the ring rule over the oracle's own record of the samples.
use std::collections::BTreeMap;
use std::net::SocketAddr;
use std::time::Duration;

use klukai_types::actor::{Actor, ActorId, ClusterId};
use klukai_types::broadcast::Timestamp;
use klukai_types::members::{MemberAddedResult, Members};
use foca::OwnedNotification;
use klukai_agent::agent::verif_hooks::handle_notifications;
use klukai_agent::agent::{AgentOptions, setup};
use klukai_types::agent::Agent;
use klukai_types::channel::bounded;
use klukai_types::config::Config;
use klukai_types::tripwire::Tripwire;
use std::sync::{Mutex, OnceLock};
use uuid::Uuid;

use crate::rng::Rng;
use crate::runner::{CaseResult, Prop, Tier};
use crate::util::*;

pub struct C18;

const PORT0: u64 = 10_000;

fn addr_of(n: u64) -> SocketAddr {
    SocketAddr::from(([127, 0, 0, 1], (PORT0 + n) as u16))
}
fn addr_num(a: &SocketAddr) -> u64 {
    a.port() as u64 - PORT0
}
fn actor_of(n: u64) -> ActorId {
    ActorId(Uuid::from_u128(n as u128))
}
fn actor_num(a: &ActorId) -> u64 {
    a.0.as_u128() as u64
}
fn ts_of(n: u64) -> Timestamp {
    Timestamp::from(n << 32)
}
fn ts_num(t: &Timestamp) -> u64 {
    t.0.as_u64() >> 32
}

fn show_ring(r: Option<u64>) -> String {
    match r {
        None => "n".into(),
        Some(r) => r.to_string(),
    }
}

/// canonical print of the REAL state
fn show_state(m: &Members) -> String {
    let st: Vec<String> = m
        .states
        .iter()
        .map(|(id, s)| {
            format!(
                "{}:{}:{}:{}:{}",
                actor_num(id),
                addr_num(&s.addr),
                ts_num(&s.ts),
                s.cluster_id.0,
                show_ring(s.ring.map(|r| r as u64))
            )
        })
        .collect();
    let ba: Vec<String> = m.by_addr.iter().map(|(a, id)| format!("{}>{}", addr_num(a), actor_num(id))).collect();
    let rt: Vec<String> = m
        .rtts
        .iter()
        .map(|(a, r)| format!("{}:{}:{}", addr_num(a), r.buf.len(), r.buf.iter().sum::<u64>()))
        .collect();
    format!("{} | {} | {}", show_list(&st, ","), show_list(&ba, ","), show_list(&rt, ","))
}

// ------------------------------------------------------------------ the oracle (independent of the model)

/// The two tunables of `Members` (`RING_BUCKETS`, the `CircularBuffer` capacity) as `tools/extract_c18.py`
/// reads them off members.rs at the start of every check (the same generated file the Lean driver
/// imports).  The property does not fix their values ("ring 0" = first bucket of the table, "samples" =
/// the window the code keeps); the REAL `Members` uses whatever the code has, these copies only feed the
/// ring rule of the oracle, the generator's boundary values and the distribution tags, so a wrong
/// extraction shows up as a diff / oracle failure.
fn members_consts() -> &'static (Vec<(u64, u64)>, usize) {
    static C: std::sync::OnceLock<(Vec<(u64, u64)>, usize)> = std::sync::OnceLock::new();
    C.get_or_init(|| {
        let path = concat!(env!("CARGO_MANIFEST_DIR"), "/../lean/Corro/Gen/MembersConsts.lean");
        let text = std::fs::read_to_string(path).expect("Gen/MembersConsts.lean");
        let after = |pat: &str| -> &str {
            let at = text.find(pat).unwrap_or_else(|| panic!("`{pat}` missing in MembersConsts.lean"));
            text[at + pat.len()..].lines().next().unwrap().trim()
        };
        let cap: usize = after("def rttCap : Nat := ").parse().expect("rttCap");
        let list = after("def ringBuckets : List (Nat × Nat) := ");
        let nums: Vec<u64> = list
            .split(|c: char| !c.is_ascii_digit())
            .filter(|t| !t.is_empty())
            .map(|t| t.parse().expect("bucket bound"))
            .collect();
        assert!(nums.len() % 2 == 0 && !nums.is_empty() && cap > 0, "MembersConsts.lean: malformed table");
        (nums.chunks(2).map(|c| (c[0], c[1])).collect(), cap)
    })
}
fn oracle_buckets() -> &'static [(u64, u64)] {
    &members_consts().0
}
fn oracle_window() -> usize {
    members_consts().1
}

#[derive(Clone, Copy, Debug, PartialEq)]
struct Ident {
    ts: u64,
    addr: u64,
    cluster: u64,
    up: bool,
}

#[derive(Default)]
struct Oracle {
    /// per actor: newest identity heard of, and whether the last notification about it was an up
    newest: BTreeMap<u64, Ident>,
    /// per actor: highest identity timestamp reported down so far (for the side condition)
    max_down: BTreeMap<u64, u64>,
    /// the sequence so far satisfies "an up never carries an identity older than one already reported down"
    admissible: bool,
    /// at some point two listed peers had the same address (the SWIM layer keeps one identity per address)
    shared: bool,
    /// every sample per address, oldest first
    samples: BTreeMap<u64, Vec<u64>>,
    stale_seen: bool,
    addr_change_seen: bool,
    fails: Vec<String>,
}

impl Oracle {
    fn new() -> Self {
        Oracle { admissible: true, ..Default::default() }
    }

    fn listed(&self, id: u64) -> Option<(u64, u64, u64)> {
        self.newest.get(&id).filter(|e| e.up).map(|e| (e.addr, e.ts, e.cluster))
    }

    fn expected_ring(&self, addr: u64) -> Option<u64> {
        let all = self.samples.get(&addr)?;
        if all.is_empty() {
            return None;
        }
        let newest: Vec<u64> = all.iter().rev().take(oracle_window()).copied().collect();
        let avg = newest.iter().sum::<u64>() / newest.len() as u64;
        oracle_buckets().iter().position(|(lo, hi)| *lo <= avg && avg < *hi).map(|i| i as u64)
    }

    fn notify(&mut self, is_up: bool, id: u64, addr: u64, ts: u64, cluster: u64) {
        if is_up {
            if let Some(d) = self.max_down.get(&id) {
                if ts < *d {
                    self.admissible = false;
                }
            }
        } else {
            let d = self.max_down.entry(id).or_insert(ts);
            if ts > *d {
                *d = ts;
            }
        }
        match self.newest.get(&id).copied() {
            None => {
                self.newest.insert(id, Ident { ts, addr, cluster, up: is_up });
            }
            Some(e) => {
                if ts < e.ts {
                    self.stale_seen = true;
                } else if ts > e.ts {
                    if e.up && is_up && e.addr != addr {
                        self.addr_change_seen = true;
                    }
                    self.newest.insert(id, Ident { ts, addr, cluster, up: is_up });
                } else if is_up {
                    // same identity timestamp: a listed identity stays as first seen; a peer that was
                    // down is listed again as announced
                    if !e.up {
                        self.newest.insert(id, Ident { ts, addr, cluster, up: true });
                    }
                } else {
                    self.newest.insert(id, Ident { up: false, ..e });
                }
            }
        }
    }

    /// two peers whose newest identity is up share an address (the intermediate states of a batch that
    /// went through `handle_notifications` are not observable, the fold is)
    fn note_shared_fold(&mut self) {
        let mut seen: BTreeMap<u64, u64> = BTreeMap::new();
        for (id, e) in self.newest.iter().filter(|(_, e)| e.up) {
            if seen.insert(e.addr, *id).is_some() {
                self.shared = true;
            }
        }
    }

    /// the property, evaluated on the real state
    fn check(&mut self, m: &Members, step: usize) {
        let real: BTreeMap<u64, (u64, u64, u64, Option<u64>)> = m
            .states
            .iter()
            .map(|(id, s)| (actor_num(id), (addr_num(&s.addr), ts_num(&s.ts), s.cluster_id.0 as u64, s.ring.map(|r| r as u64))))
            .collect();
        let index: BTreeMap<u64, u64> = m.by_addr.iter().map(|(a, id)| (addr_num(a), actor_num(id))).collect();

        // (1) listed exactly if the last notification about the newest identity was an up, with its address/cluster
        if self.admissible {
            let ids: Vec<u64> = self.newest.keys().chain(real.keys()).copied().collect();
            for id in ids {
                let want = self.listed(id);
                let got = real.get(&id).map(|r| (r.0, r.1, r.2));
                if want != got {
                    self.fails.push(format!(
                        "membership view does not follow the newest identity: after step {step} actor {id} is listed as (addr,ts,cluster)={got:?} but its newest identity says {want:?}"
                    ));
                }
            }
        }
        // has the sequence ever had two listed peers on one address?
        {
            let mut seen: BTreeMap<u64, u64> = BTreeMap::new();
            let addrs: Vec<(u64, u64)> = if self.admissible {
                self.newest.iter().filter(|(_, e)| e.up).map(|(id, e)| (*id, e.addr)).collect()
            } else {
                real.iter().map(|(id, r)| (*id, r.0)).collect()
            };
            for (id, a) in addrs {
                if seen.insert(a, id).is_some() {
                    self.shared = true;
                }
            }
        }
        // (3a) every index entry points to a listed member whose current address it is (always)
        for (a, id) in &index {
            if real.get(id).map(|r| r.0) != Some(*a) {
                self.fails.push(format!(
                    "address index is stale: after step {step} by_addr[{a}]={id} but that actor is listed as {:?}",
                    real.get(id)
                ));
            }
        }
        // (3b) every listed member is indexed under its current address (one identity per address)
        if !self.shared {
            for (id, r) in &real {
                if index.get(&r.0) != Some(id) {
                    self.fails.push(format!(
                        "address index misses a member: after step {step} actor {id} is listed at address {} but by_addr there is {:?}",
                        r.0,
                        index.get(&r.0)
                    ));
                }
            }
        }
        // (4) the ring of a member whose current address is indexed for it is the bucket of the newest samples
        //     of that address
        for (id, r) in &real {
            if index.get(&r.0) == Some(id) {
                let want = self.expected_ring(r.0);
                if r.3 != want {
                    self.fails.push(format!(
                        "ring does not follow the samples of the current address: after step {step} actor {id} at address {} has ring {:?} but its samples give {:?}",
                        r.0, r.3, want
                    ));
                }
            }
        }
    }

    /// (5) priority targets
    fn check_ring0(&mut self, m: &Members, cluster: u64, got: &[u64], step: usize) {
        let sound: Vec<u64> = m
            .states
            .values()
            .filter(|s| s.cluster_id.0 as u64 == cluster && s.ring == Some(0))
            .map(|s| addr_num(&s.addr))
            .collect();
        if sound != got {
            self.fails.push(format!(
                "ring0 targets are not the same-cluster ring-0 members: step {step} cluster {cluster} returned {got:?}, listed ring-0 members of the cluster are {sound:?}"
            ));
        }
        if self.admissible && !self.shared {
            let want: Vec<u64> = self
                .newest
                .values()
                .filter(|e| e.up && e.cluster == cluster && self.expected_ring(e.addr) == Some(0))
                .map(|e| e.addr)
                .collect();
            if want != got {
                self.fails.push(format!(
                    "ring0 targets differ from the peers whose current address averages in bucket 0: step {step} cluster {cluster} returned {got:?}, expected {want:?}"
                ));
            }
        }
    }
}

// ------------------------------------------------------------------ the glue: a real agent's handle_notifications

const TMP_ROOT: &str = "/verif/harness/target/tmp";

/// one real agent per process (built by `klukai_agent::agent::setup`, none of its loops running); its
/// foca input channel is drained by a task so that the `ClusterSize` feedback never blocks
struct GlueNode {
    rt: tokio::runtime::Runtime,
    agent: Agent,
    _opts: Mutex<AgentOptions>,
    _trip_tx: tokio::sync::mpsc::Sender<()>,
}

fn glue_node() -> Result<&'static GlueNode, String> {
    static N: OnceLock<Result<GlueNode, String>> = OnceLock::new();
    N.get_or_init(|| {
        let dir = std::path::PathBuf::from(format!("{TMP_ROOT}/c18-{}", std::process::id()));
        let _ = std::fs::remove_dir_all(&dir);
        std::fs::create_dir_all(dir.join("schema")).map_err(|e| format!("tmp dir: {e}"))?;
        let conf: Config = Config::builder()
            .api_addr("127.0.0.1:0".parse().unwrap())
            .gossip_addr("127.0.0.1:0".parse().unwrap())
            .admin_path(dir.join("admin.sock").display().to_string())
            .db_path(dir.join("corrosion.db").display().to_string())
            .add_schema_path(dir.join("schema").display().to_string())
            .build()
            .map_err(|e| e.to_string())?;
        let rt = tokio::runtime::Builder::new_multi_thread().worker_threads(2).enable_all().build().map_err(|e| e.to_string())?;
        let (tripwire, worker, trip_tx) = Tripwire::new_simple();
        let (agent, mut opts) = rt.block_on(async move {
            tokio::spawn(worker);
            setup(conf, tripwire).await.map_err(|e| format!("{e:#}"))
        })?;
        let _in_rt = rt.enter();
        let (_dummy_tx, dummy_rx) = bounded(1, "verif-dummy");
        let mut rx_foca = std::mem::replace(&mut opts.rx_foca, dummy_rx);
        rt.spawn(async move { while rx_foca.recv().await.is_some() {} });
        drop(_in_rt);
        Ok(GlueNode { rt, agent, _opts: Mutex::new(opts), _trip_tx: trip_tx })
    })
    .as_ref()
    .map_err(|e| e.clone())
}

/// the queued notifications through the real `handle_notifications`, on the case's member table
fn flush_real(m: &mut Members, notifs: Vec<OwnedNotification<Actor>>) -> Result<(), String> {
    let n = glue_node()?;
    *n.agent.members().write() = std::mem::take(m);
    let agent = n.agent.clone();
    let res = n.rt.block_on(async move {
        // `bounded` keeps a sender clone alive in its capacity-gauge task, so the receiver never sees the
        // channel close.  A channel of ONE slot instead: a `send` returns only once the previous item has
        // been taken out of the channel, so after two trailing sentinels (`Active`, which the loop only
        // logs) have been accepted, the loop has gone round past the last real notification.
        let (tx, rx) = bounded(1, "verif-notifications");
        let h = tokio::spawn(handle_notifications(agent, rx));
        let feed = async {
            for x in notifs.into_iter().chain([OwnedNotification::Active, OwnedNotification::Active]) {
                tx.send(x).await.map_err(|e| format!("send: {e}"))?;
            }
            Ok::<(), String>(())
        };
        let fed = match tokio::time::timeout(Duration::from_secs(60), feed).await {
            Ok(r) => r,
            Err(_) => Err("handle_notifications did not take its notifications within 60 s".to_string()),
        };
        h.abort();
        match h.await {
            Err(e) if e.is_panic() => Err(format!("handle_notifications panicked: {e}")),
            _ => fed,
        }
    });
    *m = std::mem::take(&mut *n.agent.members().write());
    res
}

fn parse4(toks: &[&str]) -> Option<(u64, u64, u64, u64)> {
    let id: u64 = toks[1].parse().ok()?;
    let addr: u64 = toks[2].parse().ok()?;
    let ts: u64 = toks[3].parse().ok()?;
    let cl: u64 = toks[4].parse().ok()?;
    // values the mapping to real types can carry
    if addr >= 50_000 || ts >= (1 << 31) || cl > u16::MAX as u64 {
        return None;
    }
    Some((id, addr, ts, cl))
}

fn exec(ops: &[String]) -> CaseResult {
    let mut r = CaseResult::default();
    let mut m = Members::default();
    let mut o = Oracle::new();
    let mut max_samples = 0usize;
    let mut out_of_bucket = false;
    // the glue family: notifications waiting for the next `flush`
    let mut queue: Vec<(OwnedNotification<Actor>, Option<(bool, u64, u64, u64, u64)>)> = vec![];
    let mut glue_used = false;
    for (step, op) in ops.iter().enumerate() {
        let toks: Vec<&str> = op.split_whitespace().collect();
        let line = match toks.first().copied() {
            Some(k @ ("nup" | "ndown" | "nrename" | "nrejoin")) if toks.len() == 5 => match parse4(&toks) {
                None => "bad-op".to_string(),
                Some((id, addr, ts, cl)) => {
                    let actor = Actor::new(actor_of(id), addr_of(addr), ts_of(ts), ClusterId(cl as u16));
                    queue.push(match k {
                        "nup" => (OwnedNotification::MemberUp(actor), Some((true, id, addr, ts, cl))),
                        "ndown" => (OwnedNotification::MemberDown(actor), Some((false, id, addr, ts, cl))),
                        "nrejoin" => (OwnedNotification::Rejoin(actor), None),
                        _ => {
                            let newer = Actor::new(actor_of(id), addr_of(addr), ts_of(ts + 1), ClusterId(cl as u16));
                            (OwnedNotification::Rename(actor, newer), None)
                        }
                    });
                    "queued".to_string()
                }
            },
            Some(k @ ("nactive" | "nidle" | "ndefunct")) if toks.len() == 1 => {
                queue.push((
                    match k {
                        "nactive" => OwnedNotification::Active,
                        "nidle" => OwnedNotification::Idle,
                        _ => OwnedNotification::Defunct,
                    },
                    None,
                ));
                "queued".to_string()
            }
            Some("flush") if toks.len() == 1 => {
                glue_used = true;
                let (notifs, folds): (Vec<_>, Vec<_>) = std::mem::take(&mut queue).into_iter().unzip();
                if let Err(e) = flush_real(&mut m, notifs) {
                    o.fails.push(format!("handle_notifications: step {step}: {e}"));
                }
                let folds: Vec<_> = folds.into_iter().flatten().collect();
                let many = folds.len() > 1;
                for (is_up, id, addr, ts, cl) in folds {
                    o.notify(is_up, id, addr, ts, cl);
                    // "one identity per address" has to hold at every point INSIDE the batch as well; for an
                    // inadmissible sequence the fold does not tell who is listed in between: assume shared
                    o.note_shared_fold();
                    if many && !o.admissible {
                        o.shared = true;
                    }
                }
                o.check(&m, step);
                format!("flushed | {}", show_state(&m))
            }
            Some(k @ ("up" | "down")) if toks.len() == 5 => match parse4(&toks) {
                None => "bad-op".to_string(),
                Some((id, addr, ts, cl)) => {
                    if ts_of(ts).to_duration() != Duration::from_secs(ts) {
                        o.fails.push(format!("harness: timestamp {ts} does not map to {ts} seconds"));
                    }
                    let actor = Actor::new(actor_of(id), addr_of(addr), ts_of(ts), ClusterId(cl as u16));
                    let before = o.listed(id);
                    let ret = if k == "up" {
                        match m.add_member(&actor) {
                            MemberAddedResult::NewMember => "new",
                            MemberAddedResult::Updated => "upd",
                            MemberAddedResult::Ignored => "ign",
                        }
                    } else if m.remove_member(&actor) {
                        "removed=true"
                    } else {
                        "removed=false"
                    };
                    o.notify(k == "up", id, addr, ts, cl);
                    if o.admissible {
                        let after = o.listed(id);
                        let want = if k == "up" {
                            match (before, after) {
                                (None, Some(_)) => "new",
                                (Some(b), Some(a)) if b != a => "upd",
                                _ => "ign",
                            }
                        } else if before.is_some() && after.is_none() {
                            "removed=true"
                        } else {
                            "removed=false"
                        };
                        if want != ret {
                            o.fails.push(format!(
                                "notification result does not match the change of the membership view: step {step} `{op}` returned {ret}, the newest-identity fold says {want}"
                            ));
                        }
                    }
                    o.check(&m, step);
                    format!("{ret} | {}", show_state(&m))
                }
            },
            Some("rtt") if toks.len() == 3 => match (toks[1].parse::<u64>(), toks[2].parse::<u64>()) {
                (Ok(addr), Ok(ms)) if addr < 50_000 && ms < (1 << 40) => {
                    m.add_rtt(addr_of(addr), Duration::from_millis(ms));
                    let v = o.samples.entry(addr).or_default();
                    v.push(ms);
                    max_samples = max_samples.max(v.len());
                    if o.expected_ring(addr).is_none() {
                        out_of_bucket = true;
                    }
                    o.check(&m, step);
                    format!("ok | {}", show_state(&m))
                }
                _ => "bad-op".to_string(),
            },
            Some("ring0") if toks.len() == 2 => match toks[1].parse::<u64>() {
                Ok(cl) if cl <= u16::MAX as u64 => {
                    let got: Vec<u64> = m.ring0(ClusterId(cl as u16)).map(|a| addr_num(&a)).collect();
                    o.check_ring0(&m, cl, &got, step);
                    o.check(&m, step);
                    format!("r0={} | {}", show_nats(&got), show_state(&m))
                }
                _ => "bad-op".to_string(),
            },
            _ => "bad-op".to_string(),
        };
        r.outputs.push(line);
    }
    r.nontrivial = o.stale_seen;
    r.tags.push(if o.admissible { "admissible(oracle-applies)" } else { "inadmissible(view-oracle-skipped)" }.into());
    r.tags.push(if o.shared { "shared-address" } else { "one-identity-per-address" }.into());
    if o.stale_seen {
        r.tags.push("stale-notification".into());
    }
    if o.addr_change_seen {
        r.tags.push("address-change-of-listed-member".into());
    }
    if max_samples > oracle_window() {
        r.tags.push("more-samples-than-window".into());
    }
    if out_of_bucket {
        r.tags.push("average-outside-buckets".into());
    }
    if glue_used {
        r.tags.push("through-real-handle_notifications".into());
    }
    r.tags.push(format!("len:{}", match ops.len() { 0..=5 => "1-5", 6..=12 => "6-12", _ => "13-25" }));
    // one report per kind of failure is enough for a case
    // the first failure of a case is the finding; later ones are usually its consequences
    o.fails.truncate(1);
    r.oracle_failures = o.fails;
    r
}

// ------------------------------------------------------------------ generators

/// sample values on both sides of every bucket boundary of the source's table, plus one far outside
/// (`[0, 5, 6, 14, 15, 49, 50, 99, 100, 199, 200, 299, 300, 1000]` for the table as it stands)
fn boundary_ms() -> &'static [u64] {
    static B: std::sync::OnceLock<Vec<u64>> = std::sync::OnceLock::new();
    B.get_or_init(|| {
        let mut v: Vec<u64> = vec![0];
        let mut top = 0;
        for (lo, hi) in oracle_buckets() {
            v.extend([lo.saturating_sub(1), *lo, hi.saturating_sub(1), *hi]);
            top = top.max(*hi);
        }
        v.push((top * 3).max(top + 700));
        v.sort();
        v.dedup();
        v
    })
}

/// tiny alphabet of the exhaustive enumeration: 2 peers, 2 timestamps, peer 1 on 2 addresses,
/// peer 2 on address 1 (shared with peer 1), samples below/above every bucket
const ALPHABET: [&str; 13] = [
    "up 1 1 1 0",
    "up 1 2 1 0",
    "up 1 1 2 0",
    "up 1 2 2 0",
    "up 2 1 1 0",
    "up 2 1 2 0",
    "down 1 1 1 0",
    "down 1 1 2 0",
    "down 2 1 1 0",
    "down 2 1 2 0",
    "rtt 1 3",
    "rtt 1 1000",
    "rtt 2 3",
];

struct GenState {
    newest: BTreeMap<u64, Ident>,
    max_down: BTreeMap<u64, u64>,
}

impl GenState {
    fn apply(&mut self, is_up: bool, id: u64, addr: u64, ts: u64, cluster: u64) {
        if !is_up {
            let d = self.max_down.entry(id).or_insert(ts);
            *d = (*d).max(ts);
        }
        match self.newest.get(&id).copied() {
            None => {
                self.newest.insert(id, Ident { ts, addr, cluster, up: is_up });
            }
            Some(e) if ts > e.ts || (ts == e.ts && is_up && !e.up) => {
                self.newest.insert(id, Ident { ts, addr, cluster, up: is_up });
            }
            Some(e) if ts == e.ts && !is_up => {
                self.newest.insert(id, Ident { up: false, ..e });
            }
            _ => {}
        }
    }
    fn occupied_by_other(&self, id: u64, addr: u64) -> bool {
        self.newest.iter().any(|(i, e)| *i != id && e.up && e.addr == addr)
    }
}

fn gen_seq(rng: &mut Rng) -> Vec<String> {
    let n_peers = rng.range(1, 4);
    let n_ts = rng.range(1, 4);
    let n_addr = rng.range(1, 3);
    let n_cl = rng.range(1, 3);
    // a minority of sequences may break the side condition / share addresses between listed peers
    let keep_admissible = !rng.chance(3, 20);
    let keep_distinct = rng.chance(13, 20);
    let burst_at = if rng.chance(1, 8) { Some(rng.below(4) as usize) } else { None };
    let len = match rng.below(10) {
        _ if burst_at.is_some() => 25.max(oracle_window() as u64 + 5),
        0 => rng.range(1, 5),
        1..=4 => rng.range(4, 12),
        _ => rng.range(10, 25),
    } as usize;
    // home cluster per peer: mostly cluster 0 so that ring0 has something to return
    let home: Vec<u64> = (0..=n_peers).map(|_| if rng.chance(2, 3) { 0 } else { rng.below(n_cl) }).collect();
    let mut st = GenState { newest: BTreeMap::new(), max_down: BTreeMap::new() };
    let mut ops: Vec<String> = vec![];
    while ops.len() < len {
        if Some(ops.len()) == burst_at {
            // more samples than the window for one address: one outlier, then a run on the other side of a boundary
            let a = rng.range(1, n_addr);
            let first = *rng.pick(boundary_ms());
            let rest = *rng.pick(boundary_ms());
            ops.push(format!("rtt {a} {first}"));
            let n = rng.range(oracle_window() as u64, oracle_window() as u64 + 1);
            for _ in 0..n {
                ops.push(format!("rtt {a} {rest}"));
            }
            continue;
        }
        match rng.below(20) {
            0..=7 => {
                // up
                let id = rng.range(1, n_peers);
                let mut ts = rng.range(1, n_ts);
                if keep_admissible {
                    if let Some(d) = st.max_down.get(&id) {
                        ts = ts.max(*d);
                    }
                }
                let cur = st.newest.get(&id).copied();
                // mostly re-announce the current address; sometimes move
                let mut addr = match cur {
                    Some(e) if rng.chance(1, 2) => e.addr,
                    _ => rng.range(1, n_addr),
                };
                if keep_distinct && st.occupied_by_other(id, addr) {
                    let free: Vec<u64> = (1..=n_addr).filter(|a| !st.occupied_by_other(id, *a)).collect();
                    if free.is_empty() {
                        // no free address: a sample instead
                        ops.push(format!("rtt {} {}", rng.range(1, n_addr), rng.pick(boundary_ms())));
                        continue;
                    }
                    addr = *rng.pick(&free);
                }
                let cl = if rng.chance(5, 6) { home[id as usize] } else { rng.below(n_cl) };
                st.apply(true, id, addr, ts, cl);
                ops.push(format!("up {id} {addr} {ts} {cl}"));
            }
            8..=11 => {
                // down: same, older or newer identity than the one known
                let id = rng.range(1, n_peers);
                let cur = st.newest.get(&id).copied();
                let ts = match cur {
                    Some(e) if rng.chance(1, 2) => e.ts,
                    _ => rng.range(1, n_ts),
                };
                let addr = match cur {
                    Some(e) if rng.chance(4, 5) => e.addr,
                    _ => rng.range(1, n_addr),
                };
                let cl = match cur {
                    Some(e) if rng.chance(4, 5) => e.cluster,
                    _ => rng.below(n_cl),
                };
                st.apply(false, id, addr, ts, cl);
                ops.push(format!("down {id} {addr} {ts} {cl}"));
            }
            12..=17 => {
                // sample for a current or a former/unused address, around the bucket boundaries
                let listed: Vec<u64> = st.newest.values().filter(|e| e.up).map(|e| e.addr).collect();
                let a = if !listed.is_empty() && rng.chance(2, 3) { *rng.pick(&listed) } else { rng.range(1, n_addr) };
                let ms = match rng.below(5) {
                    0 => rng.range(0, oracle_buckets()[0].1 + 1),
                    1 => rng.range(0, oracle_buckets().iter().map(|b| b.1).max().unwrap_or(0) + 100),
                    _ => *rng.pick(boundary_ms()),
                };
                ops.push(format!("rtt {a} {ms}"));
            }
            _ => {
                ops.push(format!("ring0 {}", if rng.chance(2, 3) { 0 } else { rng.below(n_cl) }));
            }
        }
    }
    ops.truncate(25.max(oracle_window() + 5));
    ops
}

/// the same sequence, its notifications delivered by the SWIM runtime: ups and downs are queued as
/// `OwnedNotification`s, mixed with the notifications that must not touch the member table (a `Rename`
/// / `Rejoin` carrying an identity that WOULD change the view if it were applied), and handed to
/// `handle_notifications` in batches of random length
fn to_glue(rng: &mut Rng, ops: Vec<String>) -> Vec<String> {
    let mut out = vec![];
    let mut queued = false;
    for op in ops {
        let toks: Vec<&str> = op.split_whitespace().collect();
        match toks[0] {
            "up" | "down" => {
                out.push(format!("n{op}"));
                queued = true;
                if rng.chance(1, 3) {
                    let id: u64 = toks[1].parse().unwrap();
                    let ts: u64 = toks[3].parse().unwrap();
                    out.push(match rng.below(6) {
                        0 => "nactive".to_string(),
                        1 => "nidle".to_string(),
                        2 => "ndefunct".to_string(),
                        3 => format!("nrejoin {} {} {} {}", id, toks[2], ts + 1, toks[4]),
                        // renamed to a newer identity on another address / of another actor
                        4 => format!("nrename {} {} {} {}", id, rng.range(1, 3), ts + 1, toks[4]),
                        _ => format!("nrename {} {} {} {}", rng.range(1, 4), toks[2], ts, toks[4]),
                    });
                }
                if rng.chance(1, 3) {
                    out.push("flush".to_string());
                    queued = false;
                }
            }
            _ => {
                if queued {
                    out.push("flush".to_string());
                    queued = false;
                }
                out.push(op);
            }
        }
    }
    if queued {
        out.push("flush".to_string());
    }
    out
}

impl Prop for C18 {
    fn id(&self) -> &'static str {
        "C18"
    }
    fn rule(&self) -> &'static str {
        "one case = one sequence of up/down notifications, rtt samples and ring0 queries applied to a fresh Members; \
         non-trivial iff it contains at least one stale notification (identity timestamp older than the newest one \
         already heard for that actor); distinct by hash of the op list"
    }
    fn default_cases(&self, tier: Tier) -> usize {
        match tier {
            Tier::Quick => 20_000,
            Tier::Thorough => 200_000,
        }
    }
    fn enumerated_case(&self, tier: Tier, index: usize) -> Option<Vec<String>> {
        // every sequence of 1..=L letters of ALPHABET, followed by one ring0 query
        let l_max = if tier == Tier::Thorough { 5 } else { 4 };
        let k = ALPHABET.len();
        let mut idx = index;
        let mut count = k;
        for len in 1..=l_max {
            if idx < count {
                let mut ops = Vec::with_capacity(len + 1);
                let mut x = idx;
                for _ in 0..len {
                    ops.push(ALPHABET[x % k].to_string());
                    x /= k;
                }
                ops.push("ring0 0".to_string());
                return Some(ops);
            }
            idx -= count;
            count *= k;
        }
        None
    }
    fn gen_case(&self, rng: &mut Rng, _tier: Tier, index: usize) -> Vec<String> {
        let ops = gen_seq(rng);
        // every 8th sequence goes through the real agent's handle_notifications
        if index % 8 == 7 { to_glue(rng, ops) } else { ops }
    }
    fn exec_case(&self, ops: &[String]) -> CaseResult {
        exec(ops)
    }
    fn end(&self) {
        // the glue family's agent directory (created on the first `flush` of the process)
        let _ = std::fs::remove_dir_all(format!("{TMP_ROOT}/c18-{}", std::process::id()));
    }
}
