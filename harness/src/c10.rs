//! C10 — load shedding and duplicate suppression never lose a change for good.
//!
//! The node under test (NUT, site 3) is a REAL agent built with `klukai_agent::agent::setup` on a fresh
//! database, a `Bookie` created as run_root.rs does, and the REAL `handle_changes` loop spawned on our
//! runtime (plus the real background apply / clear loops).  The harness owns the sending side of the
//! loop's channel (`agent.tx_changes()`), the agent's write connection (back-pressure: while we hold it,
//! spawned batches block) and a second raw connection (`lock`: `BEGIN IMMEDIATE`, so that batches FAIL).
//! Origins (sites 0..=2) are plain cr-sqlite databases; offered changesets are chunks of their logged
//! change lists.
//!
//! Observability comes from the loop's own metrics (a recorder installed by the harness): the channel's
//! receive counter (an own-actor sentinel sent after every offer tells when the offer has been fully
//! processed — the loop is a single task), `corro.agent.changes.dropped`, `…batch.spawned`, the three
//! gauges the loop sets at every tick (queue length, cost, jobs) and the rebroadcast channel we own.
//! Nothing waits on a bare sleep.
//!
//! Ops (all deterministic functions of the op lines):
//!   tag <id>                          no-op label (pinned replays of known findings)
//!   cw <db> <stmts>                   local transaction on origin database <db> (crkit write language)
//!   cfg <queue_len> <chunk> [tick_ms] start the NUT with perf.processing_queue_len / apply_queue_len
//!   hold                              take the write connection; aligned to a tick  (model: Tick)
//!   offer <item> <b|s>                send one changeset (broadcast / sync source); only while held
//!   tickwait                          wait for the next tick of the loop               (model: Tick)
//!   lock / unlock                     BEGIN IMMEDIATE / ROLLBACK on a second raw connection
//!   release                           give the connection back, wait until queue and in-flight are empty
//!                                     (observed at a tick) and the background apply is quiescent
//!   held <site> <vlo-vhi> <lo-hi|->   real `contains_all`
//!   reoffer <rounds>                  what sync does once the overload is over: per round, every changeset
//!                                     offered so far that is not held is offered again (groups of at most
//!                                     queue_len per hold/release); ORACLE: nothing may be left
//!   (items: o:<site>:<ver>:<all|lo-hi|pKofN> chunk of an origin's logged version; x:<site>:<ver>:<lo-hi>:<last>
//!    Full changeset without changes, lo > hi allowed = inverted range; e:<site>:<vlo-vhi> Empty)
//!   retire <item>                     `reoffer` stops offering this changeset (the peers no longer have it in this form)
//!   dump                              store + bookkeeping of the NUT
use std::collections::BTreeMap;
use std::ops::RangeInclusive;
use std::sync::atomic::{AtomicU64, Ordering};
use std::sync::{Arc, Mutex, OnceLock};
use std::time::{Duration, Instant};

use klukai_agent::agent::verif_hooks::{apply_fully_buffered_changes_loop, clear_buffered_meta_loop, handle_changes};
use klukai_agent::agent::{AgentOptions, setup};
use klukai_types::actor::ActorId;
use klukai_types::agent::{Agent, Bookie, WriteConn};
use klukai_types::base::{CrsqlDbVersion, CrsqlSeq};
use klukai_types::broadcast::{BroadcastInput, BroadcastV1, ChangeSource, ChangeV1, Changeset, Timestamp};
use klukai_types::change::Change;
use klukai_types::channel::CorroReceiver;
use klukai_types::config::Config;
use klukai_types::sqlite::CrConn;
use klukai_types::tripwire::Tripwire;

use crate::cluster::chunk_spec;
use crate::crkit::*;
use crate::rng::Rng;
use crate::runner::{CaseResult, Prop, Tier};
use crate::util::{parse_range, show_list, show_ranges};

pub struct C10;

const NUT: usize = 3;
const LONG: Duration = Duration::from_secs(30);

fn actor_of(i: usize) -> ActorId {
    ActorId(uuid::Uuid::from_bytes(site_id(i)))
}

// ------------------------------------------------------------------------------------------------
// metrics recorder
// ------------------------------------------------------------------------------------------------

#[derive(Default)]
struct Stats {
    recv: AtomicU64,
    dropped: AtomicU64,
    spawned: AtomicU64,
    ok_done: AtomicU64,
    ticks: AtomicU64,
    g_q: AtomicU64,
    g_cost: AtomicU64,
    g_jobs: AtomicU64,
    last_tick: Mutex<Option<Instant>>,
}

fn stats() -> &'static Stats {
    static S: OnceLock<Stats> = OnceLock::new();
    S.get_or_init(Stats::default)
}

#[derive(Clone, Copy)]
enum Slot {
    Recv,
    Dropped,
    Spawned,
    OkDone,
    GQ,
    GCost,
    GJobs,
}

struct H(Slot);
impl H {
    fn cell(&self) -> &'static AtomicU64 {
        let s = stats();
        match self.0 {
            Slot::Recv => &s.recv,
            Slot::Dropped => &s.dropped,
            Slot::Spawned => &s.spawned,
            Slot::OkDone => &s.ok_done,
            Slot::GQ => &s.g_q,
            Slot::GCost => &s.g_cost,
            Slot::GJobs => &s.g_jobs,
        }
    }
}
impl metrics::CounterFn for H {
    fn increment(&self, v: u64) {
        self.cell().fetch_add(v, Ordering::SeqCst);
    }
    fn absolute(&self, _v: u64) {}
}
impl metrics::HistogramFn for H {
    fn record(&self, _v: f64) {
        self.cell().fetch_add(1, Ordering::SeqCst);
    }
}
impl metrics::GaugeFn for H {
    fn increment(&self, _v: f64) {}
    fn decrement(&self, _v: f64) {}
    fn set(&self, v: f64) {
        self.cell().store(v as u64, Ordering::SeqCst);
        if matches!(self.0, Slot::GJobs) {
            // the last of the three gauges the tick branch sets: one tick has been taken
            let s = stats();
            *s.last_tick.lock().unwrap() = Some(Instant::now());
            s.ticks.fetch_add(1, Ordering::SeqCst);
        }
    }
}

struct Rec;
fn label<'a>(key: &'a metrics::Key, name: &str) -> Option<&'a str> {
    key.labels().find(|l| l.key() == name).map(|l| l.value())
}
impl metrics::Recorder for Rec {
    fn describe_counter(&self, _: metrics::KeyName, _: Option<metrics::Unit>, _: metrics::SharedString) {}
    fn describe_gauge(&self, _: metrics::KeyName, _: Option<metrics::Unit>, _: metrics::SharedString) {}
    fn describe_histogram(&self, _: metrics::KeyName, _: Option<metrics::Unit>, _: metrics::SharedString) {}
    fn register_counter(&self, key: &metrics::Key, _: &metrics::Metadata<'_>) -> metrics::Counter {
        let slot = match key.name() {
            "corro.runtime.channel.recv_count" if label(key, "channel_name") == Some("changes") => Slot::Recv,
            "corro.agent.changes.dropped" => Slot::Dropped,
            "corro.agent.changes.batch.spawned" => Slot::Spawned,
            _ => return metrics::Counter::noop(),
        };
        metrics::Counter::from_arc(Arc::new(H(slot)))
    }
    fn register_gauge(&self, key: &metrics::Key, _: &metrics::Metadata<'_>) -> metrics::Gauge {
        let slot = match key.name() {
            "corro.agent.changes.in_queue" => Slot::GCost,
            "corro.agent.changesets.in_queue" => Slot::GQ,
            "corro.agent.changes.processing.jobs" => Slot::GJobs,
            _ => return metrics::Gauge::noop(),
        };
        metrics::Gauge::from_arc(Arc::new(H(slot)))
    }
    fn register_histogram(&self, key: &metrics::Key, _: &metrics::Metadata<'_>) -> metrics::Histogram {
        if key.name() == "corro.agent.changes.processing.time.seconds" && label(key, "source") == Some("remote") {
            return metrics::Histogram::from_arc(Arc::new(H(Slot::OkDone)));
        }
        metrics::Histogram::noop()
    }
}

fn install_recorder() {
    static ONCE: OnceLock<()> = OnceLock::new();
    ONCE.get_or_init(|| {
        let _ = metrics::set_global_recorder(Rec);
    });
}

fn reset_stats() {
    let s = stats();
    for c in [&s.recv, &s.dropped, &s.spawned, &s.ok_done, &s.ticks, &s.g_q, &s.g_cost, &s.g_jobs] {
        c.store(0, Ordering::SeqCst);
    }
    *s.last_tick.lock().unwrap() = None;
}

fn ld(c: &AtomicU64) -> u64 {
    c.load(Ordering::SeqCst)
}

// ------------------------------------------------------------------------------------------------
// the node under test
// ------------------------------------------------------------------------------------------------

struct Nut {
    rt: tokio::runtime::Runtime,
    agent: Agent,
    bookie: Bookie,
    trip_tx: tokio::sync::mpsc::Sender<()>,
    loop_handle: Option<tokio::task::JoinHandle<()>>,
    rx_bcast: CorroReceiver<BroadcastInput>,
    _keep: Box<dyn std::any::Any>,
    db_path: std::path::PathBuf,
    guard: Option<WriteConn>,
    lock_conn: Option<rusqlite::Connection>,
    queue_len: usize,
    tick: Duration,
    /// messages put on the changes channel (offers + sentinels)
    sent: u64,
    /// tick count right after the tick `hold` / `tickwait` aligned to; no other tick may fire while held
    held_ticks: u64,
    /// a tick fired where the op discipline does not allow one: the run is not a function of the op lines
    tainted: bool,
}

/// the ingest task is gone (it panicked): a definite failure of the property, not an undecided run
fn died_or_inconclusive(e: &str) -> String {
    if e == "LOOP-DIED" || e == "channel-closed" { "err loop-died".into() } else { format!("inconclusive {e}") }
}

fn wait_until(mut cond: impl FnMut() -> bool, limit: Duration) -> bool {
    let t0 = Instant::now();
    let mut spins = 0u32;
    loop {
        if cond() {
            return true;
        }
        if t0.elapsed() > limit {
            return false;
        }
        spins += 1;
        if spins < 200 {
            std::thread::yield_now();
        } else {
            // polling an observable condition with a deadline, not a timing assumption
            std::thread::sleep(Duration::from_micros(200));
        }
    }
}

impl Nut {
    fn start(dir: &std::path::Path, queue_len: usize, chunk: usize, tick_ms: usize) -> Result<Nut, String> {
        install_recorder();
        reset_stats();
        let nd = dir.join("nut");
        std::fs::create_dir_all(&nd).map_err(|e| e.to_string())?;
        // a database with corrosion's migrations and the shared schema, fixed site id
        drop(open_plain_db(&nd, NUT).map_err(|e| e.to_string())?);
        let db_path = nd.join(format!("db{NUT}.sqlite"));
        let mut conf: Config = Config::builder()
            .api_addr("127.0.0.1:0".parse().unwrap())
            .gossip_addr("127.0.0.1:0".parse().unwrap())
            .admin_path(nd.join("admin.sock").display().to_string())
            .db_path(db_path.display().to_string())
            .build()
            .map_err(|e| e.to_string())?;
        conf.perf.processing_queue_len = queue_len;
        conf.perf.apply_queue_len = chunk;
        conf.perf.apply_queue_timeout = tick_ms;
        conf.perf.sql_tx_timeout = 1;
        let rt = tokio::runtime::Builder::new_multi_thread().worker_threads(4).enable_all().build().map_err(|e| e.to_string())?;
        let (tripwire, worker, trip_tx) = Tripwire::new_simple();
        let (agent, bookie, loop_handle, rx_bcast, keep) = rt.block_on(async move {
            tokio::spawn(worker);
            let (agent, opts) = setup(conf, tripwire.clone()).await.map_err(|e| format!("{e:#}"))?;
            let AgentOptions {
                lock_registry,
                gossip_server_endpoint,
                transport,
                api_listeners,
                rx_bcast,
                rx_apply,
                rx_clear_buf,
                rx_changes,
                rx_foca,
                rtt_rx,
                subs_manager,
                subs_bcast_cache,
                updates_bcast_cache,
                tripwire: _,
            } = opts;
            // as run_root.rs does
            let bookie = Bookie::new_with_registry(Default::default(), lock_registry);
            {
                let mut w = bookie.write::<&str, _>("init", None).await;
                w.insert(agent.actor_id(), agent.booked().clone());
            }
            // a short busy timeout on the pool's write connection, so that a batch that finds the database
            // locked by another connection fails after 50 ms instead of rusqlite's default 5 s
            {
                let c = agent.pool().write_priority().await.map_err(|e| e.to_string())?;
                c.pragma_update(None, "busy_timeout", 50).map_err(|e| e.to_string())?;
            }
            tokio::spawn(clear_buffered_meta_loop(agent.clone(), rx_clear_buf));
            tokio::spawn(apply_fully_buffered_changes_loop(agent.clone(), bookie.clone(), rx_apply, tripwire.clone()));
            let h = tokio::spawn(handle_changes(agent.clone(), bookie.clone(), rx_changes, tripwire.clone()));
            let keep: Box<dyn std::any::Any> =
                Box::new((gossip_server_endpoint, transport, api_listeners, rx_foca, rtt_rx, subs_manager, subs_bcast_cache, updates_bcast_cache));
            Ok::<_, String>((agent, bookie, h, rx_bcast, keep))
        })?;
        if agent.actor_id() != actor_of(NUT) {
            return Err("node under test came up with another actor id".into());
        }
        let nut = Nut {
            rt,
            agent,
            bookie,
            trip_tx,
            loop_handle: Some(loop_handle),
            rx_bcast,
            _keep: keep,
            db_path,
            guard: None,
            lock_conn: None,
            queue_len,
            tick: Duration::from_millis(tick_ms as u64),
            sent: 0,
            held_ticks: 0,
            tainted: false,
        };
        // the interval's first tick fires at once: the loop is up when it has been taken
        if !wait_until(|| ld(&stats().ticks) >= 1, LONG) {
            return Err("loop did not start".into());
        }
        Ok(nut)
    }

    fn stop(mut self) {
        self.guard = None;
        if let Some(c) = self.lock_conn.take() {
            let _ = c.execute_batch("ROLLBACK");
        }
        let tx = self.trip_tx.clone();
        let h = self.loop_handle.take();
        self.rt.block_on(async move {
            let _ = tx.send(()).await;
            if let Some(h) = h {
                let _ = tokio::time::timeout(Duration::from_secs(10), h).await;
            }
        });
        let Nut { rt, agent, bookie, rx_bcast, _keep, .. } = self;
        drop((agent, bookie, rx_bcast, _keep));
        rt.shutdown_background();
    }

    fn read_conn(&self) -> rusqlite::Result<CrConn> {
        CrConn::init(rusqlite::Connection::open(&self.db_path)?)
    }

    /// waits for the next tick of the loop; returns (queue length, cost, jobs) as the loop reported them
    fn next_tick(&mut self) -> Result<(u64, u64, u64), String> {
        let s = stats();
        let c0 = ld(&s.ticks);
        let h = self.loop_handle.as_ref();
        let died = || h.map(|h| h.is_finished()).unwrap_or(true);
        if !wait_until(|| ld(&s.ticks) > c0 || died(), LONG) {
            return Err("no-tick".into());
        }
        if ld(&s.ticks) <= c0 {
            return Err("LOOP-DIED".into());
        }
        Ok((ld(&s.g_q), ld(&s.g_cost), ld(&s.g_jobs)))
    }

    fn check_no_tick(&mut self) {
        if self.guard.is_some() && ld(&stats().ticks) != self.held_ticks {
            self.tainted = true;
        }
    }

    fn hold(&mut self) -> String {
        if self.guard.is_some() {
            return "err held".into();
        }
        let pool = self.agent.pool().clone();
        let g = match self.rt.block_on(async move { tokio::time::timeout(LONG, pool.write_priority()).await }) {
            Ok(Ok(g)) => g,
            _ => return "inconclusive no-write-conn".into(),
        };
        self.guard = Some(g);
        // start the burst right after a tick: the whole period is available before the next one.
        // (drained state: a tick is idempotent, so skipping the wait right after one changes nothing)
        let fresh = stats().last_tick.lock().unwrap().map(|t| t.elapsed() < self.tick / 5).unwrap_or(false);
        if !fresh {
            if let Err(e) = self.next_tick() {
                return died_or_inconclusive(&e);
            }
        }
        self.held_ticks = ld(&stats().ticks);
        "ok".into()
    }

    fn send(&mut self, c: ChangeV1, src: ChangeSource) -> Result<(), String> {
        let tx = self.agent.tx_changes().clone();
        self.rt.block_on(async move { tx.send((c, src)).await }).map_err(|_| "channel-closed".to_string())?;
        self.sent += 1;
        Ok(())
    }

    /// an own-actor changeset: the loop counts it and skips it; once it has been received every earlier
    /// message has been processed completely (single task, channel order)
    fn sentinel(&mut self) -> Result<(), String> {
        let c = ChangeV1 {
            actor_id: actor_of(NUT),
            changeset: Changeset::Empty { versions: CrsqlDbVersion(1)..=CrsqlDbVersion(1), ts: None },
        };
        self.send(c, ChangeSource::Sync)?;
        let want = self.sent;
        let h = self.loop_handle.as_ref();
        let died = || h.map(|h| h.is_finished()).unwrap_or(true);
        if !wait_until(|| ld(&stats().recv) >= want || died(), LONG) {
            return Err("offer-not-consumed".into());
        }
        if ld(&stats().recv) < want {
            return Err("LOOP-DIED".into());
        }
        Ok(())
    }

    fn offer(&mut self, c: ChangeV1, src: ChangeSource) -> String {
        if self.guard.is_none() {
            return "err not-held".into();
        }
        self.check_no_tick();
        let s = stats();
        let (d0, s0) = (ld(&s.dropped), ld(&s.spawned));
        if let Err(e) = self.send(c, src).and_then(|_| self.sentinel()) {
            return died_or_inconclusive(&e);
        }
        let mut rb = 0;
        while let Ok(m) = self.rx_bcast.try_recv() {
            if matches!(m, BroadcastInput::Rebroadcast(BroadcastV1::Change(_))) {
                rb += 1;
            }
        }
        self.check_no_tick();
        format!("ok drop={} spawn={} rb={rb}", ld(&s.dropped) - d0, ld(&s.spawned) - s0)
    }

    fn tickwait(&mut self) -> String {
        self.check_no_tick();
        match self.next_tick() {
            Ok((q, cost, jobs)) => {
                if self.guard.is_some() {
                    self.held_ticks += 1;
                    // the flush / trim of this tick happen right after the gauges, in the same task step;
                    // a sentinel makes sure they are over before the next op
                    if let Err(e) = self.sentinel() {
                        return died_or_inconclusive(&e);
                    }
                    self.check_no_tick();
                }
                format!("ok q={q} cost={cost} jobs={jobs}")
            }
            Err(e) => died_or_inconclusive(&e),
        }
    }

    fn lock(&mut self) -> String {
        if self.lock_conn.is_some() {
            return "err locked".into();
        }
        let c = match rusqlite::Connection::open(&self.db_path) {
            Ok(c) => c,
            Err(e) => return format!("inconclusive {e}"),
        };
        let _ = c.busy_timeout(Duration::from_secs(20));
        if let Err(e) = c.execute_batch("BEGIN IMMEDIATE") {
            return format!("inconclusive {e}");
        }
        self.lock_conn = Some(c);
        "ok".into()
    }

    fn unlock(&mut self) -> String {
        match self.lock_conn.take() {
            Some(c) => {
                let _ = c.execute_batch("ROLLBACK");
                "ok".into()
            }
            None => "err not-locked".into(),
        }
    }

    fn release(&mut self) -> String {
        if self.guard.is_none() {
            return "err not-held".into();
        }
        self.check_no_tick();
        self.guard = None;
        // drained = a tick at which the loop itself reports an empty queue and no running batch
        let t0 = Instant::now();
        loop {
            match self.next_tick() {
                Ok((0, _, 0)) => break,
                Ok(_) => {}
                Err(e) => return died_or_inconclusive(&e),
            }
            if t0.elapsed() > LONG {
                return "inconclusive not-drained".into();
            }
        }
        match self.wait_quiescent() {
            Ok(()) => "ok".into(),
            Err(e) => format!("inconclusive {e}"),
        }
    }

    /// every fully buffered version applied by the background loop and its buffered rows cleared
    /// (same observable condition as `Cluster::wait_quiescent`)
    fn wait_quiescent(&self) -> Result<(), String> {
        let t0 = Instant::now();
        let conn = self.read_conn().map_err(|e| e.to_string())?;
        loop {
            let mut keys: std::collections::BTreeSet<(Vec<u8>, i64)> = Default::default();
            for sql in ["SELECT DISTINCT site_id, db_version FROM __corro_seq_bookkeeping", "SELECT DISTINCT site_id, db_version FROM __corro_buffered_changes"] {
                let mut st = conn.prepare(sql).map_err(|e| e.to_string())?;
                let more: Vec<(Vec<u8>, i64)> = st.query_map([], |r| Ok((r.get(0)?, r.get(1)?))).and_then(|it| it.collect()).map_err(|e| e.to_string())?;
                keys.extend(more);
            }
            let mut pending = false;
            for (s, v) in &keys {
                let actor = ActorId(uuid::Uuid::from_slice(s).map_err(|e| e.to_string())?);
                let st: Option<bool> = self.rt.block_on(async {
                    let b = self.bookie.read::<&str, _>("verif", None).await.get(&actor).cloned();
                    match b {
                        Some(b) => {
                            let r = b.read::<&str, _>("verif", None).await;
                            r.partials.get(&CrsqlDbVersion(*v as u64)).map(|p| p.seqs.gaps(&(CrsqlSeq(0)..=p.last_seq)).count() == 0)
                        }
                        None => None,
                    }
                });
                match st {
                    Some(true) | None => pending = true,
                    Some(false) => {}
                }
            }
            if !pending {
                return Ok(());
            }
            if t0.elapsed() > LONG {
                return Err("apply-of-buffered-version-timeout".into());
            }
            std::thread::sleep(Duration::from_millis(2));
        }
    }

    fn held(&self, site: usize, vs: (u64, u64), seqs: Option<(u64, u64)>) -> bool {
        let actor = actor_of(site);
        let seqs: Option<RangeInclusive<CrsqlSeq>> = seqs.map(|(a, b)| CrsqlSeq(a)..=CrsqlSeq(b));
        self.rt.block_on(async {
            let b = self.bookie.read::<&str, _>("verif", None).await.get(&actor).cloned();
            match b {
                Some(b) => b.read::<&str, _>("verif", None).await.contains_all(CrsqlDbVersion(vs.0)..=CrsqlDbVersion(vs.1), seqs.as_ref()),
                None => false,
            }
        })
    }

    fn dump(&self) -> String {
        let conn = match self.read_conn() {
            Ok(c) => c,
            Err(e) => return format!("err {e}"),
        };
        let store = dump_db(&conn).unwrap_or_else(|e| format!("err {e}"));
        let mem: Vec<String> = self.rt.block_on(async {
            let actors: Vec<(ActorId, klukai_types::agent::Booked)> =
                self.bookie.read::<&str, _>("verif", None).await.iter().map(|(k, v)| (*k, v.clone())).collect();
            let mut out = vec![];
            for (a, b) in actors {
                let r = b.read::<&str, _>("verif", None).await;
                let need: Vec<(u64, u64)> = r.needed().iter().map(|r| (r.start().0, r.end().0)).collect();
                let mut parts = vec![];
                for (v, p) in r.partials.iter() {
                    let s: Vec<(u64, u64)> = p.seqs.iter().map(|r| (r.start().0, r.end().0)).collect();
                    parts.push(format!("{}:{}/{}", v.0, show_ranges(&s), p.last_seq.0));
                }
                if r.last().is_none() && need.is_empty() && parts.is_empty() {
                    continue;
                }
                out.push(format!(
                    "a{} max={} need={} part={}",
                    site_index(a.0.as_bytes()),
                    r.last().map(|v| v.0).unwrap_or(0),
                    show_ranges(&need),
                    show_list(&parts, ",")
                ));
            }
            out.sort();
            out
        });
        let q = |sql: &str| -> Vec<String> {
            let mut st = conn.prepare(sql).unwrap();
            let cols = st.column_count();
            let mut out = vec![];
            let mut rows = st.query([]).unwrap();
            while let Some(r) = rows.next().unwrap() {
                let mut f = vec![];
                for i in 0..cols {
                    f.push(match r.get_ref(i).unwrap() {
                        rusqlite::types::ValueRef::Blob(b) => site_index(b),
                        rusqlite::types::ValueRef::Integer(i) => i.to_string(),
                        other => format!("{other:?}"),
                    });
                }
                out.push(f.join(":"));
            }
            out.sort();
            out
        };
        let gaps = q("SELECT actor_id, start, end FROM __corro_bookkeeping_gaps");
        let seqs = q("SELECT site_id, db_version, start_seq, end_seq, last_seq FROM __corro_seq_bookkeeping");
        let buf = q("SELECT site_id, db_version, seq FROM __corro_buffered_changes");
        let dbv = q("SELECT site_id, db_version FROM crsql_db_versions");
        format!("{store} | mem[{}] gaps[{}] seqs[{}] buf[{}] dbv[{}]", mem.join(" "), gaps.join(","), seqs.join(","), buf.join(","), dbv.join(","))
    }
}

// ------------------------------------------------------------------------------------------------
// the world of one case
// ------------------------------------------------------------------------------------------------

#[derive(Clone)]
struct Offered {
    text: String,
    site: usize,
    vs: (u64, u64),
    seqs: Option<(u64, u64)>,
}

struct World {
    dir: TmpDir,
    dbs: BTreeMap<usize, CrConn>,
    /// original change list of (site, version) with its last_seq
    log: BTreeMap<(usize, i64), (Vec<Chg>, i64)>,
    nut: Option<Nut>,
    /// distinct offered changesets in first-offer order
    offered: Vec<Offered>,
    drops: u64,
    locked_ever: bool,
    failures: Vec<String>,
    tags: Vec<String>,
}

fn to_change(c: &Chg) -> Change {
    Change {
        table: klukai_types::api::TableName(c.table.as_str().into()),
        pk: c.pk_raw.clone(),
        cid: klukai_types::api::ColumnName(c.cid.as_str().into()),
        val: c.val_raw.clone(),
        col_version: c.colv,
        db_version: CrsqlDbVersion(c.dbv as u64),
        seq: CrsqlSeq(c.seq as u64),
        site_id: c.site_raw.clone().try_into().unwrap_or([0u8; 16]),
        cl: c.cl,
    }
}

impl World {
    fn new() -> Self {
        World {
            dir: TmpDir::new("c10"),
            dbs: BTreeMap::new(),
            log: BTreeMap::new(),
            nut: None,
            offered: vec![],
            drops: 0,
            locked_ever: false,
            failures: vec![],
            tags: vec![],
        }
    }

    fn local_write(&mut self, db: usize, stmts: &str) -> String {
        if !self.dbs.contains_key(&db) {
            match open_plain_db(self.dir.path(), db) {
                Ok(c) => {
                    self.dbs.insert(db, c);
                }
                Err(e) => return format!("err {e}"),
            }
        }
        let conn = self.dbs.get_mut(&db).unwrap();
        let before: i64 = conn.query_row("SELECT crsql_db_version()", [], |r| r.get(0)).unwrap();
        let res: rusqlite::Result<()> = (|| {
            let tx = conn.transaction()?;
            for s in stmts.split(';') {
                let (sql, params) = match stmt_sql(s) {
                    Some(x) => x,
                    None => return Err(rusqlite::Error::InvalidQuery),
                };
                tx.execute(&sql, rusqlite::params_from_iter(params))?;
            }
            tx.commit()
        })();
        match res {
            Err(rusqlite::Error::InvalidQuery) => "bad-op".into(),
            Err(e) => match e.sqlite_error_code() {
                Some(rusqlite::ErrorCode::ConstraintViolation) => "err constraint".into(),
                Some(c) => format!("err sqlite-{c:?}"),
                None => "err other".into(),
            },
            Ok(()) => {
                let after: i64 = conn.query_row("SELECT crsql_db_version()", [], |r| r.get(0)).unwrap();
                if after == before {
                    return "noop".into();
                }
                let site = site_id(db).to_vec();
                let mut chs = read_changes(conn, "WHERE site_id = ? AND db_version = ? ORDER BY seq", &[&site, &after]).unwrap();
                chs.sort_by_key(|c| c.seq);
                let last = chs.iter().map(|c| c.seq).max().unwrap_or(0);
                let out = format!("ok v={after} {}", if chs.is_empty() { "-".to_string() } else { chs.iter().map(|c| c.show()).collect::<Vec<_>>().join(";") });
                self.log.insert((db, after), (chs, last));
                out
            }
        }
    }

    /// `Ok(change + what it covers)`, `Err(canonical answer)`
    fn parse_item(&self, item: &str) -> Result<(ChangeV1, Offered), String> {
        let p: Vec<&str> = item.split(':').collect();
        let site_of = |s: &str| s.parse::<usize>().ok().filter(|x| *x < 4);
        match p.as_slice() {
            ["o", site, ver, spec] => {
                let (Some(site), Ok(ver)) = (site_of(site), ver.parse::<i64>()) else { return Err("bad-op".into()) };
                let Some((chs, last)) = self.log.get(&(site, ver)) else { return Err("err no-such-version".into()) };
                let Some((lo, hi)) = chunk_spec(spec, *last as u64) else { return Err("err bad-chunk".into()) };
                if lo > hi {
                    return Err("err bad-chunk".into());
                }
                let changes: Vec<Change> = chs.iter().filter(|c| c.seq as u64 >= lo && c.seq as u64 <= hi).map(to_change).collect();
                Ok((
                    ChangeV1 {
                        actor_id: actor_of(site),
                        changeset: Changeset::Full {
                            version: CrsqlDbVersion(ver as u64),
                            changes,
                            seqs: CrsqlSeq(lo)..=CrsqlSeq(hi),
                            last_seq: CrsqlSeq(*last as u64),
                            ts: Timestamp::from(1u64 << 32),
                        },
                    },
                    Offered { text: item.to_string(), site, vs: (ver as u64, ver as u64), seqs: Some((lo, hi)) },
                ))
            }
            ["x", site, ver, seqs, last] => {
                let (Some(site), Ok(ver), Some((lo, hi)), Ok(last)) = (site_of(site), ver.parse::<u64>(), parse_range(seqs), last.parse::<u64>()) else {
                    return Err("bad-op".into());
                };
                Ok((
                    ChangeV1 {
                        actor_id: actor_of(site),
                        changeset: Changeset::Full {
                            version: CrsqlDbVersion(ver),
                            changes: vec![],
                            seqs: CrsqlSeq(lo)..=CrsqlSeq(hi),
                            last_seq: CrsqlSeq(last),
                            ts: Timestamp::from(1u64 << 32),
                        },
                    },
                    Offered { text: item.to_string(), site, vs: (ver, ver), seqs: Some((lo, hi)) },
                ))
            }
            ["e", site, vers] => {
                let (Some(site), Some((lo, hi))) = (site_of(site), parse_range(vers)) else { return Err("bad-op".into()) };
                if lo == 0 || lo > hi {
                    return Err("bad-op".into());
                }
                Ok((
                    ChangeV1 { actor_id: actor_of(site), changeset: Changeset::Empty { versions: CrsqlDbVersion(lo)..=CrsqlDbVersion(hi), ts: None } },
                    Offered { text: item.to_string(), site, vs: (lo, hi), seqs: None },
                ))
            }
            _ => Err("bad-op".into()),
        }
    }

    fn offer(&mut self, item: &str, src: ChangeSource) -> String {
        let (c, o) = match self.parse_item(item) {
            Ok(x) => x,
            Err(e) => return e,
        };
        let Some(nut) = self.nut.as_mut() else { return "err no-node".into() };
        let out = nut.offer(c, src);
        if out.starts_with("ok") {
            let inverted = o.seqs.map(|(a, b)| a > b).unwrap_or(false);
            if o.site != NUT && !inverted && !self.offered.iter().any(|x| x.text == o.text) {
                self.offered.push(o);
            }
            if out.contains("drop=1") {
                self.drops += 1;
            }
        }
        out
    }

    fn is_held(&self, o: &Offered) -> bool {
        self.nut.as_ref().map(|n| n.held(o.site, o.vs, o.seqs)).unwrap_or(false)
    }

    /// what sync does once the overload is over (see the module comment); the ORACLE of the property
    fn reoffer(&mut self, rounds: usize) -> String {
        let Some(nut) = self.nut.as_ref() else { return "err no-node".into() };
        if nut.guard.is_some() {
            return "err held".into();
        }
        if nut.lock_conn.is_some() {
            return "err locked".into();
        }
        let group = nut.queue_len.max(1);
        let mut done = 0;
        for _ in 0..rounds {
            let todo: Vec<Offered> = self.offered.iter().filter(|o| !self.is_held(o)).cloned().collect();
            if todo.is_empty() {
                break;
            }
            done += 1;
            for g in todo.chunks(group) {
                let r = self.nut.as_mut().unwrap().hold();
                if r != "ok" {
                    return r;
                }
                for o in g {
                    let r = self.offer(&o.text, ChangeSource::Sync);
                    if !r.starts_with("ok") {
                        return r;
                    }
                }
                let r = self.nut.as_mut().unwrap().release();
                if r != "ok" {
                    return r;
                }
            }
        }
        let left: Vec<String> = self.offered.iter().filter(|o| !self.is_held(o)).map(|o| o.text.clone()).collect();
        if !left.is_empty() {
            // the property: a change that keeps being re-offered is applied once the overload is over
            let actors: std::collections::BTreeSet<usize> = self.offered.iter().map(|o| o.site).collect();
            let prefix = if self.locked_ever {
                "failed-batch-residue"
            } else if self.drops > 0 && actors.len() >= 2 {
                "wrong-actor-eviction"
            } else if self.drops > 0 {
                "emptied-entry-keeps-key"
            } else {
                "lost-change"
            };
            self.failures.push(format!(
                "{prefix}: after the overload ended, {done} round(s) of re-offering every changeset that is not held left {} neither applied nor buffered",
                left.join(",")
            ));
        }
        format!("ok rounds={done} left={}", show_list(&left, ","))
    }

    /// independent oracle: nothing is claimed that was never offered
    fn claims_oracle(&mut self) {
        let Some(nut) = self.nut.as_ref() else { return };
        for ((site, ver), (_, last)) in self.log.iter() {
            let ver = *ver as u64;
            if !nut.held(*site, (ver, ver), None) {
                continue;
            }
            // the node claims the whole version: some offered Empty must cover it, or the offered chunks must
            // cover 0..=last
            let mut covered = rangemap::RangeInclusiveSet::new();
            let mut by_empty = false;
            for o in self.offered.iter().filter(|o| o.site == *site && o.vs.0 <= ver && ver <= o.vs.1) {
                match o.seqs {
                    None => by_empty = true,
                    Some((a, b)) if a <= b => covered.insert(a..=b),
                    _ => {}
                }
            }
            if !by_empty && covered.gaps(&(0..=*last as u64)).next().is_some() {
                self.failures.push(format!("claimed-not-stored: the node reports version {ver} of site {site} as held but was never offered all of it"));
            }
        }
    }

    fn exec(&mut self, toks: &[&str]) -> String {
        let out = self.exec_inner(toks);
        if out == "err loop-died" && !self.failures.iter().any(|f| f.starts_with("ingest-loop-died")) {
            self.failures.push(format!(
                "ingest-loop-died: handle_changes terminated (op `{}`); the node ingests nothing any more",
                toks.join(" ")
            ));
        }
        out
    }

    fn exec_inner(&mut self, toks: &[&str]) -> String {
        let with_nut = |w: &mut World, f: &dyn Fn(&mut Nut) -> String| -> String {
            match w.nut.as_mut() {
                Some(n) => f(n),
                None => "err no-node".into(),
            }
        };
        match toks {
            ["tag", _id] => "ok".into(),
            ["cw", db, stmts] => match db.parse::<usize>().ok().filter(|x| *x < 3) {
                Some(db) => self.local_write(db, stmts),
                None => "bad-op".into(),
            },
            ["cfg", q, chunk] | ["cfg", q, chunk, _] => {
                let tick = match toks.get(3) {
                    Some(t) => t.parse::<usize>().ok().filter(|t| *t >= 10 && *t <= 5000),
                    None => Some(100),
                };
                let (Some(q), Some(chunk), Some(tick)) =
                    (q.parse::<usize>().ok().filter(|x| *x >= 1 && *x <= 100_000), chunk.parse::<usize>().ok().filter(|x| *x >= 1 && *x <= 100_000), tick)
                else {
                    return "bad-op".into();
                };
                if self.nut.is_some() {
                    return "err configured".into();
                }
                match Nut::start(self.dir.path(), q, chunk, tick) {
                    Ok(n) => {
                        self.nut = Some(n);
                        "ok".into()
                    }
                    Err(e) => format!("inconclusive {e}"),
                }
            }
            ["hold"] => with_nut(self, &|n| n.hold()),
            ["release"] => with_nut(self, &|n| n.release()),
            ["tickwait"] => with_nut(self, &|n| n.tickwait()),
            ["lock"] => {
                let r = with_nut(self, &|n| n.lock());
                if r == "ok" {
                    self.locked_ever = true;
                }
                r
            }
            ["unlock"] => with_nut(self, &|n| n.unlock()),
            ["offer", item, src] => {
                let src = match *src {
                    "b" => ChangeSource::Broadcast,
                    "s" => ChangeSource::Sync,
                    _ => return "bad-op".into(),
                };
                self.offer(item, src)
            }
            ["held", site, vs, seqs] => {
                let (Some(site), Some(vs)) = (site.parse::<usize>().ok().filter(|x| *x < 4), parse_range(vs)) else { return "bad-op".into() };
                let seqs = if *seqs == "-" {
                    None
                } else {
                    match parse_range(seqs) {
                        Some(r) => Some(r),
                        None => return "bad-op".into(),
                    }
                };
                if vs.0 == 0 || vs.0 > vs.1 || seqs.map(|(a, b)| a > b).unwrap_or(false) {
                    return "bad-op".into();
                }
                match self.nut.as_ref() {
                    Some(n) => (if n.held(site, vs, seqs) { "yes" } else { "no" }).into(),
                    None => "err no-node".into(),
                }
            }
            ["retire", item] => {
                // the peers no longer have the changeset in this form (e.g. the version was overwritten and is
                // now served as Empty): `reoffer` stops offering it
                if self.parse_item(item).is_err() {
                    return "bad-op".into();
                }
                self.offered.retain(|o| o.text != *item);
                "ok".into()
            }
            ["reoffer", r] => match r.parse::<usize>().ok().filter(|r| *r >= 1 && *r <= 5) {
                Some(r) => self.reoffer(r),
                None => "bad-op".into(),
            },
            ["dump"] => match self.nut.as_ref() {
                Some(n) => {
                    if n.guard.is_some() {
                        "err held".into()
                    } else {
                        n.dump()
                    }
                }
                None => "err no-node".into(),
            },
            _ => "bad-op".into(),
        }
    }
}

fn run_once(ops: &[String]) -> (CaseResult, bool) {
    let mut w = World::new();
    let mut res = CaseResult::default();
    for op in ops {
        let toks: Vec<&str> = op.split_whitespace().collect();
        let out = if toks.is_empty() { "bad-op".to_string() } else { w.exec(&toks) };
        if let Some(why) = out.strip_prefix("inconclusive ") {
            res.inconclusive = Some(why.to_string());
        }
        res.outputs.push(out);
        if res.inconclusive.is_some() {
            break;
        }
    }
    w.claims_oracle();
    let tainted = w.nut.as_ref().map(|n| n.tainted).unwrap_or(false);
    res.nontrivial = w.drops > 0;
    res.oracle_failures = std::mem::take(&mut w.failures);
    let mut tags = std::mem::take(&mut w.tags);
    tags.push(format!("drops:{}", w.drops.min(9)));
    let actors: std::collections::BTreeSet<usize> = w.offered.iter().map(|o| o.site).collect();
    tags.push(format!("actors:{}", actors.len()));
    tags.push(format!("offered:{}", (w.offered.len() / 4) * 4));
    if w.locked_ever {
        tags.push("failed-batches".into());
    }
    if w.offered.iter().any(|o| o.seqs.is_none()) {
        tags.push("empty-changesets".into());
    }
    if w.offered.iter().any(|o| o.text.contains(":p")) {
        tags.push("partial-chunks".into());
    }
    res.tags = tags;
    if let Some(n) = w.nut.take() {
        n.stop();
    }
    (res, tainted)
}

// ------------------------------------------------------------------------------------------------
// generator
// ------------------------------------------------------------------------------------------------

/// a transaction that certainly creates a version: inserts of fresh keys, updates / deletes of keys this
/// origin inserted earlier, every written value new
fn gen_tx(rng: &mut Rng, site: usize, live: &mut Vec<u64>, ctr: &mut u64) -> String {
    // many statements = a version with many seqs, so that a full queue can consist of chunks of ONE version
    // (few keys in `seen`: the tick trim does not rescue a lost eviction)
    let m = match rng.below(6) {
        0 | 1 => 1,
        2 | 3 => rng.range(2, 4),
        _ => rng.range(4, 7),
    };
    let mut st = vec![];
    for _ in 0..m {
        *ctr += 1;
        let val = format!("t{:02x}{:02x}", 0x61 + (*ctr / 16) % 16, 0x61 + *ctr % 16);
        match rng.below(6) {
            0 | 1 if !live.is_empty() => {
                let k = *rng.pick(live);
                st.push(format!("upd:t:i{k}:a={val},b=i{}", *ctr));
            }
            2 if !live.is_empty() => {
                let i = rng.below(live.len() as u64) as usize;
                let k = live.remove(i);
                st.push(format!("del:t:i{k}"));
            }
            _ => {
                let k = (site as u64 + 1) * 100 + *ctr;
                live.push(k);
                if rng.chance(1, 4) { st.push(format!("ins:t:i{k}:a={val}")) } else { st.push(format!("ins:t:i{k}:a={val},b=i{}", *ctr)) }
            }
        }
    }
    st.join(";")
}

struct GenItem {
    text: String,
    site: usize,
    vs: (u64, u64),
}

fn gen_items(rng: &mut Rng, vers: &[u64]) -> Vec<GenItem> {
    let mut items = vec![];
    for (site, n) in vers.iter().enumerate() {
        for v in 1..=*n {
            match rng.below(10) {
                0..=4 => items.push(GenItem { text: format!("o:{site}:{v}:all"), site, vs: (v, v) }),
                _ => {
                    let parts = rng.range(2, 6);
                    for k in 0..parts {
                        items.push(GenItem { text: format!("o:{site}:{v}:p{k}of{parts}"), site, vs: (v, v) });
                    }
                    // the same version also travels in other cuts (another peer's chunking, the complete
                    // changeset): offers that OVERLAP what was seen without being covered by it, e.g. a
                    // changeset bridging two seen chunks across an unseen one (seeded change C10-1)
                    if rng.chance(1, 2) {
                        items.push(GenItem { text: format!("o:{site}:{v}:all"), site, vs: (v, v) });
                    }
                    if rng.chance(1, 3) {
                        let parts2 = if parts == 2 { 3 } else { parts - 1 };
                        for k in 0..parts2 {
                            if rng.chance(2, 3) {
                                items.push(GenItem { text: format!("o:{site}:{v}:p{k}of{parts2}"), site, vs: (v, v) });
                            }
                        }
                    }
                }
            }
        }
        // versions beyond the origin's head claimed empty (cleared versions, as sync serves them)
        if rng.chance(1, 3) {
            let lo = n + 1;
            let hi = lo + rng.below(3);
            items.push(GenItem { text: format!("e:{site}:{lo}-{hi}"), site, vs: (lo, hi) });
        }
    }
    items
}

impl Prop for C10 {
    fn id(&self) -> &'static str {
        "C10"
    }
    fn rule(&self) -> &'static str {
        "a case counts if its op list is new and the real loop dropped at least one queued changeset (corro.agent.changes.dropped)"
    }
    fn default_cases(&self, tier: Tier) -> usize {
        match tier {
            Tier::Quick => 80,
            Tier::Thorough => 2000,
        }
    }

    fn gen_case(&self, rng: &mut Rng, _tier: Tier, _index: usize) -> Vec<String> {
        let mut ops = vec![];
        let nact = *rng.pick(&[1usize, 2, 2, 3]);
        let mut vers = vec![0u64; nact];
        let mut ctr = 0u64;
        for (site, n) in vers.iter_mut().enumerate() {
            let mut live = vec![];
            let k = rng.range(1, 4);
            for _ in 0..k {
                ops.push(format!("cw {site} {}", gen_tx(rng, site, &mut live, &mut ctr)));
                *n += 1;
            }
        }
        let q = *rng.pick(&[1u64, 1, 2, 2, 3, 3, 4, 6]);
        let chunk = *rng.pick(&[1u64, 2, 3, 5, 50, 50, 50]);
        ops.push(format!("cfg {q} {chunk}"));
        let mut items = gen_items(rng, &vers);
        // overload phases: the connection is busy while changesets (with duplicates) arrive
        let phases = rng.range(1, 3);
        for _ in 0..phases {
            rng.shuffle(&mut items);
            // the database is locked by somebody else when the batches run: every batch of this phase fails
            let failing = rng.chance(1, 4);
            if failing {
                ops.push("lock".into());
            }
            ops.push("hold".into());
            let n = rng.range((items.len() as u64 / 2).max(1), items.len() as u64) as usize;
            for it in items.iter().take(n) {
                ops.push(format!("offer {} {}", it.text, if rng.chance(1, 2) { "b" } else { "s" }));
                if rng.chance(1, 5) {
                    // a duplicate of something already offered, or (rarely) a changeset of the node's own actor
                    let dup = if rng.chance(1, 8) { format!("e:{NUT}:1-1") } else { rng.pick(&items).text.clone() };
                    ops.push(format!("offer {dup} {}", if rng.chance(1, 2) { "b" } else { "s" }));
                }
                if rng.chance(1, 20) {
                    ops.push("tickwait".into());
                }
                if rng.chance(1, 25) {
                    // malformed: inverted seq range (ignored by the loop)
                    ops.push(format!("offer x:{}:{}:{}-{}:9 s", it.site, it.vs.0, rng.range(3, 6), rng.range(0, 2)));
                }
            }
            ops.push("release".into());
            if failing {
                ops.push("unlock".into());
            }
            if rng.chance(1, 3) {
                let it = rng.pick(&items);
                ops.push(format!("held {} {}-{} -", it.site, it.vs.0, it.vs.1));
            }
        }
        ops.push("reoffer 2".into());
        ops.push("dump".into());
        ops
    }

    fn exec_case(&self, ops: &[String]) -> CaseResult {
        // the op discipline needs ticks to fire only where the ops say; a run in which the machine stalled
        // long enough for a stray tick is repeated
        let mut last = None;
        for _attempt in 0..4 {
            let (res, tainted) = run_once(ops);
            if !tainted {
                return res;
            }
            last = Some(res);
        }
        let mut res = last.unwrap();
        res.inconclusive = Some("stray-tick".into());
        res
    }

    fn end(&self) {
        cleanup_template();
    }
}
